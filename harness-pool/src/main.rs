//! Pool lab (C06, C07): drives the real `ThreadPool` (util/thread/pool.rs)
//! through the linearising shim and prints, per request, the linearised event
//! log plus the lab's own evaluation of the property on the run.

#[path = "../../harness/src/rng.rs"]
#[allow(dead_code)]
mod rng;

use divan::__verif::shim::{self, Ev, Pool};
use std::io::{BufRead, Write};
use std::sync::atomic::{AtomicBool, AtomicUsize, Ordering::SeqCst};
use std::sync::Mutex;
use std::time::Duration;

fn ev_token(l: &shim::Logged) -> String {
    let t = l.thread;
    match &l.ev {
        Ev::New(v) => format!("{t}:N{v}"),
        Ev::Load(v, o) => format!("{t}:L{v}.{o}"),
        Ev::FetchSub(v, o) => format!("{t}:S{v}.{o}"),
        Ev::Recv => format!("{t}:R"),
        Ev::RecvEnter => format!("{t}:E"),
        Ev::RecvDisconnected => format!("{t}:X"),
        Ev::HandleClone => format!("{t}:C"),
        Ev::Unpark => format!("{t}:U"),
        Ev::ParkReturn { spurious } => format!("{t}:P{}", *spurious as u8),
        Ev::Spawn(i) => format!("{t}:W{i}"),
        Ev::BarrierEnter => format!("{t}:B"),
        Ev::BarrierLeave => format!("{t}:b"),
        Ev::User(a, b) => format!("{t}:u{a}.{b}"),
    }
}

fn exec(req: &str) -> String {
    let mut kv = std::collections::HashMap::new();
    for t in req.split(' ').skip(1) {
        if let Some((k, v)) = t.split_once('=') {
            kv.insert(k, v);
        }
    }
    let seed: u64 = kv.get("seed").map(|v| v.parse().unwrap()).unwrap_or(1);
    let sp: u64 = kv.get("sp").map(|v| v.parse().unwrap()).unwrap_or(0);
    let hist: Vec<usize> =
        kv.get("h").unwrap_or(&"").split(':').filter(|x| !x.is_empty()).map(|x| x.parse().unwrap()).collect();
    let callers: usize = kv.get("callers").map(|v| v.parse().unwrap()).unwrap_or(1);
    let panics: Vec<(usize, usize)> = kv
        .get("panic")
        .unwrap_or(&"")
        .split(',')
        .filter(|x| !x.is_empty() && *x != "-")
        .map(|x| {
            let (a, b) = x.split_once('.').unwrap();
            (a.parse().unwrap(), b.parse().unwrap())
        })
        .collect();

    shim::set_seed(seed);
    shim::SPURIOUS_PERCENT.store(sp, SeqCst);
    shim::take_log();
    shim::ACTIVE.store(true, SeqCst);
    let tok0 = shim::thread::token_state();

    // Watchdog: a run that does not return is a deadlock (or a lost wake-up).
    let done = std::sync::Arc::new(AtomicBool::new(false));
    {
        let done = done.clone();
        let req = req.to_string();
        std::thread::spawn(move || {
            for _ in 0..300 {
                std::thread::sleep(Duration::from_millis(50));
                if done.load(SeqCst) {
                    return;
                }
            }
            use std::os::fd::FromRawFd;
            let mut out = unsafe { std::fs::File::from_raw_fd(1) };
            let log: Vec<String> = shim::take_log().iter().map(ev_token).collect();
            let _ = writeln!(out, "{req}\thang T{} {}", 0, log.join(","));
            let _ = out.flush();
            std::mem::forget(out);
            // no exit handlers: they would wait for the standard-output lock the stuck main thread holds
            std::process::abort();
        });
    }

    let caller = std::thread::current().id();
    let mut results_ok = true;
    let mut threads_ok = true;
    let mut visible_ok = true;
    let mut once_ok = true;
    let pool = Pool::new();
    // One result vector reused across broadcasts (cleared in between), the way
    // `bench_loop_threaded` reuses `raw_samples`.
    let mut v: Vec<Option<usize>> = Vec::new();
    for (b, &n) in hist.iter().enumerate() {
        v.clear();
        let ids: Vec<Mutex<Option<(std::thread::ThreadId, Option<String>)>>> = (0..=n).map(|_| Mutex::new(None)).collect();
        let calls: Vec<AtomicUsize> = (0..=n).map(|_| AtomicUsize::new(0)).collect();
        // Plain (non-atomic) cells written by the task and read by the caller
        // after the broadcast returned.
        let cells: Vec<std::cell::UnsafeCell<usize>> = (0..=n).map(|_| std::cell::UnsafeCell::new(0)).collect();
        struct Share<'a>(&'a [std::cell::UnsafeCell<usize>]);
        unsafe impl Sync for Share<'_> {}
        let share = Share(&cells);
        // Broadcasts may come from different calling threads, one after the
        // other: odd-numbered broadcasts of a `callers=2` history are issued
        // from a fresh thread.
        let from_other = callers > 1 && b % 2 == 1;
        let caller = if from_other { None } else { Some(caller) };
        let caller_id = std::sync::Mutex::new(caller);
        let task = |i: usize| {
            let share = &share;
            if i == 0 {
                let mut c = caller_id.lock().unwrap();
                if c.is_none() {
                    *c = Some(std::thread::current().id());
                }
            }
            shim::user_event(1, i as u32);
            calls[i].fetch_add(1, SeqCst);
            *ids[i].lock().unwrap() = Some((std::thread::current().id(), std::thread::current().name().map(|s| s.to_string())));
            unsafe { *share.0[i].get() = 1000 * (b + 1) + i };
            if panics.contains(&(b, i)) {
                shim::user_event(2, i as u32);
                panic!("scripted");
            }
            shim::user_event(2, i as u32);
            i * 10 + 1
        };
        if from_other {
            std::thread::scope(|sc| {
                sc.spawn(|| pool.par_extend(&mut v, n, task)).join().unwrap();
            });
        } else {
            pool.par_extend(&mut v, n, task);
        }
        let caller = caller_id.lock().unwrap().unwrap();
        // --- the property, evaluated on the run itself
        if v.len() != n + 1 {
            results_ok = false;
        }
        for (i, r) in v.iter().enumerate() {
            let expect = if panics.contains(&(b, i)) { None } else { Some(i * 10 + 1) };
            if *r != expect {
                results_ok = false;
            }
        }
        let mut seen = Vec::new();
        for i in 0..=n {
            if calls[i].load(SeqCst) != 1 {
                once_ok = false;
            }
            if unsafe { *cells[i].get() } != 1000 * (b + 1) + i {
                visible_ok = false;
            }
            match &*ids[i].lock().unwrap() {
                None => once_ok = false,
                Some((id, name)) => {
                    if (i == 0) != (*id == caller) {
                        threads_ok = false;
                    }
                    if i > 0 && name.as_deref() != Some(&format!("divan-{i}")) {
                        threads_ok = false;
                    }
                    if seen.contains(id) {
                        threads_ok = false;
                    }
                    seen.push(*id);
                }
            }
        }
    }
    shim::user_event(9, 0);
    drop(pool);
    // Every worker thread must exit once the pool is gone.
    let maxn = hist.iter().copied().max().unwrap_or(0);
    let mut exited = 0;
    for _ in 0..4000 {
        exited = shim::LOG.lock().unwrap().iter().filter(|l| l.ev == Ev::RecvDisconnected).count();
        if exited >= maxn {
            break;
        }
        std::thread::sleep(Duration::from_millis(1));
    }
    done.store(true, SeqCst);
    shim::ACTIVE.store(false, SeqCst);
    let log: Vec<String> = shim::take_log().iter().map(ev_token).collect();
    format!(
        "T{} {} | R{} O{} D{} V{} E{}",
        tok0 as u8,
        if log.is_empty() { "-".to_string() } else { log.join(",") },
        results_ok as u8,
        once_ok as u8,
        threads_ok as u8,
        visible_ok as u8,
        (exited == maxn) as u8
    )
}

fn gen(rng: &mut rng::Rng, n: usize) -> Vec<String> {
    let mut out = vec![
        "pool seed=1 sp=0 h=0 panic=-".to_string(),
        "pool seed=2 sp=0 h=2 panic=-".to_string(),
        "pool seed=3 sp=0 h=0:1:3:2:0 panic=2.2".to_string(),
        "pool seed=4 sp=0 h=4:0:4 panic=0.0".to_string(),
        "pool seed=5 sp=0 h= panic=-".to_string(),
    ];
    while out.len() < n {
        let len = 1 + rng.below(4) as usize;
        let h: Vec<usize> = (0..len).map(|_| [0usize, 1, 1, 2, 2, 3, 4, 6][rng.below(8) as usize]).collect();
        let mut panics = Vec::new();
        for (b, &k) in h.iter().enumerate() {
            for i in 0..=k {
                if rng.chance(1, 8) {
                    panics.push(format!("{b}.{i}"));
                }
            }
        }
        let sp = if rng.chance(1, 4) { 10 + rng.below(40) } else { 0 };
        out.push(format!(
            "pool seed={} sp={sp} callers={} h={} panic={}",
            rng.next() >> 16,
            if rng.chance(1, 3) { 2 } else { 1 },
            h.iter().map(|x| x.to_string()).collect::<Vec<_>>().join(":"),
            if panics.is_empty() { "-".to_string() } else { panics.join(",") }
        ));
    }
    out
}

fn main() {
    let args: Vec<String> = std::env::args().collect();
    std::panic::set_hook(Box::new(|_| {}));
    let out = std::io::stdout();
    let mut out = std::io::BufWriter::new(out.lock());
    // Every request runs in a process of its own (`plabs one <request>`): a crash or an escaping
    // panic of the real pool is then an observation of that request, not the end of the lab.
    let isolated = |req: &str| -> String {
        // the child has its own watchdog (15 s); should even that fail, it is killed here
        let child = std::process::Command::new(std::env::current_exe().unwrap())
            .arg("one")
            .arg(req)
            .stdin(std::process::Stdio::null())
            .stdout(std::process::Stdio::piped())
            .stderr(std::process::Stdio::null())
            .spawn()
            .and_then(|mut c| {
                let t0 = std::time::Instant::now();
                loop {
                    if c.try_wait()?.is_some() {
                        break;
                    }
                    if t0.elapsed() > Duration::from_secs(40) {
                        let _ = c.kill();
                        break;
                    }
                    std::thread::sleep(Duration::from_millis(2));
                }
                c.wait_with_output()
            });
        match child {
            Ok(o) => {
                let text = String::from_utf8_lossy(&o.stdout).to_string();
                if let Some(l) = text.lines().find(|l| l.contains('\t')) {
                    // the child's own line (also the watchdog's `hang` line)
                    l.split_once('\t').unwrap().1.to_string()
                } else {
                    use std::os::unix::process::ExitStatusExt;
                    match (o.status.signal(), o.status.code()) {
                        (Some(9), _) => "hang T0 (no answer within 40 s; killed by the lab)".to_string(),
                        (Some(sig), _) => format!("crash signal={sig}"),
                        (_, Some(c)) => format!("crash exit={c}"),
                        _ => "crash unknown".to_string(),
                    }
                }
            }
            Err(e) => format!("crash spawn={e}"),
        }
    };
    match args.get(1).map(|s| s.as_str()) {
        Some("one") => {
            let req = &args[2];
            let obs = exec(req);
            writeln!(out, "{req}\t{obs}").unwrap();
            out.flush().unwrap();
        }
        Some("gen") => {
            let mut rng = rng::Rng::new(args[3].parse().unwrap(), &args[2]);
            // a few histories that hang or crash are enough evidence: each hang costs its watchdog's
            // 15 s, so the lab stops after the third
            let mut bad = 0;
            for req in gen(&mut rng, args[4].parse().unwrap()) {
                let obs = isolated(&req);
                let is_bad = obs.starts_with("hang") || obs.starts_with("crash");
                writeln!(out, "{req}\t{obs}").unwrap();
                out.flush().unwrap();
                if is_bad {
                    bad += 1;
                    if bad >= 3 {
                        std::process::exit(3);
                    }
                }
            }
        }
        Some("reqs") => {
            let mut rng = rng::Rng::new(args[3].parse().unwrap(), &args[2]);
            for req in gen(&mut rng, args[4].parse().unwrap()) {
                writeln!(out, "{req}").unwrap();
            }
        }
        Some("exec") => {
            for line in std::io::stdin().lock().lines() {
                let line = line.unwrap();
                let req = line.split('\t').next().unwrap().to_string();
                if req.trim().is_empty() {
                    continue;
                }
                let obs = isolated(&req);
                writeln!(out, "{req}\t{obs}").unwrap();
                out.flush().unwrap();
            }
        }
        _ => {
            eprintln!("usage: plabs gen pool <seed> <n> | plabs exec < requests");
            std::process::exit(2);
        }
    }
}
