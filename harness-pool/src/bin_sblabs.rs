//! Bench lab built against the divan whose `Barrier` (benchmark/mod.rs) and
//! pool primitives are the instrumented ones (feature verif_shim): barrier
//! waits appear in the per-thread traces. Same lab code as ../harness.

#[path = "../../harness/src/rng.rs"]
#[allow(dead_code)]
mod rng;

#[path = "../../harness/src/labs/bench.rs"]
mod bench;

use std::io::{BufRead, Write};

#[global_allocator]
static ALLOC: divan::AllocProfiler = divan::AllocProfiler::system();

fn exec_line(req: &str) -> String {
    let toks: Vec<&str> = req.trim().split(' ').skip(1).collect();
    match std::panic::catch_unwind(|| bench::exec(&toks)) {
        Ok(s) => s,
        Err(_) => "panic:lab".into(),
    }
}

fn main() {
    let args: Vec<String> = std::env::args().collect();
    std::panic::set_hook(Box::new(|_| {}));
    let out = std::io::stdout();
    let mut out = std::io::BufWriter::new(out.lock());
    let gen = |lab: &str, seed: u64, n: usize| -> Vec<String> {
        let prec: u64 = lab.rsplit('p').next().unwrap().parse().unwrap();
        let mut rng = rng::Rng::new(seed, lab);
        bench::gen_bar(&mut rng, n, prec)
    };
    match args.get(1).map(|s| s.as_str()) {
        Some("gen") => {
            for req in gen(&args[2], args[3].parse().unwrap(), args[4].parse().unwrap()) {
                let obs = exec_line(&req);
                writeln!(out, "{req}\t{obs}").unwrap();
                out.flush().unwrap();
            }
        }
        Some("reqs") => {
            for req in gen(&args[2], args[3].parse().unwrap(), args[4].parse().unwrap()) {
                writeln!(out, "{req}").unwrap();
            }
        }
        Some("exec") => {
            for line in std::io::stdin().lock().lines() {
                let line = line.unwrap();
                let req = line.split('\t').next().unwrap().to_string();
                if req.trim().is_empty() {
                    continue;
                }
                let obs = exec_line(&req);
                writeln!(out, "{req}\t{obs}").unwrap();
                out.flush().unwrap();
            }
        }
        _ => std::process::exit(2),
    }
}
