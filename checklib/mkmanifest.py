#!/usr/bin/env python3
"""Writes MANIFEST.json from checklib/registry.py (claimed checks) and properties.jsonl."""
import json
import os
import subprocess
import sys

ROOT = os.path.dirname(os.path.dirname(os.path.abspath(__file__)))
sys.path.insert(0, os.path.join(ROOT, "checklib"))
from registry import PROPS  # noqa: E402

ids = [json.loads(l)["id"] for l in open(os.path.join(ROOT, "properties.jsonl")) if l.strip()]
hook_commits = subprocess.run(
    ["git", "-C", "/repo", "log", "--format=%H %s", "--grep", "^verif hook"], capture_output=True, text=True
).stdout.splitlines()

checks = []
for pid in ids:
    if pid not in PROPS:
        continue
    c = PROPS[pid]
    checks.append(
        dict(
            property_id=pid,
            quick_cmd=f"./check run {pid} --tier quick",
            thorough_cmd=f"./check run {pid} --tier thorough",
            evidence_file=f"/verif/evidence/{pid}.json",
            replay_cmd_template=f"./check replay {pid} {{path}}",
            engine="lean-proof+rust-labs",
            level_claimed=dict(category="proof", text=c["level_text"], design_ref=c.get("design_ref", "DESIGN.md section 6, " + pid)),
            level_note=c["level_note"],
            technique=c.get("technique", "Lean 4 theorems about a hand-written model + differential correspondence check against the real code"),
        )
    )

manifest = dict(
    version=1,
    setup_cmd="./check setup",
    hooks=dict(
        guard="cargo feature verif_hooks (divan crate; off by default)",
        enable="the harness crate depends on divan by path with features=[\"verif_hooks\"]; no RUSTFLAGS needed",
        baseline_off_cmd="cd /repo && cargo test --workspace --no-fail-fast --offline",
        source_commits=[l.split()[0] for l in reversed(hook_commits)],
        add_only=True,
    ),
    engines=[
        dict(name="lean-proof", path="lean/", serves_properties=[c["property_id"] for c in checks],
             kind_free_text="Lean 4.33 lake project: executable models (Model/), property theorems (Props/), per-run #print axioms audit, native line-protocol driver divan_model"),
        dict(name="rust-labs", path="harness/", serves_properties=[c["property_id"] for c in checks],
             kind_free_text="Rust harness depending on /repo by path with the verif_hooks feature: runs the real code on generated requests, output diffed against the Lean driver"),
    ],
    checks=checks,
    notes="All checks go through ./check (python3). VERIF_SEED seeds every generator. known_findings.json lists recorded findings. See DESIGN.md.",
    not_applicable=[
        dict(property_id=pid, reason="not claimed yet in this build round (model/lab under construction; see DESIGN.md section 9) - not a statement that the technique cannot apply")
        for pid in ids
        if pid not in PROPS
    ],
)
json.dump(manifest, open(os.path.join(ROOT, "MANIFEST.json"), "w"), indent=1)
print("claimed:", [c["property_id"] for c in checks])
