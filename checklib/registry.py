"""Per-property configuration of the checks (which theorems, which labs, how many cases)."""

PROPS = {}


def prop(pid, lean_props, labs, **kw):
    PROPS[pid] = dict(lean_props=lean_props, labs=labs, **kw)


def lab(name, quick, thorough, **kw):
    return dict(name=name, quick=quick, thorough=thorough, **kw)


prop(
    "C11",
    ["DivanModel.Props.C11"],
    [lab("tsc", 6000, 400000)],
    level_text="Unbounded theorems (all 64-bit readings, all frequencies, all Durations, all sample streams) about the Lean model of duration_since / From<Duration> / measure_precision: exact floor formula, no 128-bit overflow, monotone, shift-invariant, additive within 1 ps, Duration conversion never takes the panic branch, precision = least non-zero sample observed (= the step on uniform and quantised clocks). The model is tied to the code by a differential lab (boundary cross product + random + scripted virtual-clock precision runs).",
    level_note="Trusted: Lean kernel; correspondence lab and virtual counter hook (H4); real hardware counters and the fences are not modelled. The theorem is about the model; impl = model only on the sampled requests.",
    trusted=["f64-free: C11 is integer arithmetic only; the virtual counter (hook H4) replaces rdtsc in the precision cases"],
    assumptions=["real hardware counters are not modelled: the precision clause is checked on scripted/uniform virtual clocks"],
)
