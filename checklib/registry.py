"""Per-property configuration of the checks (which theorems, which labs, how many cases)."""

PROPS = {}


def prop(pid, lean_props, labs, **kw):
    PROPS[pid] = dict(lean_props=lean_props, labs=labs, **kw)


def lab(name, quick, thorough, **kw):
    return dict(name=name, quick=quick, thorough=thorough, **kw)


prop(
    "C11",
    ["DivanModel.Props.C11"],
    [lab("tsc", 6000, 400000)],
    level_text="Unbounded theorems (all 64-bit readings, all frequencies, all Durations, all sample streams) about the Lean model of duration_since / From<Duration> / measure_precision: exact floor formula, no 128-bit overflow, monotone, shift-invariant, additive within 1 ps, Duration conversion never takes the panic branch, precision = least non-zero sample observed (= the step on uniform and quantised clocks). The model is tied to the code by a differential lab (boundary cross product + random + scripted virtual-clock precision runs).",
    level_note="Trusted: Lean kernel; correspondence lab and virtual counter hook (H4); real hardware counters and the fences are not modelled. The theorem is about the model; impl = model only on the sampled requests.",
    trusted=["f64-free: C11 is integer arithmetic only; the virtual counter (hook H4) replaces rdtsc in the precision cases"],
    assumptions=["real hardware counters are not modelled: the precision clause is checked on scripted/uniform virtual clocks"],
)

prop(
    "C10",
    ["DivanModel.Props.C10"],
    [lab("alloc", 3000, 60000)],
    level_text="Unbounded theorems about the Lean model of tally_alloc/tally_dealloc/tally_realloc: for every operation sequence from a cleared tally the per-kind counts and byte sums are exact (|new-old| for reallocs, equal sizes = grow of 0), max_count/max_size equal the maximum over all prefixes (empty one included) of live allocations / live bytes, and operations on other threads leave a thread's tally untouched. Tied to the code by the `alloc` lab: direct tally arithmetic, 1-8 threads allocating concurrently through AllocProfiler<Mock>, and request scripts through the GlobalAlloc methods.",
    level_note="Trusted: Lean kernel; the lab and its mock allocator; sizes stay in the documented no-overflow range (running sums < 2^62), outside it the tally segment is not compared. thread_local! slot semantics are Rust's.",
    assumptions=["no 64-bit overflow of the running figures (the code documents that it does not check)"],
)

prop(
    "C09",
    ["DivanModel.Props.C09"],
    [lab("alloc", 3000, 60000)],
    level_text="Model-level theorems (forwarded request = incoming request, returned value = wrapped allocator's answer, independent of tally state and slot availability, for every request and answer) plus a differential lab that issues request scripts to AllocProfiler<Mock> through the four GlobalAlloc methods on the main thread, on fresh threads and inside TLS destructors of exiting threads; the mock logs what reaches it, answers with scripted values incl. null, and counts extra calls and re-entrancy.",
    level_note="Trusted: Lean kernel; the mock allocator and lab. 'Never allocates' is observed (no extra inner call, re-entrancy depth <= 1), not proved; the macOS pthread-key path is not compiled on this platform.",
    assumptions=["Linux thread_local! path only (macOS path not compiled here)"],
)
