"""Per-property configuration of the checks (which theorems, which labs, how many cases)."""

PROPS = {}


def prop(pid, lean_props, labs, **kw):
    PROPS[pid] = dict(lean_props=lean_props, labs=labs, **kw)


def lab(name, quick, thorough, **kw):
    return dict(name=name, quick=quick, thorough=thorough, **kw)


prop(
    "C11",
    ["DivanModel.Props.C11"],
    [lab("tsc", 6000, 400000)],
    level_text="Unbounded theorems (all 64-bit readings, all frequencies, all Durations, all sample streams) about the Lean model of duration_since / From<Duration> / measure_precision: exact floor formula, no 128-bit overflow, monotone, shift-invariant, additive within 1 ps, Duration conversion never takes the panic branch, precision = least non-zero sample observed (= the step on uniform and quantised clocks). The model is tied to the code by a differential lab (boundary cross product + random + scripted virtual-clock precision runs).",
    level_note="Trusted: Lean kernel; correspondence lab and virtual counter hook (H4); real hardware counters and the fences are not modelled. The theorem is about the model; impl = model only on the sampled requests.",
    trusted=["f64-free: C11 is integer arithmetic only; the virtual counter (hook H4) replaces rdtsc in the precision cases"],
    assumptions=["real hardware counters are not modelled: the precision clause is checked on scripted/uniform virtual clocks"],
)

prop(
    "C10",
    ["DivanModel.Props.C10", "DivanModel.Props.Alignment"],
    [lab("alloc", 3000, 60000), lab("bench-p250", 600, 12000), lab("sbench-p250", 300, 6000, timeout=900)],
    level_text="Unbounded theorems about the Lean model of tally_alloc/tally_dealloc/tally_realloc: for every operation sequence from a cleared tally the per-kind counts and byte sums are exact (|new-old| for reallocs, equal sizes = grow of 0), max_count/max_size equal the maximum over all prefixes (empty one included) of live allocations / live bytes, and operations on other threads leave a thread's tally untouched. Tied to the code by the `alloc` lab: direct tally arithmetic, 1-8 threads allocating concurrently through AllocProfiler<Mock>, and request scripts through the GlobalAlloc methods. Round 4: how the runner files each sample's tally (anchor src/benchmark/mod.rs) is covered by `Props/Alignment` (the index -> allocation-information map stays aligned with the recorded samples over every history of clears and rounds) and by the bench labs with 1-4 threads, whose attribution spec recomputes the mean allocation count from the recorded samples' own calls.",
    level_note="Trusted: Lean kernel; the lab and its mock allocator; sizes stay in the documented no-overflow range (running sums < 2^62), outside it the tally segment is not compared. thread_local! slot semantics are Rust's.",
    assumptions=["no 64-bit overflow of the running figures (the code documents that it does not check)"],
)

prop(
    "C09",
    ["DivanModel.Props.C09"],
    [lab("alloc", 3000, 60000)],
    level_text="Model-level theorems (forwarded request = incoming request, returned value = wrapped allocator's answer, independent of tally state and slot availability, for every request and answer) plus a differential lab that issues request scripts to AllocProfiler<Mock> through the four GlobalAlloc methods on the main thread, on fresh threads and inside TLS destructors of exiting threads; the mock logs what reaches it, answers with scripted values incl. null, and counts extra calls and re-entrancy.",
    level_note="Trusted: Lean kernel; the mock allocator and lab. 'Never allocates' is observed (no extra inner call, re-entrancy depth <= 1), not proved; the macOS pthread-key path is not compiled on this platform.",
    assumptions=["Linux thread_local! path only (macOS path not compiled here)"],
)

prop(
    "C18",
    ["DivanModel.Props.C18"],
    [lab("fmt", 20000, 2000000), lab("paint", 800, 20000)],
    level_text="Theorems for every picosecond value (unbounded Nat, so all of u128): the unit is the largest not exceeding the value (ns below 1 ns), and the printed number equals floor(value*10^k/unit)/10^k with k = max(0, 4-d), trailing zeros removed (fmt_eq_spec: the code's integer pre-scaling by 10^4 followed by format_f64's string surgery equals the truthful truncation). format_f64 is modelled as a function on the decimal text Rust produced and proved to be pure truncation (formatDecimal_is_truncation) with no trailing zero left. Sizes/throughputs: scale selection and truncation are modelled; the two f64 operations are checked per case against exact rationals (relative 2^-48). Round 3: the paint lab (both byte formats, real TreePainter) also serves this property: every cell computed with the configured format must be what is printed under the benchmark.",
    level_note="Trusted: Lean kernel; Rust's f64 Display (shortest round-trip decimal) supplies the decimal text the model works on; bridging assumption '(N as f64 / 1e4).to_string() is the exact decimal of N/10^4 for N < 10^8' is validated by the lab (every fd case exercises it), not proved; IEEE arithmetic of sizes/throughputs is validated per case, not proved.",
    assumptions=["f64 Display/FromStr and IEEE division are Rust's; Lean's Float is opaque to proof"],
)

prop(
    "C16",
    ["DivanModel.Props.C16", "DivanModel.Props.C16Tree", "DivanModel.Props.C16Order"],
    [lab("sort", 4000, 150000), lab("reg", 1000, 30000)],
    level_text="Theorems on all byte strings: natural_cmp is a total preorder (reflexive, antisymmetric via swap, transitive) and digit runs compare by numeric value; argument names denoting integers are ordered by value; a strict comparator admits exactly one sorted permutation (so Rust's sort algorithm cannot matter) and --sortr is its exact reverse; sorting permutes. Tree level (Props/C16Order): the sibling comparator cmp_by_attr is antisymmetric on all nodes and, on every well-formed sibling set (decidable predicate Prog.sibOk: name-homogeneous, equal locations only among nodes that all have or all lack an entry address, one address = one key tuple), a lawful total preorder for each of the three attributes (comparator_lawful: antisymmetric, transitive, Equal is a congruence - assembled from natural_cmp, the constants' own order, the derived Ord of EntryLocation and the address tie-break by lexicographic-combination lemmas); hence the model's sort_by_attr returns every sibling level in ascending (descending under --sortr) comparator order (siblings_ascending / _descending), a permutation of its input, and --sortr is exactly the reverse of --sort when no two siblings compare Equal (sortr_exact_reverse). The registry and macro lab drivers evaluate sibOk on every level of every tree they build (branch tag '-nosibok' otherwise: only seen under the F7 name clash). Tied to the code by the `sort` lab: pairs/triples through the real natural_cmp (laws re-evaluated on the implementation's own answers), comparator and sort_by over argument-name lists (ints, negatives, floats, text, mixed) x 3 attributes x 2 directions against the unique model order.",
    level_note="Trusted: Lean kernel; Rust's f64 FromStr (the lab passes the parsed bits; only float comparison is modelled); slice::sort_by returns a sorted permutation for a total preorder and may panic otherwise (observed: F8). Tree-level sibling order is covered by the tree lab.",
    assumptions=["f64 parsing is Rust's", "slice::sort_by contract"],
)

REG_TRUST = ["the registry lab registers entries through divan::__private exactly like the macro expansion does (leaked statics pushed into BENCH_ENTRIES / GROUP_ENTRIES) and drives the real Divan front end in a child process; the attribute macros' own expansion is exercised by the generated-crate lab only"]

prop(
    "C14",
    ["DivanModel.Props.C14"],
    [lab("reg", 1500, 40000)],
    level_text="Theorems about the Lean model of the front end (Model/Prog.lean: tree construction, retain, the terse walk and the run walk with per-level option resolution): the terse listing equals, line for line, the cases the test walk executes for every tree, filter set and ignore flag; listing actions execute nothing. Tied to the code by the registry lab (random abstract programs x filters x ignore flags x actions incl. Divan::list_benches, run through the real front end in a child process; exact stdout and invocation log compared with the model; the spec 'terse lines = cases a run executes, listing calls nothing' evaluated on the implementation's own output).",
    level_note="Trusted: Lean kernel; registry lab (child-process registration through divan::__private), small regex grammar of the generator re-implemented in Lean (literal, '.', anchors, alternation); clap parsing is exercised, not modelled.",
    trusted=REG_TRUST,
)

prop(
    "C13",
    ["DivanModel.Props.C13", "DivanModel.Props.SpecLinks"],
    [lab("reg", 1500, 40000)],
    level_text="Theorems on the front-end model: for every sequence of include/exclude calls (any order/interleaving, through SplitVec::insert's element-moving) a path is selected iff no skip filter matches and (no positive filter exists or one matches); exact filters are whole-string equality; retain keeps exactly the selected cases (per argument), in order, and leaves no parent without a case below it (retainList_cases, retainList_noEmpty, selected_cases_iff). Tied to the code by the registry lab: random programs x 0-4 positive and 0-4 skip filters (exact or regex, built from real paths, inner-node-only, matching nothing) via CLI and builder; executed set and printed tree compared with the model, and the rule re-evaluated on the implementation's invocation log from the abstract program. Round 3: filters with commas, parentheses and generic type names (tuple-rendered arguments, instantiation paths); Props/SpecLinks proves the lab's selection rule equal to the model's FilterSet::is_match.",
    level_note="Trusted: Lean kernel; registry lab; regex-lite is not modelled - the generator emits a small grammar (literals, '.', ^, $, alternation) that the Lean driver re-implements; clap parsing exercised only.",
    trusted=REG_TRUST,
)

prop(
    "C15",
    ["DivanModel.Props.C15", "DivanModel.Props.SpecLinks"],
    [lab("reg", 1500, 40000), lab("ovw", 3000, 100000)],
    level_text="Theorems: BenchOptions::overwrite is field-by-field for all eleven fields; for every chain of levels and every field independently the effective value is run time, else the innermost level that sets this very field (resolve_first_some), other fields cannot mask it (field_independence); thread counts are strictly increasing and positive after normalisation (0 -> parallelism, sort, dedup); ignore semantics for the three flag settings; a Bencher counter replaces only its own kind. Tied to the code by the `ovw` lab (overwrite on random option pairs) and the registry lab (options at runner/bench/up to 3 group levels, via CLI, DIVAN_* environment and builder; call counts, thread branches, counter rows and (ignored) marks compared with the model and with per-field resolution recomputed from the abstract program).",
    level_note="Trusted: Lean kernel; labs. min_time / skip_ext_time resolution is observable only through the ovw lab (overwrite), not end to end; clap's env fallback exercised, not modelled.",
    trusted=REG_TRUST,
)

prop(
    "C12",
    ["DivanModel.Props.C12", "DivanModel.Props.C12Uniq", "DivanModel.Props.C12Groups", "DivanModel.Props.C12Push"],
    [lab("reg", 1500, 40000), lab("mac", 480, 9600, timeout=1200), lab("elist", 8, 60)],
    level_text="Theorems on the tree-building model (EntryList order, from_benches/insert_entry, insert_group): every registered plain benchmark and generic instance becomes exactly one leaf below parents named by its path components (buildTree_leaves, a multiset equality), bench_group entries add no leaf, and the placed-leaf multiset is invariant under any permutation of the registration order (order_independent); at every level of the built tree no two parent nodes carry the same raw name, whatever was registered in whatever order (Props/C12Uniq.buildTree_uniq, uniq_same_node): a module is one node; the nodes of the tree are exactly the non-empty prefixes of the registered entries' paths (Props/C12Groups.hasNode_fromBenches), insert_group sets the slot of exactly the node 'module path + raw name' and changes no node (slotAt_insertGroup, hasNode_insertGroup), and therefore a bench_group module with a benchmark at or below it always ends up with its group entry in that node (group_reaches_benchmarks_below; the last registered entry wins when several claim one node - finding F7), from where the walk takes the display name and hands the options down (C15). Tied to the code by the registry lab: entries are pushed into BENCH_ENTRIES/GROUP_ENTRIES in random constructor order exactly as the macro expansion does, the real front end runs, and the executed/listed cases are compared with the model and with the expected case list computed from the abstract program (one per types x consts combination, one per argument, nothing for empty lists). The macro lab renders random programs as Rust source with the real #[divan::bench] / #[divan::bench_group] attributes (raw identifiers, custom names, every option in each of its written forms, types/consts in both parameter orders, literal and external const lists, args as array/vec/reference/iterator of &str, String, i32, f64, bool and a Debug-only type, functions with and without a Bencher), compiles them, and has the child dump what the macros registered - module path, raw and display name, file/line, the BenchOptions, the shape of generic_benches, constructor order - before the real front end runs; registration is compared with the items as written ([C12] spec) and feeds the same front-end model. Round 4: `Props/C12Push` models `EntryList::push` as three atomic steps per attempt (load head, store into the entry's next, compare_exchange_weak with spurious failures, retry with the returned value) and proves for every interleaving of any number of threads pushing any number of distinct entries that the list walked from the head is exactly the completed pushes, each once, that no entry disappears, and that once all threads are through it is exactly the entries that were to be registered; the `elist` lab pushes from 2-8 real threads at once and the driver runs the model on the linearisation the resulting list stands for, which must reproduce the list.",
    level_note="Trusted: Lean kernel; registry lab; macro lab (the renderer from items to source is the statement of what 'as written' means; rustc, cargo and the linker's .init_array handling are used, not modelled). The push model's atomic-step granularity and sequentially consistent memory are assumptions: the code's Relaxed / Release / AcqRel orderings on one location plus the release of the entry's content are read, not modelled. Name clash F7 is a recorded finding (not generated by the macro lab).",
    trusted=REG_TRUST,
)

prop(
    "C17",
    ["DivanModel.Props.C17", "DivanModel.Props.C17Once"],
    [lab("reg", 1500, 40000), lab("mac", 480, 9600, timeout=1200)],
    level_text="Theorems: slice_ptr_index(base + i*size) = i; with parallel names/args slices the case under a label gets the argument rendering to it for any surviving subset/permutation of name pointers; in the run-walk model the invocations of a benchmark with args are exactly names[i] for the surviving indices in printed order, once per thread count (label_is_value), and retain/sort only filter/permute the index list; a write-once cell shared by all instantiations of a function evaluates even an impure args expression exactly once and hands every instantiation the same list (Props/C17Once.evaluated_once_and_shared). Tied to the code by the registry lab: each benchmark body logs the value it received; the label printed on the output line of every executed case must equal it, under 3 sorts x 2 directions x filters keeping strict subsets. The macro lab does the same with the real macros: bodies log the instantiation (TypeId / const value looked up in the written lists) and the value received (ToString, or Debug for a type without ToString), the args expression counts its evaluations (once per benchmark, shared by all generic instantiations), and a [C17] spec requires the rows of a generic benchmark with args to be run by the instantiation and argument they name.",
    level_note="Trusted: Lean kernel; registry lab; macro lab. The TypeId check and the unchecked cast are exercised, not modelled.",
    trusted=REG_TRUST,
)

BENCH_LABS = [lab("bench-p250", 1500, 40000), lab("bench-p1", 700, 20000), lab("bench-p999", 700, 20000)]
BENCH_TRUST = ["bench lab: real Bencher entry points over instrumented types under the virtual timestamp counter (hook H4; 1 tick = 1 ps, per-thread scripted clocks), global AllocProfiler; per-thread event traces and Stats compared with the model; cross-thread order is not predicted, only checked (C08 flags)"]

prop("C01", ["DivanModel.Props.C01"], BENCH_LABS,
     level_text="Theorems for every sample size, counter list, all 16 type shapes and both ownership modes: the calls of a sample are exactly call 0..s-1 in generation order; generation/counting precede the start timestamp; outputs and lent inputs are dropped exactly once after the end timestamp, output i directly before input i, identically on all three code paths; the slot protocol (write/read/borrow/drop-in-place) is UB-free for all 32 combinations and every prefix of it is (a panic can leak, never double-drop). The bench lab's driver replays exactly this trace model against the real event log (ids carried by instrumented values, thread index per event) for all six entry points, T up to 4, bench/test, explicit and tuned sizes, and scripted panics.",
     level_note="Trusted: Lean kernel; bench lab. Undefined behaviour that leaves no trace in events (the MaybeUninit plumbing implementing the protocol) is checked by traces, not proved; Miri is a possible complement.",
     trusted=BENCH_TRUST)

prop("C02", ["DivanModel.Props.C02"], BENCH_LABS + [lab("sbench-p250", 500, 15000, timeout=900), lab("mac", 240, 4800, timeout=1200)],
     level_text="Theorems: with the calls removed the two timestamps of a sample are adjacent (only benchmarked calls are timed), generation/counting precede, snapshot and drops follow, for every size/shape/entry; the allocating events between tally clear and snapshot are exactly the calls (allocation window = timed window). The bench lab runs scripted allocations in generator, benchmarked function and destructors through the global AllocProfiler and compares the per-sample allocation figures in Stats (exact IEEE doubles) and the interleaving of clock reads with events. Round 2-3: call-index dependent ('lazy') allocation scripts and a spec that recomputes, from the trace, the allocator operations of the very calls inside each recorded sample; the sbench lab (barrier waits visible) requires both start waits before the start timestamp and the end wait after the end timestamp.",
     level_note="Trusted: Lean kernel; bench lab. The fences of time/fence.rs and out-of-order execution cannot be expressed by an executable model: program order only.",
     trusted=BENCH_TRUST)

prop("C03", ["DivanModel.Props.C03"], BENCH_LABS + [lab("reg", 800, 20000)],
     level_text="Theorems on the round-loop model for every (n, s, T) and every clock history below max_time: s*T*ceil(n/T) calls, T*ceil(n/T) samples, ceil(n/T) rounds (n defaults to 100); test mode: one call per thread, nothing stored; n=0, s=0 or max_time=0: no call. The bench lab counts calls per thread and compares samples/iters; the registry lab checks the same through attribute/group/builder/CLI/environment settings.",
     level_note="Trusted: Lean kernel; labs.", trusted=BENCH_TRUST)

prop("C04", ["DivanModel.Props.C04"], BENCH_LABS + [lab("reg", 600, 15000)],
     level_text="Theorems for every history of clock readings (non-monotone, zero, huge): the loop condition is literally 'elapsed < max_time and (samples missing or elapsed < min_time)'; max_time has priority also when min_time > max_time; the executed round count is exactly the least one at which the condition fails; elapsed after a round is the latest end timestamp since the initial start, or with skip_ext_time the sum of the slowest timed sections counted >= 1 ns each; max_time = 0 runs nothing. The bench lab scripts generation/call/drop/read costs, compares rounds, per-thread timestamps and the position of the initial_start read, including the first benchmark of a process (cold calibration). Round 2-3: the zero cases (max_time = 0) carry a [C04] verdict of their own.",
     level_note="Trusted: Lean kernel; bench lab; real clocks are not modelled.", trusted=BENCH_TRUST)

prop("C05", ["DivanModel.Props.C05", "DivanModel.Props.Alignment"], BENCH_LABS,
     level_text="Theorems for every sorted sample list and sample size: fastest/slowest = min/max sample / s, median = middle (mean of the two middle) / s, mean = total / (s*len), hence fastest <= median, mean <= slowest; figures are picked through the index of the sample that supplied the time; per-input counter = sum/s; zero samples give all-zero time statistics; `Props/Alignment`: over every history of tuning-round clears and recorded rounds the three stores of recorded samples (durations, index -> allocation information, one count list per input-counting kind) stay aligned, so the figures found through a sample's index are that sample's own, nothing of a cleared round survives and the totals behind the means are those of the recorded samples (the bench driver executes exactly this model). The bench lab compares the complete Stats (integer picoseconds; allocation figures as exact IEEE doubles recomputed in software) and requires that computing statistics never panics. Round 2-3: the four time figures are recomputed from the recorded samples' own timestamps in the trace (spec, not only model comparison); ties in duration are handled by accepting any member of the tied class.",
     level_note="Trusted: Lean kernel; bench lab; SoftFloat (round-to-nearest-even on non-negative normal doubles) is driver code, validated against the implementation on every case. Ties in duration between differently-tallied samples: sort_unstable's order among them is implementation-defined, so the model accepts the figures of any sample of the tied class (choosePicks) and nothing outside it.",
     trusted=BENCH_TRUST)

prop("C19", ["DivanModel.Props.C19", "DivanModel.Props.Alignment"], BENCH_LABS,
     level_text="Theorems: a run without sample_size starts at 1; after j rounds at or below 100 whole multiples of the precision and one above, sizes were 1,2,...,2^j, the mode is collect(2^j), exactly the T samples of that round are held and the remaining counter is n-T; every tuning round keeps only its own samples (`Props/Alignment`: in all three stores - durations, allocation information, every kind's per-input counts); max_time stops tuning. The bench lab runs tuned benchmarks under three precisions (1, 250, 999 ps) with constant/growing costs and max_time cutting tuning short. Round 2-3: specs on the implementation's own trace: all reported samples have the final size and iterations = samples x size; a run that ends while the replayed model is still tuning (no round beyond 100 x precision, max_time not reached) is reported; allocation data of discarded rounds must not surface.",
     level_note="Trusted: Lean kernel; bench lab; Timer::precision() is calibrated once per lab process on a uniform-step virtual clock (C11).", trusted=BENCH_TRUST)

prop("C08", ["DivanModel.Props.C08"], BENCH_LABS + [lab("sbench-p250", 700, 15000, timeout=900)],
     level_text="Theorems on a transition system with any number of threads, every interleaving and panics in any work phase: in every reachable state, while a thread is in its timed section all threads have finished generating and clearing and none has started dropping; with the repair (an unwinding thread keeps its barrier appointments) every non-final reachable state has a successor (no hang); a step of one thread changes no other thread. The bench lab runs T in 2..4 threads with scripted panics at (thread, call) points, a watchdog for hangs, per-thread allocation figures and the overlap conditions evaluated on the global event order; the sbench lab is the same lab built against the instrumented std (feature verif_shim) so that every Barrier::wait is an event in the per-thread traces: a complete sample must wait twice around the tally clear before its start timestamp and once after its end timestamp, and the model predicts the waits of unwinding threads (KeepAppointments). Round 2-3: a scripted panic of the function or the generator that was reached must end the run with a panic on the calling thread, in whichever round (spec); generator panics and per-thread clock skew are scripted.",
     level_note="Trusted: Lean kernel; bench lab; std::sync::Barrier semantics (release wait k only when all arrived) are the model's assumption; interleavings are those the OS scheduler produced (the theorem covers all, the lab samples).",
     trusted=BENCH_TRUST)

prop("C20", ["DivanModel.Props.C20", "DivanModel.Props.C20Codec"], [lab("paint", 800, 20000), lab("reg", 1000, 30000)],
     level_text="Exact model of tree_painter.rs (prefix, depth, growing column widths, separators and trailing-space rule, all row kinds) compared byte for byte with the real TreePainter on random operation sequences with every combination of counter / max-alloc / tally rows, non-ASCII and over-long names (paint lab), and with the real front end's output for random programs under list/test (exact text) and bench (cells replaced by class tokens) in the registry lab. Theorems: the prefix invariant (three columns per open non-top-level parent, restored by finish_parent, a bar exactly when the opened parent has later siblings, leaves never touch it); painting a tree by the run_tree walk emits exactly one line per node in depth-first order with the glyphs of its true position (each_node_once); the depth-annotated preorder of any forest parses back to it (parse_render). Round 2-3 specs on the printed text: glyphs and bars match the true position (treeGlyphsOk); every module / group / benchmark node above a shown case is printed exactly once; the rows are in the documented sorted depth-first order (applied when the uniqueness hypotheses of Props/C16Order hold on that tree); every computed allocation section and cell is printed. Round 5: the text decoder those specs run (Driver/Reg.parseTLine = LineCodec.parseRow) is proved to invert the rendering of every painted line (line_reads_back), and the decoded rows of a painted tree to rebuild exactly that tree (printed_tree_reads_back).",
     level_note="Trusted: Lean kernel; labs. The serialised cells are produced by the lab from the real formatting functions (C18) and handed to the model; Round 5: the character-level decoding of a row is a theorem about the driver's own decoder (Props/C20Codec: LineCodec.parseRow inverts the painter's prefix + branch glyph + name for every prefix and every 'clean' name - no double blank, ' │' or ' T │' inside, no trailing blank; top-level names must not start with a glyph or blank -, and the rows of any painted tree parse back to that tree); the splitting of the cells after the name on ' │ ' is still only exercised. F9: under --list a benchmark with args is printed without its argument cases (recorded finding).",
     trusted=REG_TRUST)

POOL_TRUST = ["pool lab: the real util/thread/pool.rs compiled against an instrumented std drop-in (hook H5, feature verif_shim): every atomic / channel / park / unpark / spawn operation is performed and logged under one global lock (a linearisation), with seeded delays around each and injected spurious park returns; what is exercised is divan's use of the primitives, not std's implementation of them"]

prop("C06", ["DivanModel.Props.C06"], [lab("pool", 400, 20000, timeout=900)],
     level_text="Theorems on a transition system parametric in all counts (any history of broadcasts, any number of workers, every interleaving): the 12-clause protocol invariant and the ghost invariant hold in every reachable state; when the caller reads the count as zero every worker handed the task has finished and decremented, nobody is inside the task block, every index ran exactly once, and - if the decrement is Release and the load Acquire - the end of every call happens-before the return; block reads are guarded by validity; threads are spawned only up to max(m, n) and reused. stepFn (the executable acceptor) is proved sound w.r.t. the relation, so every event log of the real pool that the driver accepts is a run of the verified protocol; atomics' observed values and Orderings are compared on the way. The lab also checks results by index, once-per-index, thread identity and visibility of plain writes on the run itself. Round 2-3: broadcasts from two calling threads; an event-level spec that a worker unparks the caller after its decrement only through a handle cloned before it; every request runs in a process of its own, so a crash or an escaping panic of the real pool is an observation with a verdict.",
     level_note="Trusted: Lean kernel; pool lab and shim; C11 release/acquire as modelled by publication sets; weak-memory behaviours outside that fragment and the real park/unpark implementation are not exercised; interleavings are those the perturbed scheduler produced (the theorems cover all).",
     trusted=POOL_TRUST)

prop("C07", ["DivanModel.Props.C07"], [lab("pool", 400, 20000, timeout=900)],
     level_text="Theorems for every history of broadcasts with arbitrary thread counts and every interleaving: every reachable non-final state has an enabled transition (no deadlock, incl. caller blocked sending to a worker still finishing stale work, worker finishing before the caller parks, stale token pending); a parked caller with count zero always has a token or an unpark in flight (no lost wake-up); every step decreases a lexicographic measure, so the step relation on invariant states is well founded (every run terminates, in the final state: all broadcasts done, pool dropped, every worker exited); spurious wake-ups raise the measure by exactly one (single-broadcast model). The pool lab replays real event logs through the sound acceptor, requires the final state, uses a watchdog for hangs and counts exited workers after drop.",
     level_note="Trusted: as C06. Spurious park returns are accepted by a driver-level extension of the acceptor (the theorem-bearing relation of PoolFull has none; Pool.lean budgets them for one broadcast). process::abort on a double panic is not exercised.",
     trusted=POOL_TRUST)
