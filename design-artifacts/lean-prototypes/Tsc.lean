/-! Prototype: `TscTimestamp::duration_since`, `FineDuration::from(Duration)` and `measure_precision` (C11). -/
namespace Tsc

def PICOS : Nat := 1000000000000

/-- `checked_sub` then the widening multiply/divide in 128 bits -/
def durationSince (b a f : Nat) : Nat := if a ≤ b then (b - a) * PICOS / f else 0

theorem no_overflow (a b : Nat) (hb : b < 2^64) : (b - a) * PICOS < 2^128 := by
  have h1 : b - a < 2^64 := by omega
  have : (b - a) * PICOS < 2^64 * PICOS := Nat.mul_lt_mul_of_pos_right h1 (by decide)
  have h2 : (2:Nat)^64 * PICOS < 2^128 := by decide
  omega

theorem eq_floor (a b f : Nat) (h : a ≤ b) : durationSince b a f = (b - a) * PICOS / f := by
  simp [durationSince, h]

theorem earlier_is_zero (a b f : Nat) (h : b < a) : durationSince b a f = 0 := by
  simp [durationSince]; omega

theorem mono (a b b' f : Nat) (h : b ≤ b') : durationSince b a f ≤ durationSince b' a f := by
  unfold durationSince
  by_cases h1 : a ≤ b
  · have h2 : a ≤ b' := by omega
    simp only [h1, h2, if_true]
    exact Nat.div_le_div_right (Nat.mul_le_mul_right _ (by omega))
  · simp [h1]

theorem shift (a b k f : Nat) : durationSince (b + k) (a + k) f = durationSince b a f := by
  unfold durationSince
  by_cases h : a ≤ b
  · have h' : a + k ≤ b + k := by omega
    have e : b + k - (a + k) = b - a := by omega
    simp [h, h', e]
  · have h' : ¬ (a + k ≤ b + k) := by omega
    simp [h, h']

theorem div_add_bounds (x y f : Nat) (hf : 0 < f) :
    x / f + y / f ≤ (x + y) / f ∧ (x + y) / f ≤ x / f + y / f + 1 := by
  rw [Nat.add_div hf]
  split <;> omega

/-- elapsed time is additive up to one picosecond of rounding per term -/
theorem additive (a b c f : Nat) (hf : 0 < f) (h1 : a ≤ b) (h2 : b ≤ c) :
    durationSince b a f + durationSince c b f ≤ durationSince c a f ∧
    durationSince c a f ≤ durationSince b a f + durationSince c b f + 1 := by
  have h3 : a ≤ c := by omega
  simp only [durationSince, h1, h2, h3, if_true]
  have e : (c - a) * PICOS = (b - a) * PICOS + (c - b) * PICOS := by
    rw [← Nat.add_mul]; congr 1; omega
  rw [e]
  exact div_add_bounds _ _ f hf

/-- `From<Duration>`: every `Duration` (u64 seconds, nanos < 10^9) fits, so `checked_mul` never fails -/
theorem ofDuration_fits (secs nanos : Nat) (hs : secs < 2^64) (hn : nanos < 1000000000) :
    (secs * 1000000000 + nanos) * 1000 < 2^128 := by
  have e64 : (2:Nat)^64 = 18446744073709551616 := rfl
  have e128 : (2:Nat)^128 = 340282366920938463463374607431768211456 := rfl
  rw [e64] at hs; rw [e128]
  omega

/-! `measure_precision` as a function of the stream of observed sample durations -/
structure PS where
  minS : Option Nat := none      -- `FineDuration::MAX` initially
  seen : Nat := 0
  delay : Nat := 0
  inBatch : Nat := 0             -- position in the current batch of 100

/-- one observed sample; `some p` = the function returns `p` -/
def pstep (st : PS) (sample : Nat) : PS × Option Nat :=
  let adv (s : PS) : PS :=
    if s.inBatch + 1 = 100 then { s with inBatch := 0, delay := s.delay + 1 } else { s with inBatch := s.inBatch + 1 }
  if sample = 0 then (adv st, none) else
  match st.minS with
  | none => (adv { st with minS := some sample, seen := 0 }, none)
  | some m =>
    if sample > m then (if st.delay > 100 then (st, some m) else (adv st, none))
    else if sample = m then
      (if st.seen + 1 ≥ 100 then (st, some m) else (adv { st with seen := st.seen + 1 }, none))
    else (adv { st with minS := some sample, seen := 0 }, none)

def precision : PS → List Nat → Option Nat
  | _, [] => none
  | st, x :: xs => match pstep st x with
    | (_, some p) => some p
    | (st', none) => precision st' xs

/-- a clock advancing in uniform steps: every sample equals `p > 0`; the answer is `p`, after 101 samples -/
theorem precision_uniform (p : Nat) (hp : 0 < p) : precision {} (List.replicate 101 p) = some p := by
  have hp0 : p ≠ 0 := by omega
  -- after the first sample: minS = some p, seen = 0; then `seen` counts up to 100
  have key : ∀ (k : Nat) (st : PS), st.minS = some p → st.seen + k = 100 → 0 < k →
      precision st (List.replicate k p) = some p := by
    intro k
    induction k with
    | zero => intro st _ _ h; omega
    | succ k ih =>
      intro st hm hs _
      simp only [List.replicate_succ, precision, pstep, hp0, if_false, hm, Nat.lt_irrefl, if_true]
      by_cases hlast : st.seen + 1 ≥ 100
      · simp [hlast]
      · simp only [hlast, if_false]
        apply ih
        · split <;> simp [hm]
        · split <;> simp <;> omega
        · omega
  have e : List.replicate 101 p = p :: List.replicate 100 p := rfl
  rw [e]
  simp only [precision, pstep, hp0, if_false]
  apply key 100
  · split <;> simp
  · split <;> simp
  · omega

#print axioms additive
#print axioms precision_uniform
end Tsc
