#!/bin/bash
# verify.sh <prop> [features]  : suite with patch, demo with / without patch (demo = seed_demo/*.rs copied into tests/)
P=$1; FEAT=$2; cd /tmp/wt6/$P || exit 1; export CARGO_TARGET_DIR=/tmp/wt6/$P/target CARGO_NET_OFFLINE=true
rm -f tests/seed_*.rs
git checkout -- src macros 2>/dev/null
git apply seed.patch || { echo "== $P PATCH DOES NOT APPLY"; exit 1; }
echo "== $P suite with patch"
timeout 2400 cargo test --workspace --offline --no-fail-fast 2>&1 | grep -E "^test result|FAILED|error\[|error:" | tr '\n' ';'; echo
f=$(ls seed_demo/*.rs | head -1); n=$(basename $f .rs); cp $f tests/
echo "== $P demo WITH patch ($n)"; (env -u DIVAN_MIN_TIME -u DIVAN_MAX_TIME cargo test --offline $FEAT --test $n; echo exit=$?) 2>&1 | grep -E "^test result|PASS|FAIL|exit=" | head -6
git apply -R seed.patch
echo "== $P demo WITHOUT patch"; (env -u DIVAN_MIN_TIME -u DIVAN_MAX_TIME cargo test --offline $FEAT --test $n; echo exit=$?) 2>&1 | grep -E "^test result|PASS|FAIL|exit=" | head -6
rm -f tests/$n.rs
echo "== $P done"
