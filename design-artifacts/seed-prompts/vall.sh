#!/bin/bash
for P in "$@"; do
  f=$(ls /tmp/wt/$P/seed_demo/*.rs | head -1); n=$(basename $f .rs)
  /tmp/wt/verify.sh $P "cp $f tests/" "cargo test --offline --features verif_hooks --test $n" "rm -f tests/$n.rs; rm -rf /tmp/wt/$P/target"
done
