#!/bin/bash
# verify.sh <prop> <demo-setup-cmd> <demo-run-cmd> <demo-cleanup-cmd>
P=$1; cd /tmp/wt/$P; export CARGO_TARGET_DIR=/tmp/wt/$P/target
if git diff --quiet -- src macros; then git apply seed.patch; fi
echo "== $P suite with patch"
timeout 2400 cargo test --workspace --offline --no-fail-fast 2>&1 | grep -E "^test result|FAILED|error\[" | tr '\n' ';'; echo
eval "$2"
echo "== $P demo WITH patch"; (eval "$3") 2>&1 | grep -E "^test result|PASS|FAIL|exit" | head -6
git apply -R seed.patch
echo "== $P demo WITHOUT patch"; (eval "$3") 2>&1 | grep -E "^test result|PASS|FAIL|exit" | head -6
eval "$4"
echo "== $P done"
