#!/bin/bash
# verify.sh <prop>: suite with patch; demo with patch (must fail); demo without (must pass)
P=$1; cd /tmp/wt2/$P; export CARGO_TARGET_DIR=/tmp/wt2/$P/target
git checkout -q -- src macros 2>/dev/null; git apply seed.patch || { echo "== $P PATCH DOES NOT APPLY"; exit 1; }
echo "== $P suite with patch"
timeout 3000 cargo test --workspace --offline --no-fail-fast 2>&1 | grep -E "^test result|FAILED|error(\[|:)" | tr '\n' ';'; echo
demo() {
  if [ -f seed_demo/run_demo.sh ]; then (sh seed_demo/run_demo.sh 2>&1; echo "exit=$?") | grep -E "^test result|PASS|FAIL|exit=" | head -8
  else f=$(ls seed_demo/*.rs | head -1); n=$(basename $f .rs); cp $f tests/; (cargo test --offline --features verif_hooks --test $n 2>&1; echo "exit=$?") | grep -E "^test result|exit=" | head -6; rm -f tests/$n.rs; fi
}
echo "== $P demo WITH patch"; demo
git apply -R seed.patch
echo "== $P demo WITHOUT patch"; demo
git apply seed.patch
rm -rf /tmp/wt2/$P/target
echo "== $P done"
