use divan::__verif::{self as v, vclock};
use divan::__private::BenchOptions;
use std::sync::atomic::Ordering::SeqCst;
use std::time::Duration;

fn dump_log(max: usize) {
    let n = vclock::LOG_LEN.load(SeqCst).min(vclock::LOG_CAP);
    let mut out = Vec::new();
    for i in 0..n.min(max) {
        let e = vclock::LOG[i].load(SeqCst);
        let (k, t, p) = ((e >> 56) as u8, ((e >> 48) & 0xFF) as u8, e & 0xFFFF_FFFF_FFFF);
        let name = match k { 1 => "tsStart", 2 => "tsEnd", 10 => "gen", 11 => "call", 12 => "dropOut", 13 => "dropIn", _ => "?" };
        out.push(format!("{name}@{t}:{p}"));
    }
    println!("  log[{n}]: {}", out.join(" "));
}

struct Out(u64);
impl Drop for Out { fn drop(&mut self) { vclock::log(12, v::thread_index(), self.0); vclock::advance(7); } }
struct In(u64);
impl Drop for In { fn drop(&mut self) { vclock::log(13, v::thread_index(), self.0); vclock::advance(3); } }

fn main() {
    let prec = v::calibrate(250);
    println!("precision under uniform step 250 ticks = {prec} ps (reads so far {})", vclock::READS.load(SeqCst));

    // Scenario 1: explicit n=5, s=2, T=2, bench_refs with Drop in/out, call cost 100 ticks, gen cost 10.
    let opts = BenchOptions { sample_count: Some(5), sample_size: Some(2), ..Default::default() };
    let ids = std::sync::atomic::AtomicU64::new(0);
    vclock::LOG_LEN.store(0, SeqCst);
    let out = v::bench_lab(false, &opts, 2, &|b| {
        b.with_inputs(|| { let id = ids.fetch_add(1, SeqCst); vclock::log(10, v::thread_index(), id); vclock::advance(10); In(id) })
         .bench_refs(|i| { vclock::log(11, v::thread_index(), i.0); vclock::advance(100); Out(i.0) })
    });
    println!("S1: samples={} iters={} fastest={} slowest={} median={} mean={}", out.sample_count, out.iter_count, out.fastest, out.slowest, out.median, out.mean);
    dump_log(40);

    // Scenario 2: max_time = 1000 ps, s=1, n=100, T=1, call cost 300 ticks -> elapsed after k rounds = 300k (+drops 0)
    let opts = BenchOptions { sample_count: Some(100), sample_size: Some(1), max_time: Some(Duration::from_nanos(1)), ..Default::default() };
    vclock::LOG_LEN.store(0, SeqCst);
    let calls = std::sync::atomic::AtomicU64::new(0);
    let out = v::bench_lab(false, &opts, 1, &|b| b.bench(|| { calls.fetch_add(1, SeqCst); vclock::advance(300); }));
    println!("S2: calls={} samples={} (max_time 1000 ps, 300 ps per round => expect 4 rounds)", calls.load(SeqCst), out.sample_count);

    // Scenario 3: tuning. precision 250ps; per-call cost 1000 ticks -> size doubles until slowest/250 > 100, i.e. size*1000 > 25250 -> size 32
    let opts = BenchOptions { sample_count: Some(3), ..Default::default() };
    vclock::LOG_LEN.store(0, SeqCst);
    let calls = std::sync::atomic::AtomicU64::new(0);
    let out = v::bench_lab(false, &opts, 1, &|b| b.bench(|| { calls.fetch_add(1, SeqCst); vclock::advance(1000); }));
    println!("S3: calls={} samples={} iters={} (expect sizes 1,2,4,8,16,32 then 2 more rounds of 32: calls=63+64=127, samples=3, iters=96)", calls.load(SeqCst), out.sample_count, out.iter_count);
}
