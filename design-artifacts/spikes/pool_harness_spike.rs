use divan::__verif::{shim::{self, Ev}, Pool};

/// Maps the linearised event log of one history to model actions.
fn to_acts(log: &[shim::Logged]) -> (Vec<String>, Vec<String>) {
    let mut acts = Vec::new();
    let mut notes = Vec::new();
    let mut fresh = std::collections::HashSet::new(); // workers whose first RecvEnter has not been seen
    for l in log {
        let t = l.thread;
        match &l.ev {
            Ev::Spawn(idx) => { fresh.insert(*idx); }
            Ev::New(_) => acts.push(".begin".into()),
            Ev::Recv => acts.push(".send".into()),
            Ev::User(1, 0) => acts.push(".sendDone".into()),
            Ev::User(2, 0) => acts.push(".crun".into()),
            Ev::User(1, _) => {}
            Ev::User(2, k) => acts.push(format!(".worker {}", k - 1)),
            Ev::User(9, _) => acts.push(".dropPool".into()),
            Ev::HandleClone => acts.push(format!(".worker {}", t - 1)),
            Ev::FetchSub(_, o) => { if *o != 1 { notes.push(format!("fetch_sub ordering code {o}")); } acts.push(format!(".worker {}", t - 1)) }
            Ev::Unpark => acts.push(format!(".worker {}", t - 1)),
            Ev::RecvEnter => { if !fresh.remove(&t) { acts.push(format!(".worker {}", t - 1)) } }
            Ev::RecvDisconnected => acts.push(format!(".wexit {}", t - 1)),
            Ev::Load(_, o) => { if *o != 2 { notes.push(format!("load ordering code {o}")); } acts.push(".check".into()) }
            Ev::ParkReturn { spurious: false } => acts.push(".park".into()),
            Ev::ParkReturn { spurious: true } => acts.push(".spurious".into()),
            Ev::User(..) => {}
        }
    }
    (acts, notes)
}

fn main() {
    std::panic::set_hook(Box::new(|_| {}));
    let histories: Vec<Vec<usize>> = vec![vec![2], vec![0, 1, 3, 2, 0], vec![3, 3, 1], vec![1, 1, 1, 1], vec![4, 0, 4]];
    let mut case = 0;
    for seed in 1..=4u64 {
        for h in &histories {
            shim::set_seed(seed * 7919 + case);
            shim::LOG.lock().unwrap().clear();
            let tok0 = shim::thread::token_state();
            let pool = Pool::new();
            let mut ok = true;
            for &n in h {
                let mut v: Vec<Option<usize>> = Vec::new();
                pool.par_extend(&mut v, n, |i| {
                    shim::user_event(1, i as u32);
                    if i == 2 && n == 3 { shim::user_event(2, i as u32); panic!("boom") }
                    shim::user_event(2, i as u32);
                    i * 10
                });
                for (i, r) in v.iter().enumerate() {
                    let expect = if i == 2 && n == 3 { None } else { Some(i * 10) };
                    if *r != expect { ok = false; }
                }
                if v.len() != n + 1 { ok = false; }
            }
            shim::user_event(9, 0);
            drop(pool);
            // wait for workers to exit (they log RecvDisconnected)
            let maxn = h.iter().copied().max().unwrap_or(0);
            for _ in 0..2000 {
                let n = shim::LOG.lock().unwrap().iter().filter(|l| l.ev == Ev::RecvDisconnected).count();
                if n >= maxn { break; }
                std::thread::sleep(std::time::Duration::from_millis(1));
            }
            let log = shim::LOG.lock().unwrap();
            let (acts, notes) = to_acts(&log);
            println!("-- case {case} seed {seed} history {h:?} results_ok={ok} events={} notes={notes:?}", log.len());
            println!("#eval (\"case {case}\", (replay (init {:?} {tok0} true true) [{}]).map (fun s => (s.done, s.dropped, (List.range {maxn}).map (fun j => s.w j == .exited))))",
                h, acts.join(", "));
            case += 1;
        }
    }
}
