#![allow(missing_docs, dead_code)]
//! Verification hooks (feasibility spike).
use std::num::{NonZeroU64, NonZeroUsize};
use std::sync::atomic::{AtomicBool, AtomicU64, AtomicUsize, Ordering::SeqCst};

pub mod vclock {
    use super::*;
    pub static ENABLED: AtomicBool = AtomicBool::new(false);
    /// virtual time in ticks
    pub static NOW: AtomicU64 = AtomicU64::new(0);
    /// ticks added by every read (uniform-step mode, used to measure precision)
    pub static READ_STEP: AtomicU64 = AtomicU64::new(0);
    pub static READS: AtomicUsize = AtomicUsize::new(0);

    pub const LOG_CAP: usize = 1 << 16;
    #[allow(clippy::declare_interior_mutable_const)]
    const Z: AtomicU64 = AtomicU64::new(0);
    pub static LOG: [AtomicU64; LOG_CAP] = [Z; LOG_CAP];
    pub static LOG_LEN: AtomicUsize = AtomicUsize::new(0);

    /// event = kind << 56 | thread << 48 | payload
    pub fn log(kind: u8, thread: u8, payload: u64) {
        let i = LOG_LEN.fetch_add(1, SeqCst);
        if i < LOG_CAP {
            LOG[i].store(((kind as u64) << 56) | ((thread as u64) << 48) | (payload & 0xFFFF_FFFF_FFFF), SeqCst);
        }
    }

    pub fn advance(ticks: u64) { NOW.fetch_add(ticks, SeqCst); }

    pub fn read(is_start: bool) -> Option<u64> {
        if !ENABLED.load(SeqCst) { return None; }
        READS.fetch_add(1, SeqCst);
        let step = READ_STEP.load(SeqCst);
        let v = NOW.fetch_add(step, SeqCst) + step;
        log(if is_start { 1 } else { 2 }, super::thread_index(), v);
        Some(v)
    }
}

/// 0 for any non-pool thread, N for `divan-N`.
pub fn thread_index() -> u8 {
    thread_local! { static IDX: std::cell::Cell<u8> = const { std::cell::Cell::new(255) }; }
    IDX.with(|c| {
        if c.get() == 255 {
            let t = std::thread::current();
            let i = t.name().and_then(|n| n.strip_prefix("divan-")).and_then(|n| n.parse::<u8>().ok()).unwrap_or(0);
            c.set(i);
        }
        c.get()
    })
}

pub struct LabOut {
    pub sample_count: u32,
    pub iter_count: u64,
    pub fastest: u128, pub slowest: u128, pub median: u128, pub mean: u128,
}

/// Runs `f` with a `Bencher` over a context built from the given options, under the virtual clock
/// with 1 tick = 1 ps.
pub fn bench_lab(
    is_test: bool,
    options: &crate::benchmark::BenchOptions<'_>,
    threads: usize,
    f: &dyn Fn(crate::Bencher),
) -> LabOut {
    use crate::{benchmark::BenchContext, config::Action, divan::SharedContext, time::Timer, util::thread::ThreadPool};
    let timer = Timer::Tsc { frequency: NonZeroU64::new(1_000_000_000_000).unwrap() };
    let shared = SharedContext {
        action: if is_test { Action::Test } else { Action::Bench },
        timer,
        thread_pool: ThreadPool::new(),
    };
    let mut ctx = BenchContext::new(&shared, options, NonZeroUsize::new(threads).unwrap());
    f(crate::Bencher::new(&mut ctx));
    let st = ctx.compute_stats();
    LabOut {
        sample_count: st.sample_count, iter_count: st.iter_count,
        fastest: st.time.fastest.picos, slowest: st.time.slowest.picos,
        median: st.time.median.picos, mean: st.time.mean.picos,
    }
}

/// Measures (and caches for the process) precision and overheads under the virtual clock.
pub fn calibrate(step_ticks: u64) -> u128 {
    use crate::time::Timer;
    let timer = Timer::Tsc { frequency: NonZeroU64::new(1_000_000_000_000).unwrap() };
    vclock::ENABLED.store(true, SeqCst);
    vclock::READ_STEP.store(step_ticks, SeqCst);
    let p = timer.precision().picos;
    vclock::READ_STEP.store(0, SeqCst);
    let _ = timer.bench_overheads();
    vclock::LOG_LEN.store(0, SeqCst);
    p
}
