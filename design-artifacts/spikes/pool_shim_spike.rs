//! Drop-in `std` for pool.rs. Every instrumented operation is performed and logged under one global
//! lock, so the log is a linearisation of the real execution. Blocking operations are implemented
//! here (Mutex + Condvar) so that the moment they take effect is logged atomically as well.
pub use ::std::*;

use ::std::sync::{Condvar as RCondvar, Mutex as RMutex};

#[derive(Clone, Debug, PartialEq)]
pub enum Ev {
    New(usize),                 // AtomicUsize::new(v): a task block is initialised
    Load(usize, u8),            // value, ordering code
    FetchSub(usize, u8),        // old value, ordering code
    Recv,                       // a worker received a task (rendezvous completed)
    RecvEnter,                  // a worker is about to block in recv
    RecvDisconnected,           // recv returned Err
    HandleClone,
    Unpark,
    ParkReturn { spurious: bool },
    Spawn(usize),
    User(u32, u32),             // harness events (call start/end)
}

pub struct Logged { pub thread: usize, pub ev: Ev }

pub static LOG: RMutex<Vec<Logged>> = RMutex::new(Vec::new());
static SEED: ::std::sync::atomic::AtomicU64 = ::std::sync::atomic::AtomicU64::new(0x9E3779B97F4A7C15);

thread_local! { static TID: ::std::cell::Cell<usize> = const { ::std::cell::Cell::new(0) }; }
pub fn tid() -> usize { TID.with(|t| t.get()) }

pub fn set_seed(s: u64) { SEED.store(s | 1, ::std::sync::atomic::Ordering::SeqCst); }
fn rnd() -> u64 {
    // xorshift on a shared state: schedules differ from run to run of a seed only through OS timing
    let mut x = SEED.load(::std::sync::atomic::Ordering::Relaxed);
    x ^= x << 13; x ^= x >> 7; x ^= x << 17;
    SEED.store(x, ::std::sync::atomic::Ordering::Relaxed);
    x
}
/// perturbation: widen race windows around every instrumented operation
fn jitter() {
    match rnd() % 8 {
        0 => ::std::thread::sleep(::std::time::Duration::from_micros(rnd() % 300)),
        1 | 2 => ::std::thread::yield_now(),
        _ => {}
    }
}
/// perform `f` and log its event atomically
pub fn logged<R>(f: impl FnOnce() -> (R, Ev)) -> R {
    jitter();
    let mut log = LOG.lock().unwrap();
    let (r, ev) = f();
    log.push(Logged { thread: tid(), ev });
    drop(log);
    jitter();
    r
}
pub fn user_event(a: u32, b: u32) { logged(|| ((), Ev::User(a, b))) }

fn ord_code(o: ::std::sync::atomic::Ordering) -> u8 {
    use ::std::sync::atomic::Ordering::*;
    match o { Relaxed => 0, Release => 1, Acquire => 2, AcqRel => 3, SeqCst => 4, _ => 9 }
}

pub mod sync {
    pub use ::std::sync::*;
    use super::{logged, Ev};

    pub mod atomic {
        pub use ::std::sync::atomic::*;
        use super::super::{logged, ord_code, Ev};
        pub struct AtomicUsize(::std::sync::atomic::AtomicUsize);
        impl AtomicUsize {
            pub fn new(v: usize) -> Self { logged(|| (Self(::std::sync::atomic::AtomicUsize::new(v)), Ev::New(v))) }
            pub fn load(&self, o: Ordering) -> usize { logged(|| { let v = self.0.load(o); (v, Ev::Load(v, ord_code(o))) }) }
            pub fn fetch_sub(&self, d: usize, o: Ordering) -> usize {
                logged(|| { let v = self.0.fetch_sub(d, o); (v, Ev::FetchSub(v, ord_code(o))) })
            }
        }
    }

    /// rendezvous channel (capacity 0 only): the receiver takes the value and logs `Recv` atomically;
    /// the sender returns only after that.
    pub mod mpsc {
        use super::super::{logged, Ev, RCondvar, RMutex};
        use ::std::sync::Arc;
        pub use ::std::sync::mpsc::{RecvError, SendError};
        struct Chan<T> { slot: RMutex<(Option<T>, bool /*taken ack*/, bool /*sender alive*/)>, cv: RCondvar }
        pub struct SyncSender<T>(Arc<Chan<T>>);
        pub struct Receiver<T>(Arc<Chan<T>>);
        pub fn sync_channel<T>(cap: usize) -> (SyncSender<T>, Receiver<T>) {
            assert_eq!(cap, 0);
            let c = Arc::new(Chan { slot: RMutex::new((None, false, true)), cv: RCondvar::new() });
            (SyncSender(c.clone()), Receiver(c))
        }
        impl<T> SyncSender<T> {
            pub fn send(&self, t: T) -> Result<(), SendError<T>> {
                let mut g = self.0.slot.lock().unwrap();
                g.0 = Some(t); g.1 = false;
                self.0.cv.notify_all();
                while !g.1 { g = self.0.cv.wait(g).unwrap(); }
                Ok(())
            }
        }
        impl<T> Drop for SyncSender<T> {
            fn drop(&mut self) { let mut g = self.0.slot.lock().unwrap(); g.2 = false; self.0.cv.notify_all(); }
        }
        impl<T> Receiver<T> {
            pub fn recv(&self) -> Result<T, RecvError> {
                logged(|| ((), Ev::RecvEnter));
                let mut g = self.0.slot.lock().unwrap();
                loop {
                    if g.0.is_some() {
                        // take + log atomically, then release the sender
                        let v = logged(|| (g.0.take().unwrap(), Ev::Recv));
                        g.1 = true; self.0.cv.notify_all();
                        return Ok(v);
                    }
                    if !g.2 { drop(g); logged(|| ((), Ev::RecvDisconnected)); return Err(RecvError); }
                    g = self.0.cv.wait(g).unwrap();
                }
            }
        }
    }

    pub struct Mutex<T>(::std::sync::Mutex<T>);
    impl<T> Mutex<T> {
        pub const fn new(t: T) -> Self { Self(::std::sync::Mutex::new(t)) }
        pub fn lock(&self) -> LockResult<MutexGuard<'_, T>> { self.0.lock() }
    }
    #[allow(unused_imports)] use {logged as _l, Ev as _e};
}

pub mod thread {
    pub use ::std::thread::*;
    use super::{logged, rnd, Ev, RCondvar, RMutex, TID};
    use ::std::sync::Arc;

    struct Parker { token: RMutex<bool>, cv: RCondvar }
    thread_local! { static PARKER: Arc<Parker> = Arc::new(Parker { token: RMutex::new(false), cv: RCondvar::new() }); }

    pub struct Thread(Arc<Parker>);
    impl Clone for Thread { fn clone(&self) -> Self { logged(|| (Thread(self.0.clone()), Ev::HandleClone)) } }
    impl Thread {
        pub fn unpark(&self) {
            let mut t = self.0.token.lock().unwrap();
            logged(|| { *t = true; ((), Ev::Unpark) });
            self.0.cv.notify_all();
        }
    }
    pub fn current() -> Thread { PARKER.with(|p| Thread(p.clone())) }
    /// whether the calling thread currently holds a wake-up token
    pub fn token_state() -> bool { PARKER.with(|p| *p.token.lock().unwrap()) }
    pub fn park() {
        PARKER.with(|p| {
            // injected spurious wake-up
            if false && rnd() % 5 == 0 { logged(|| ((), Ev::ParkReturn { spurious: true })); return; }
            let mut t = p.token.lock().unwrap();
            while !*t { t = p.cv.wait(t).unwrap(); }
            logged(|| { *t = false; ((), Ev::ParkReturn { spurious: false }) });
        })
    }

    pub struct Builder { name: Option<String> }
    impl Builder {
        pub fn new() -> Self { Self { name: None } }
        pub fn name(mut self, n: String) -> Self { self.name = Some(n); self }
        pub fn spawn<F, T>(self, f: F) -> ::std::io::Result<JoinHandle<T>>
        where F: FnOnce() -> T + Send + 'static, T: Send + 'static {
            let name = self.name.unwrap_or_default();
            let idx: usize = name.strip_prefix("divan-").and_then(|s| s.parse().ok()).unwrap_or(0);
            logged(|| ((), Ev::Spawn(idx)));
            ::std::thread::Builder::new().name(name).spawn(move || { TID.with(|t| t.set(idx)); f() })
        }
    }
}
