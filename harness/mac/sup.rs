//! Support code compiled into every program of the macro lab (`mod sup`).
//!
//! The program itself consists of `#[divan::bench]` / `#[divan::bench_group]`
//! items expanded by the real attribute macros; this module supplies the
//! bodies' logging, the dump of what the macros registered, and `main`, which
//! builds the real `Divan` front end from the parent's run configuration
//! (`VERIF_REG`, same vocabulary as the registry lab).
#![allow(dead_code)]

use divan::__private::{BENCH_ENTRIES, GROUP_ENTRIES};
use divan::Bencher;
use std::any::TypeId;
use std::sync::atomic::{AtomicU64, Ordering::SeqCst};
use std::sync::Mutex;
use std::time::Duration;

pub const SLOTS: usize = 256;

#[allow(clippy::declare_interior_mutable_const)]
const Z: AtomicU64 = AtomicU64::new(0);
/// How often the `args` expression of the benchmark with this base slot ran.
pub static EV: [AtomicU64; SLOTS] = [Z; SLOTS];

/// Calls of benchmarks whose function takes no `Bencher`: (slot, arg, calls).
static CALLS: Mutex<Vec<(usize, Option<String>, u64)>> = Mutex::new(Vec::new());

pub fn hex(s: &str) -> String {
    if s.is_empty() {
        return "-".into();
    }
    s.bytes().map(|b| format!("{b:02x}")).collect()
}

pub fn unhex(s: &str) -> String {
    if s == "-" {
        return String::new();
    }
    let bytes: Vec<u8> =
        (0..s.len() / 2).map(|i| u8::from_str_radix(&s[2 * i..2 * i + 2], 16).unwrap()).collect();
    String::from_utf8(bytes).unwrap()
}

fn log(line: String) {
    eprintln!("@@{line}");
}

/// Body of a benchmark that takes a `Bencher`.
pub fn run_slot(slot: usize, arg: Option<String>, bencher: Bencher) {
    let calls = AtomicU64::new(0);
    let threads = Mutex::new(Vec::<std::thread::ThreadId>::new());
    bencher.bench(|| {
        calls.fetch_add(1, SeqCst);
        let id = std::thread::current().id();
        let mut t = threads.lock().unwrap();
        if !t.contains(&id) {
            t.push(id);
        }
    });
    log(format!(
        "R {slot} {} {} {}",
        arg.as_deref().map(hex).unwrap_or_else(|| "~".into()),
        calls.load(SeqCst),
        threads.lock().unwrap().len()
    ));
}

/// Body of a benchmark without a `Bencher`: one call.
pub fn call(slot: usize, arg: Option<String>) {
    let mut c = CALLS.lock().unwrap();
    if let Some(e) = c.iter_mut().find(|e| e.0 == slot && e.1 == arg) {
        e.2 += 1;
    } else {
        c.push((slot, arg, 1));
    }
}

/// Outputs alive per slot, and the largest number of earlier outputs alive at the time of a call.
pub static LIVE: [AtomicU64; SLOTS] = [Z; SLOTS];
pub static MAX_LIVE: [AtomicU64; SLOTS] = [Z; SLOTS];

/// An output with a destructor: the runner must keep it until the sample's calls are over.
pub struct Out(pub usize);
impl Drop for Out {
    fn drop(&mut self) {
        LIVE[self.0].fetch_sub(1, SeqCst);
    }
}

/// Body of a benchmark without a `Bencher` that returns such an output.
pub fn call_out(slot: usize, arg: Option<String>) -> Out {
    call(slot, arg);
    let before = LIVE[slot].fetch_add(1, SeqCst);
    MAX_LIVE[slot].fetch_max(before, SeqCst);
    Out(slot)
}

/// Index of `T` in the `types = [...]` list of its benchmark.
pub fn ti<T: 'static>(ids: &[TypeId]) -> usize {
    ids.iter().position(|t| *t == TypeId::of::<T>()).expect("instantiated with a type outside the list")
}

/// Index of `n` in the `consts = [...]` list of its benchmark.
pub fn ci<C: PartialEq>(list: &[C], n: C) -> usize {
    list.iter().position(|c| *c == n).expect("instantiated with a const outside the list")
}

/// An argument type with `Debug` but no `ToString`.
#[derive(Clone, PartialEq)]
pub struct D(pub &'static str);
impl std::fmt::Debug for D {
    fn fmt(&self, f: &mut std::fmt::Formatter<'_>) -> std::fmt::Result {
        f.write_str(self.0)
    }
}

pub mod ty_a {
    pub struct Foo;
}
pub mod ty_b {
    pub struct Foo;
}

fn dump_opts(o: &Option<std::sync::LazyLock<divan::__private::BenchOptions<'static>>>) -> String {
    match o {
        None => "-".into(),
        Some(l) => divan::__verif::pure::overwrite_dump(l, &Default::default()).replace(' ', ","),
    }
}

fn dump_entries() {
    let mut v = Vec::new();
    for e in BENCH_ENTRIES.iter() {
        let m = &e.meta;
        v.push(format!(
            "B/{}/{}/{}/{}/{}/{}/{}/-",
            hex(m.module_path),
            hex(m.raw_name),
            hex(m.display_name),
            hex(m.location.file),
            m.location.line,
            m.location.col,
            dump_opts(&m.bench_options)
        ));
    }
    for e in GROUP_ENTRIES.iter() {
        let m = &e.meta;
        let shape = match e.generic_benches {
            None => "-".to_string(),
            Some(outer) => {
                let l: Vec<String> = outer.iter().map(|s| s.len().to_string()).collect();
                format!("[{}]", l.join("+"))
            }
        };
        v.push(format!(
            "{}/{}/{}/{}/{}/{}/{}/{}/{}",
            if e.generic_benches.is_some() { "G" } else { "g" },
            hex(m.module_path),
            hex(m.raw_name),
            hex(m.display_name),
            hex(m.location.file),
            m.location.line,
            m.location.col,
            dump_opts(&m.bench_options),
            shape
        ));
    }
    log(format!("N {}", if v.is_empty() { "-".to_string() } else { v.join(";") }));
}

pub fn main() {
    let req = std::env::var("VERIF_REG").expect("VERIF_REG");
    let cfg: Vec<(String, String)> = req
        .split(' ')
        .skip(1)
        .take_while(|t| *t != "|")
        .filter_map(|t| t.split_once('=').map(|(k, v)| (k.to_string(), v.to_string())))
        .collect();
    let get = |k: &str| cfg.iter().find(|(a, _)| a == k).map(|(_, v)| v.as_str());
    dump_entries();

    let mut d = divan::Divan::default();
    // Runtime options through the builder.
    if get("via") == Some("builder") {
        if let Some(v) = get("o.sc") {
            d = d.sample_count(v.parse().unwrap());
        }
        if let Some(v) = get("o.ss") {
            d = d.sample_size(v.parse().unwrap());
        }
        if let Some(v) = get("o.th") {
            let t: Vec<usize> = v.split(':').filter(|x| !x.is_empty()).map(|x| x.parse().unwrap()).collect();
            d = d.threads(t);
        }
        if let Some(v) = get("o.maxt") {
            d = d.max_time(Duration::from_nanos(v.parse().unwrap()));
        }
        if let Some(v) = get("o.mint") {
            d = d.min_time(Duration::from_nanos(v.parse().unwrap()));
        }
        if let Some(v) = get("o.sk") {
            d = d.skip_ext_time(v == "1");
        }
        if let Some(v) = get("o.items") {
            d = d.items_count(v.parse::<u64>().unwrap());
        }
        if let Some(v) = get("o.bytes") {
            d = d.bytes_count(v.parse::<u64>().unwrap());
        }
        if let Some(v) = get("o.chars") {
            d = d.chars_count(v.parse::<u64>().unwrap());
        }
        if let Some(v) = get("o.cycles") {
            d = d.cycles_count(v.parse::<u64>().unwrap());
        }
        if let Some(v) = get("bf") {
            d = d.bytes_format(if v == "binary" { divan::counter::BytesFormat::Binary } else { divan::counter::BytesFormat::Decimal });
        }
        match get("ign") {
            Some("inc") => d = d.run_ignored(),
            Some("only") => d = d.run_only_ignored(),
            _ => {}
        }
        for (k, s) in &cfg {
            if k == "s" {
                if get("exact") == Some("1") {
                    d = d.skip_exact(unhex(s));
                } else {
                    d = d.skip_regex(unhex(s).as_str());
                }
            }
        }
    }
    let d = d.config_with_args();
    log(format!("CFG {}", d.verif_dump().replace(' ', ";")));
    match get("act").unwrap() {
        "listapi" => d.list_benches(),
        "benchapi" => d.run_benches(),
        "testapi" => d.test_benches(),
        _ => d.main(),
    }
    use std::io::Write;
    let _ = std::io::stdout().flush();
    for (slot, arg, n) in CALLS.lock().unwrap().iter() {
        log(format!("C {slot} {} {n}", arg.as_deref().map(hex).unwrap_or_else(|| "~".into())));
    }
    let live: Vec<String> = MAX_LIVE
        .iter()
        .enumerate()
        .filter(|(k, _)| CALLS.lock().unwrap().iter().any(|c| c.0 == *k))
        .map(|(k, m)| format!("{k}:{}", m.load(SeqCst)))
        .collect();
    log(format!("V {}", if live.is_empty() { "-".to_string() } else { live.join(",") }));
    let evals: Vec<String> = EV.iter().map(|a| a.load(SeqCst).to_string()).collect();
    log(format!("E {}", evals.join(" ")));
    log("DONE".into());
}
