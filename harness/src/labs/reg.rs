//! Registry lab, parent side (C12-C17, C20): generates abstract benchmark
//! programs + run configurations, runs each in a child process that registers
//! the entries like the macros do and drives the real `Divan` front end, and
//! reports exit status, (canonicalised) standard output and the invocation log.

use crate::reg_child::{type_raw_name, SLOTS, TYPE_COUNT};
use crate::rng::{hex, unhex, Rng};
use std::process::{Command, Stdio};

/// Splits off `("│  " | "   ")* ("├─ " | "╰─ ")`; rows without a branch glyph
/// have no prefix.
pub fn tree_prefix(line: &str) -> (&str, &str) {
    let mut at = 0;
    loop {
        let rest = &line[at..];
        let g: String = rest.chars().take(3).collect();
        match g.as_str() {
            "│  " | "   " => at += g.len(),
            "├─ " | "╰─ " => {
                at += g.len();
                return line.split_at(at);
            }
            _ => return ("", line),
        }
    }
}

/// Replaces measured values by class tokens and collapses runs of spaces, so
/// that bench-mode output is deterministic (samples/iters stay exact).
fn canon_bench(out: &str) -> String {
    const TIME_UNITS: &[&str] = &["ps", "ns", "µs", "ms", "s", "m", "h", "d"];
    let mut res = String::new();
    for line in out.lines() {
        // The tree prefix of a row that opens a node (bars, blanks and the
        // branch glyph, three columns per level) is kept verbatim.
        let (prefix, line) = tree_prefix(line);
        res.push_str(prefix);
        let words: Vec<&str> = line.split(' ').filter(|w| !w.is_empty()).collect();
        let mut outw: Vec<String> = Vec::new();
        let mut i = 0;
        while i < words.len() {
            let w = words[i];
            let is_num = !w.is_empty()
                && (w.chars().all(|c| c.is_ascii_digit() || c == '.') || w == "inf")
                && w.chars().next().map(|c| c.is_ascii_digit() || c == 'i').unwrap_or(false);
            if is_num && i + 1 < words.len() {
                let u = words[i + 1];
                if TIME_UNITS.contains(&u) {
                    outw.push("T".into());
                    i += 2;
                    continue;
                }
                let base = u.trim_start_matches(|c| "KMGTP".contains(c));
                let base = base.strip_prefix('i').filter(|b| b.starts_with('B')).unwrap_or(base);
                if ["item/s", "char/s", "B/s", "Hz"].contains(&base) {
                    outw.push(format!("R:{base}"));
                    i += 2;
                    continue;
                }
            }
            outw.push(w.to_string());
            i += 1;
        }
        res.push_str(&outw.join(" "));
        res.push('\n');
    }
    res
}

fn rand_opts(rng: &mut Rng) -> String {
    let mut v = Vec::new();
    let mut add = |rng: &mut Rng, k: &str, val: String| {
        if rng.chance(2, 5) {
            v.push(format!("{k}={val}"));
        }
    };
    let x = rng.below(1000);
    add(rng, "sc", x.to_string());
    let x = rng.below(1000);
    add(rng, "ss", x.to_string());
    let n = rng.below(4);
    let t: Vec<String> = (0..n).map(|_| rng.below(5).to_string()).collect();
    add(rng, "th", t.join(":"));
    let x = rng.below(2);
    add(rng, "ig", x.to_string());
    let x = rng.log_u64() >> 8;
    add(rng, "maxt", x.to_string());
    let x = rng.log_u64() >> 8;
    add(rng, "mint", x.to_string());
    let x = rng.below(2);
    add(rng, "sk", x.to_string());
    for k in ["bytes", "chars", "cycles", "items"] {
        let x = rng.log_u64();
        add(rng, k, x.to_string());
    }
    if v.is_empty() {
        "+".into()
    } else {
        v.join(",")
    }
}

/// Entry-list lab (C12): `threads` threads, released together, each push `per` nodes into one
/// fresh `EntryList`; the observation is the smallest number of distinct entries the list yielded
/// over `rounds` rounds (the head included).
pub fn gen_elist(rng: &mut Rng, n: usize) -> Vec<String> {
    let mut out = vec!["elist 1 50 2".to_string(), "elist 2 200 10".to_string(), "elist 8 500 20".to_string()];
    while out.len() < n {
        out.push(format!("elist {} {} {}", 2 + rng.below(15), 50 + rng.below(800), 5 + rng.below(20)));
    }
    out.truncate(n.max(1));
    out
}

pub fn exec_elist(toks: &[&str]) -> String {
    use divan::__private::EntryList;
    let v: Vec<usize> = toks.iter().map(|t| t.parse().unwrap()).collect();
    let (threads, per, rounds) = (v[0], v[1], v[2]);
    let mut worst = usize::MAX;
    let mut report = String::new();
    for _ in 0..rounds {
        let head: &'static EntryList<usize> = Box::leak(Box::new(EntryList::new(Box::leak(Box::new(usize::MAX)))));
        let barrier = std::sync::Arc::new(std::sync::Barrier::new(threads));
        let handles: Vec<_> = (0..threads)
            .map(|t| {
                let barrier = barrier.clone();
                std::thread::spawn(move || {
                    let nodes: Vec<&'static EntryList<usize>> = (0..per)
                        .map(|k| &*Box::leak(Box::new(EntryList::new(&*Box::leak(Box::new(t * per + k))))))
                        .collect();
                    barrier.wait();
                    for n in nodes {
                        head.push(n);
                    }
                })
            })
            .collect();
        for h in handles {
            h.join().unwrap();
        }
        // what a reader walking from the head sees, newest first (bounded: a cycle must not hang the lab);
        // the head's own value is rendered `H`
        let vals: Vec<usize> = head.iter().copied().take(2 * (threads * per + 1) + 2).collect();
        let seen: std::collections::HashSet<usize> = vals.iter().copied().collect();
        if seen.len() < worst || report.is_empty() {
            worst = worst.min(seen.len());
            report = vals.iter().map(|v| if *v == usize::MAX { "H".to_string() } else { v.to_string() }).collect::<Vec<_>>().join(",");
        }
    }
    report
}

pub fn gen_ovw(rng: &mut Rng, n: usize) -> Vec<String> {
    (0..n).map(|_| format!("ovw {} {}", rand_opts(rng), rand_opts(rng))).collect()
}

pub fn exec_ovw(toks: &[&str]) -> String {
    let p = |s: &str| crate::reg_child::parse_opts(if s == "+" { "" } else { s }).unwrap();
    divan::__verif::pure::overwrite_dump(&p(toks[0]), &p(toks[1]))
}

pub fn exec(_verb: &str, toks: &[&str]) -> String {
    let req = format!("reg {}", toks.join(" "));
    let mut cmd = Command::new(std::env::current_exe().unwrap());
    cmd.env("VERIF_REG", &req);
    let act = configure(&mut cmd, toks);
    let out = cmd.output().expect("spawn child");
    collect(&out, &act).0
}

/// Turns the run configuration of a request (tokens before the first `|`)
/// into divan's command line / `DIVAN_*` environment; returns the action.
pub fn configure(cmd: &mut Command, toks: &[&str]) -> String {
    let mut cfg: Vec<(&str, &str)> = Vec::new();
    for t in toks {
        if *t == "|" {
            break;
        }
        if let Some(kv) = t.split_once('=') {
            cfg.push(kv);
        }
    }
    let get = |k: &str| cfg.iter().find(|(a, _)| *a == k).map(|(_, v)| *v);
    let all = |k: &str| cfg.iter().filter(|(a, _)| *a == k).map(|(_, v)| *v).collect::<Vec<_>>();
    let act = get("act").unwrap_or("test");
    let via = get("via").unwrap_or("cli");
    for (k, _) in std::env::vars() {
        if k.starts_with("DIVAN_") || k == "NEXTEST" {
            cmd.env_remove(k);
        }
    }
    match act {
        "bench" => {
            cmd.arg("--bench");
        }
        "test" => {
            cmd.arg("--test");
        }
        "list" => {
            cmd.arg("--list");
        }
        "terse" => {
            cmd.env("NEXTEST", "1").args(["--list", "--format", "terse"]);
        }
        _ => {}
    }
    match get("sort") {
        Some(a) if a != "-" => {
            if get("rev") == Some("1") {
                if via == "env" {
                    cmd.env("DIVAN_SORTR", a);
                } else {
                    cmd.args(["--sortr", a]);
                }
            } else if via == "env" {
                cmd.env("DIVAN_SORT", a);
            } else {
                cmd.args(["--sort", a]);
            }
        }
        _ => {}
    }
    if via != "builder" {
        match get("ign") {
            Some("inc") => {
                cmd.arg("--include-ignored");
            }
            Some("only") => {
                cmd.arg("--ignored");
            }
            _ => {}
        }
        for s in all("s") {
            cmd.arg("--skip").arg(unhex(s));
        }
        let opt = |cmd: &mut Command, key: &str, flag: &str, env: &str, secs: bool| {
            if let Some(v) = get(key) {
                let v = if secs {
                    // nanoseconds -> seconds text
                    let ns: u64 = v.parse().unwrap();
                    format!("{}.{:09}", ns / 1_000_000_000, ns % 1_000_000_000)
                } else {
                    v.replace(':', ",")
                };
                if via == "env" {
                    cmd.env(env, v);
                } else {
                    cmd.arg(format!("--{flag}")).arg(v);
                }
            }
        };
        opt(cmd, "o.sc", "sample-count", "DIVAN_SAMPLE_COUNT", false);
        opt(cmd, "o.ss", "sample-size", "DIVAN_SAMPLE_SIZE", false);
        opt(cmd, "o.th", "threads", "DIVAN_THREADS", false);
        opt(cmd, "o.maxt", "max-time", "DIVAN_MAX_TIME", true);
        opt(cmd, "o.mint", "min-time", "DIVAN_MIN_TIME", true);
        opt(cmd, "o.items", "items-count", "DIVAN_ITEMS_COUNT", false);
        opt(cmd, "o.bytes", "bytes-count", "DIVAN_BYTES_COUNT", false);
        opt(cmd, "o.chars", "chars-count", "DIVAN_CHARS_COUNT", false);
        opt(cmd, "o.cycles", "cycles-count", "DIVAN_CYCLES_COUNT", false);
        if let Some(v) = get("o.sk") {
            let v = if v == "1" { "true" } else { "false" };
            if via == "env" {
                cmd.env("DIVAN_SKIP_EXT_TIME", v);
            } else if v == "true" && get("skflag") == Some("1") {
                // the flag without a value means `true`; it goes last (see below)
            } else {
                cmd.arg(format!("--skip-ext-time={v}"));
            }
        }
    }
    // output/timer configuration (no builder call exists for the timer)
    if let Some(v) = get("bf") {
        if via == "env" {
            cmd.env("DIVAN_BYTES_FORMAT", v);
        } else if via != "builder" {
            cmd.args(["--bytes-format", v]);
        }
    }
    if let Some(v) = get("tm") {
        if via == "env" {
            cmd.env("DIVAN_TIMER", v);
        } else if via != "builder" {
            cmd.args(["--timer", v]);
        }
    }
    // a command-line flag wins over its environment variable: give the
    // variables of everything set on the command line some other value
    if via == "cli" && get("envx") == Some("1") {
        for (key, env, val) in [
            ("o.sc", "DIVAN_SAMPLE_COUNT", "77"),
            ("o.ss", "DIVAN_SAMPLE_SIZE", "9"),
            ("o.th", "DIVAN_THREADS", "5"),
            ("o.maxt", "DIVAN_MAX_TIME", "0.5"),
            ("o.mint", "DIVAN_MIN_TIME", "0.25"),
            ("o.items", "DIVAN_ITEMS_COUNT", "1"),
            ("o.bytes", "DIVAN_BYTES_COUNT", "1"),
            ("o.chars", "DIVAN_CHARS_COUNT", "1"),
            ("o.cycles", "DIVAN_CYCLES_COUNT", "1"),
            ("bf", "DIVAN_BYTES_FORMAT", if get("bf") == Some("binary") { "decimal" } else { "binary" }),
            ("tm", "DIVAN_TIMER", if get("tm") == Some("tsc") { "os" } else { "tsc" }),
        ] {
            if get(key).is_some() {
                cmd.env(env, val);
            }
        }
        if let Some(v) = get("o.sk") {
            cmd.env("DIVAN_SKIP_EXT_TIME", if v == "1" { "false" } else { "true" });
        }
    }
    if get("exact") == Some("1") {
        cmd.arg("--exact");
    }
    for f in all("f") {
        cmd.arg(unhex(f));
    }
    if via != "builder" && via != "env" && get("o.sk") == Some("1") && get("skflag") == Some("1") {
        // after the positional filters: clap would take a following filter for the flag's value
        cmd.arg("--skip-ext-time");
    }
    cmd.stdin(Stdio::null()).stdout(Stdio::piped()).stderr(Stdio::piped());
    act.to_string()
}

/// The observation of one child run; second component: the `@@` lines this
/// function does not know (for labs with a richer child protocol).
pub fn collect(out: &std::process::Output, act: &str) -> (String, Vec<String>) {
    let stdout = String::from_utf8_lossy(&out.stdout).to_string();
    // `conc=K` requests: what the concurrent phase printed ends at the marker line
    let stdout = match stdout.find("\n@@PHASE2\n") {
        Some(i) => stdout[i + "\n@@PHASE2\n".len()..].to_string(),
        None => stdout,
    };
    let stderr = String::from_utf8_lossy(&out.stderr).to_string();
    let mut log = Vec::new();
    let mut other = Vec::new();
    let mut evals = String::new();
    let mut done = false;
    let mut panic_msg = String::new();
    let mut cfg_dump = String::new();
    for l in stderr.lines() {
        if let Some(r) = l.strip_prefix("@@") {
            if r == "DONE" {
                done = true;
            } else if let Some(c) = r.strip_prefix("CFG ") {
                cfg_dump = c.to_string();
            } else if let Some(e) = r.strip_prefix("E ") {
                evals = e.split(' ').take_while(|_| true).collect::<Vec<_>>().join(":");
            } else if r.starts_with("R ") {
                log.push(r.replace(' ', ":"));
            } else {
                other.push(r.to_string());
            }
        } else if l.contains("panicked at") && panic_msg.is_empty() {
            panic_msg = l.to_string();
        } else if !panic_msg.is_empty() && !panic_msg.contains('\n') && !l.starts_with("note:") {
            panic_msg.push('\n');
            panic_msg.push_str(l);
        }
    }
    let code = out.status.code().unwrap_or(-1);
    let canon = if act == "bench" || act == "benchapi" { canon_bench(&stdout) } else { stdout };
    // Only slots that were used matter; drop the trailing zeros.
    let mut evals = evals;
    while evals.ends_with(":0") {
        evals.truncate(evals.len() - 2);
    }
    let obs = format!(
        "X{}{} G{} O{} L{} E{}{}",
        code,
        if done { "" } else { "!" },
        if cfg_dump.is_empty() { "-" } else { &cfg_dump },
        hex(&canon),
        if log.is_empty() { "-".to_string() } else { log.join(",") },
        if evals.is_empty() { "-" } else { &evals },
        if code != 0 && !panic_msg.is_empty() { format!(" P{}", hex(panic_msg.lines().nth(1).unwrap_or(""))) } else { String::new() }
    );
    (obs, other)
}

// ------------------------------------------------------------------ generator

fn arg_tok(s: &str) -> String {
    let fb = match s.parse::<f64>() {
        Ok(f) => f.to_bits().to_string(),
        Err(_) => "n".into(),
    };
    format!("{}~{fb}", hex(s))
}

struct Gen<'a> {
    rng: &'a mut Rng,
    items: Vec<String>,
    paths: Vec<String>,
    slots: usize,
    line: u32,
    col: u32,
    bench_mode: bool,
    names_with_spaces: bool,
}

const FN_NAMES: &[&str] = &[
    "bench", "bench1", "bench2", "bench10", "bench02", "a", "b", "B", "z", "sort", "sort_unstable",
    "r#match", "r#fn", "add", "mul", "x9", "x10", "X", "from_iter", "über", "naïve", "日本",
];
const MOD_NAMES: &[&str] = &["m", "m1", "m2", "m10", "util", "inner", "r#mod", "r#loop", "a", "bench", "zz", "ö"];
const DISPLAY: &[&str] = &["Custom", "custom name", "1", "02", "Ünï", "a::b", "x<y>", "bench", "a,b", "a(b", "x[0"];
const ARG_LISTS: &[&[&str]] = &[
    &["0", "1", "2"],
    &["10", "9", "1", "-3", "100"],
    &["a", "b", "c"],
    &["1.5", "0.25", "-2.5", "10"],
    &["x1", "x10", "x2"],
    &["true", "false"],
    &["b", "a", "b"],
    &["(a", "[b", "c)"],
    &[""],
    &["é", "z", "日本"],
    &["1", "1000", "100", "10"],
    // Debug renderings of tuples: commas and parentheses in case paths (and so in filters)
    &["(1, 2)", "(1, 3)", "(2, 2)"],
];

impl Gen<'_> {
    fn opts(&mut self, is_group: bool) -> String {
        if self.rng.chance(1, 3) {
            return "-".into();
        }
        let mut v = Vec::new();
        if self.rng.chance(1, 3) {
            v.push(format!("sc={}", 1 + self.rng.below(4)));
        }
        if self.rng.chance(1, 3) {
            v.push(format!("ss={}", 1 + self.rng.below(3)));
        }
        if self.rng.chance(1, 4) {
            let n = 1 + self.rng.below(3);
            let t: Vec<String> = (0..n).map(|_| [1u64, 1, 2, 3, 2, 0][self.rng.below(if self.bench_mode { 5 } else { 6 }) as usize].to_string()).collect();
            v.push(format!("th={}", t.join(":")));
        }
        if self.rng.chance(1, if is_group { 3 } else { 4 }) {
            v.push(format!("ig={}", self.rng.below(2)));
        }
        if self.rng.chance(1, 8) {
            v.push("maxt=30000000000".into());
        }
        if self.rng.chance(1, 8) {
            v.push("mint=0".into());
        }
        if self.rng.chance(1, 6) {
            v.push(format!("sk={}", self.rng.below(2)));
        }
        for k in ["items", "bytes", "chars", "cycles"] {
            if self.rng.chance(1, 6) {
                v.push(format!("{k}={}", 1 + self.rng.below(1000)));
            }
        }
        if v.is_empty() {
            return "-".into();
        }
        v.join(",")
    }

    fn loc(&mut self) -> (String, u32, u32) {
        let before = self.line;
        self.line += self.rng.below(5) as u32 + if self.rng.chance(1, 6) { 0 } else { 1 };
        let file = ["src/main.rs", "src/main.rs", "src/b.rs", "benches/x/mod.rs"][self.rng.below(4) as usize];
        // Two items never share file, line and column (they cannot in a real
        // program; between such items only their addresses would decide the
        // order): on the same line the column moves on.
        let col = if self.line == before { self.col + 1 + self.rng.below(10) as u32 } else { 1 + self.rng.below(40) as u32 };
        self.col = col;
        (file.to_string(), self.line, col)
    }

    fn display(&mut self, raw: &str) -> String {
        if self.rng.chance(1, 5) {
            let d = *self.rng.pick(DISPLAY);
            if d.contains(' ') && !self.names_with_spaces {
                return d.replace(' ', "_");
            }
            d.to_string()
        } else {
            raw.strip_prefix("r#").unwrap_or(raw).to_string()
        }
    }

    fn args(&mut self) -> String {
        match self.rng.below(12) {
            0 => "=".into(),
            1 => {
                let n = 1 + self.rng.below(30);
                (0..n).map(|i| arg_tok(&(i * 7 % 31).to_string())).collect::<Vec<_>>().join(",")
            }
            _ => self.rng.pick(ARG_LISTS).iter().map(|s| arg_tok(s)).collect::<Vec<_>>().join(","),
        }
    }

    fn module(&mut self, path: &str, depth: u32) {
        let n_fns = if self.rng.chance(1, 12) { 6 + self.rng.below(8) as usize } else { self.rng.below(if depth == 0 { 4 } else { 5 }) as usize };
        let mut fns: Vec<&str> = Vec::new();
        for _ in 0..n_fns {
            let f = *self.rng.pick(FN_NAMES);
            if !fns.contains(&f) {
                fns.push(f);
            }
        }
        for f in fns {
            let (file, line, col) = self.loc();
            let disp = self.display(f);
            let opts = self.opts(false);
            match self.rng.below(10) {
                0..=4 => {
                    if self.slots + 1 > SLOTS {
                        continue;
                    }
                    self.slots += 1;
                    self.items.push(format!("B {} {} {} {} {line} {col} {opts} -", hex(path), hex(f), hex(&disp), hex(&file)));
                    self.paths.push(format!("{path}::{disp}"));
                }
                5..=6 => {
                    if self.slots + 1 > SLOTS {
                        continue;
                    }
                    self.slots += 1;
                    let a = self.args();
                    self.items.push(format!("B {} {} {} {} {line} {col} {opts} {a}", hex(path), hex(f), hex(&disp), hex(&file)));
                    self.paths.push(format!("{path}::{disp}"));
                    if a != "=" {
                        if let Some(first) = a.split(',').next() {
                            self.paths.push(format!("{path}::{disp}::{}", unhex(first.split('~').next().unwrap())));
                        }
                    }
                }
                _ => {
                    // generic benchmark: types and/or consts
                    let with_t = self.rng.chance(2, 3);
                    let with_c = !with_t || self.rng.chance(1, 2);
                    let tys: Vec<usize> = if with_t {
                        let n = self.rng.below(4) as usize;
                        let mut v = Vec::new();
                        for _ in 0..n {
                            let t = self.rng.below(TYPE_COUNT as u64 - 1) as usize; // never ty_b::Foo together with ty_a::Foo
                            if !v.contains(&t) {
                                v.push(t);
                            }
                        }
                        v
                    } else {
                        vec![]
                    };
                    let consts: (char, Vec<String>) = if with_c {
                        match self.rng.below(3) {
                            // (several negatives: their names sort the other way round than their values)
                            0 => ('i', [vec!["1", "2", "4"], vec!["16", "4", "-1", "100"], vec![], vec!["0"], vec!["-5", "3", "-10", "0", "-1", "20"]][self.rng.below(5) as usize].iter().map(|s| s.to_string()).collect()),
                            1 => ('s', vec![hex("a"), hex("B"), hex("a10"), hex("a9")]),
                            _ => ('c', vec![hex("x"), hex("é")]),
                        }
                    } else {
                        ('-', vec![])
                    };
                    let inst = (if with_t { tys.len() } else { 1 }) * (if with_c { consts.1.len() } else { 1 });
                    let use_args = self.rng.chance(1, 4);
                    if self.slots + inst > SLOTS {
                        continue;
                    }
                    self.slots += inst;
                    let a = if use_args { self.args() } else { "-".into() };
                    let ts = if with_t {
                        if tys.is_empty() { ":".to_string() } else { tys.iter().map(|t| format!("{t}~{}", hex(type_raw_name(*t)))).collect::<Vec<_>>().join(":") }
                    } else {
                        "-".into()
                    };
                    let cs = if with_c { format!("{}:{}", consts.0, consts.1.join(":")) } else { "-".into() };
                    self.items.push(format!("G {} {} {} {} {line} {col} {opts} {ts} {cs} {a}", hex(path), hex(f), hex(&disp), hex(&file)));
                    self.paths.push(format!("{path}::{disp}"));
                    // instantiation paths as filter seeds (type names may hold commas)
                    for t in &tys {
                        let raw = type_raw_name(*t);
                        let mut name = raw;
                        while let Some((prev, next)) = name.split_once("::") {
                            if prev.contains('<') {
                                break;
                            }
                            name = next;
                        }
                        self.paths.push(format!("{path}::{disp}::{name}"));
                    }
                }
            }
        }
        if depth < 3 {
            // occasionally a wide module level
            let n_mods = if self.rng.chance(1, 12) { 6 + self.rng.below(6) as usize } else { self.rng.below(if depth == 0 { 4 } else { 3 }) as usize };
            let mut mods: Vec<&str> = Vec::new();
            for _ in 0..n_mods {
                let m = *self.rng.pick(MOD_NAMES);
                if !mods.contains(&m) {
                    mods.push(m);
                }
            }
            for m in mods {
                if self.rng.chance(1, 2) {
                    // #[bench_group] on this module
                    let (file, line, col) = self.loc();
                    let disp = self.display(m);
                    let opts = self.opts(true);
                    self.items.push(format!("G {} {} {} {} {line} {col} {opts} - - -", hex(path), hex(m), hex(&disp), hex(&file)));
                    self.paths.push(format!("{path}::{disp}"));
                }
                self.module(&format!("{path}::{m}"), depth + 1);
            }
        }
    }
}

pub fn config(rng: &mut Rng, act: &str, paths: &[String], bench_mode: bool) -> Vec<String> {
    let mut c = vec![format!("act={act}")];
    if rng.chance(2, 3) {
        c.push(format!("sort={}", ["kind", "name", "location"][rng.below(3) as usize]));
        c.push(format!("rev={}", rng.below(2)));
    }
    c.push(format!("ign={}", ["no", "no", "inc", "only"][rng.below(4) as usize]));
    let via = ["cli", "cli", "env", "builder"][rng.below(4) as usize];
    let api = act.ends_with("api");
    let via = if api && rng.chance(1, 2) { "builder" } else { via };
    c.push(format!("via={via}"));
    c.push(format!("par={}", std::thread::available_parallelism().map(|n| n.get()).unwrap_or(1)));
    // filters
    let exact = rng.chance(1, 3);
    c.push(format!("exact={}", exact as u8));
    let mk = |rng: &mut Rng| -> String {
        if paths.is_empty() || rng.chance(1, 6) {
            return ["nomatch", "a", "1", "::", "bench"][rng.below(5) as usize].to_string();
        }
        let p = rng.pick(paths).clone();
        if exact {
            return p;
        }
        let chars: Vec<char> = p.chars().collect();
        let esc = |s: String| -> String {
            s.chars().flat_map(|c| if "\\.+*?()|[]{}^$".contains(c) { vec!['\\', c] } else { vec![c] }).collect()
        };
        match rng.below(6) {
            0 => format!("^{}$", esc(p)),
            1 => format!("^{}", esc(chars[..chars.len().min(1 + rng.below(chars.len() as u64) as usize)].iter().collect())),
            2 => format!("{}$", esc(chars[rng.below(chars.len() as u64) as usize..].iter().collect())),
            3 => {
                let a = rng.below(chars.len() as u64) as usize;
                let b = a + 1 + rng.below((chars.len() - a) as u64) as usize;
                esc(chars[a..b.min(chars.len())].iter().collect())
            }
            4 => {
                let q = rng.pick(paths).clone();
                format!("^{}$|^{}$", esc(p), esc(q))
            }
            _ => {
                // one character replaced by `.`
                let i = rng.below(chars.len() as u64) as usize;
                let mut s = String::new();
                for (j, ch) in chars.iter().enumerate() {
                    if j == i {
                        s.push('.');
                    } else {
                        s.push_str(&esc(ch.to_string()));
                    }
                }
                s
            }
        }
    };
    let npos = [0, 0, 1, 1, 2, 4][rng.below(6) as usize];
    let nskip = [0, 0, 0, 1, 2, 4][rng.below(6) as usize];
    if via != "builder" {
        for _ in 0..npos {
            let f = mk(rng);
            if !f.starts_with('-') {
                c.push(format!("f={}", hex(&f)));
            }
        }
    }
    for _ in 0..nskip {
        let f = mk(rng);
        if !f.starts_with('-') {
            c.push(format!("s={}", hex(&f)));
        }
    }
    // runtime options
    if bench_mode || rng.chance(1, 2) {
        if rng.chance(1, 3) {
            c.push(format!("o.sc={}", 1 + rng.below(4)));
        }
        if bench_mode || rng.chance(1, 3) {
            // in bench mode make sure some sample size is in force (no tuning)
            if !bench_mode || rng.chance(2, 3) {
                c.push(format!("o.ss={}", 1 + rng.below(3)));
            }
        }
        if rng.chance(1, 4) {
            let n = 1 + rng.below(3);
            let t: Vec<String> = (0..n).map(|_| [1u64, 2, 3, 2][rng.below(4) as usize].to_string()).collect();
            c.push(format!("o.th={}", t.join(":")));
        }
        if rng.chance(1, 8) {
            c.push(format!("o.sk={}", rng.below(2)));
        }
        // time bounds at run time: values that cannot influence how many rounds run
        // (a ceiling of 30 s / 1 h, a floor of zero), plus the zero ceiling (nothing runs)
        if rng.chance(1, 6) {
            // (the zero ceiling only outside bench mode: which continuation rows a benchmark without any
            // sample gets is not modelled)
            c.push(format!("o.maxt={}", [30_000_000_000u64, 3_600_000_000_000, 30_000_000_000, 0][rng.below(if bench_mode { 3 } else { 4 }) as usize]));
        }
        if rng.chance(1, 8) {
            c.push("o.mint=0".into());
        }
        for k in ["items", "bytes", "chars", "cycles"] {
            if rng.chance(1, 8) {
                c.push(format!("o.{k}={}", 1 + rng.below(1000)));
            }
        }
    }
    if rng.chance(1, 4) {
        c.push(format!("bf={}", ["binary", "decimal"][rng.below(2) as usize]));
    }
    if via != "builder" && !bench_mode && rng.chance(1, 5) {
        c.push(format!("tm={}", ["os", "tsc"][rng.below(2) as usize]));
    }
    if via == "cli" && rng.chance(1, 3) {
        c.push("envx=1".into());
    }
    if via == "cli" && rng.chance(1, 2) {
        c.push("skflag=1".into());
    }
    c
}

pub fn gen(rng: &mut Rng, n: usize) -> Vec<String> {
    let mut out = Vec::new();
    while out.len() < n {
        // `benchapi`: `config_with_args()` without `--bench` (configured action: test), then `run_benches()`
        let act = ["test", "test", "list", "terse", "terse", "bench", "listapi", "testapi", "benchapi"][rng.below(9) as usize];
        let bench_mode = act == "bench" || act == "benchapi";
        let mut g = Gen { rng, items: vec![], paths: vec![], slots: 0, line: 1, col: 0, bench_mode, names_with_spaces: !bench_mode && act != "terse" };
        let size = g.rng.below(3);
        g.module("bc", if size == 0 { 2 } else { 0 });
        let items = std::mem::take(&mut g.items);
        let paths = std::mem::take(&mut g.paths);
        // several configurations per program
        let k = 1 + rng.below(3);
        for _ in 0..k {
            let mut cfg = config(rng, act, &paths, bench_mode);
            // constructor (push) order is unspecified: a random permutation
            let mut order: Vec<usize> = (0..items.len()).collect();
            if rng.chance(3, 4) {
                for i in (1..order.len()).rev() {
                    order.swap(i, rng.below(i as u64 + 1) as usize);
                }
            }
            cfg.push(format!("order={}", order.iter().map(|i| i.to_string()).collect::<Vec<_>>().join(":")));
            // concurrent runners first (C17: one evaluation of each argument list per process)
            if rng.chance(1, 8) {
                cfg.push(format!("conc={}", 2 + rng.below(3)));
            }
            if bench_mode && !cfg.iter().any(|c| c.starts_with("o.ss=")) {
                // guarantee an explicit sample size for every benchmark
                cfg.push("o.ss=1".into());
            }
            out.push(format!("reg {} | {}", cfg.join(" "), items.join(" | ")).trim_end_matches(" | ").to_string());
        }
    }
    out.truncate(n);
    out
}
