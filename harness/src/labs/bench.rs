//! Bench lab (C01-C05, C08, C19): drives the real `Bencher` entry points over
//! instrumented input/output types under the virtual clock and reports, per
//! thread, the sequence of events (generation, counting, timestamps, calls,
//! drops) and the statistics computed by the real `compute_stats`.
//!
//! Must run in the `blabs` binary (global `AllocProfiler`).

use crate::rng::Rng;
use divan::__private::BenchOptions;
use divan::__verif::{benchlab, vclock};
use divan::Bencher;
use std::sync::atomic::{AtomicI64, AtomicU64, Ordering::SeqCst};
use std::time::Duration;

pub const EV_GEN: u8 = 10;
pub const EV_COUNT: u8 = 11;
pub const EV_CALL: u8 = 12;
pub const EV_DROP_OUT: u8 = 13;
pub const EV_DROP_IN: u8 = 14;

/// Script of the current run (read by closures and destructors).
#[derive(Clone, Copy, Default)]
struct Script {
    gen_cost: u64,
    call_cost: u64,
    call_slope: u64,
    drop_in_cost: u64,
    drop_out_cost: u64,
    gen_allocs: u64,
    call_allocs: u64,
    drop_allocs: u64,
    alloc_size: u64,
    /// panic in the call with this per-thread index on this thread (-1: never)
    panic_thread: i64,
    panic_call: i64,
    /// panic in the input generator when it produces this per-thread id
    gpanic_thread: i64,
    gpanic_id: i64,
    /// per-thread skew: thread t generates `t * skew_gen` slower and calls
    /// `(threads - 1 - t) * skew_call` slower
    skew_gen: u64,
    skew_call: u64,
    /// if non-zero, only the first `lazy_calls` calls of a thread allocate
    /// (lazy initialisation: later samples do not touch the allocator)
    lazy_calls: u64,
    /// the benchmarked function only reallocates a pre-allocated block to its own size
    /// (an allocator operation that moves 0 bytes)
    zero_realloc: bool,
    threads: u64,
}

static SCRIPT: std::sync::Mutex<Script> = std::sync::Mutex::new(Script {
    gen_cost: 0,
    call_cost: 0,
    call_slope: 0,
    drop_in_cost: 0,
    drop_out_cost: 0,
    gen_allocs: 0,
    call_allocs: 0,
    drop_allocs: 0,
    alloc_size: 0,
    panic_thread: -1,
    panic_call: -1,
    gpanic_thread: -1,
    gpanic_id: -1,
    skew_gen: 0,
    skew_call: 0,
    lazy_calls: 0,
    zero_realloc: false,
    threads: 1,
});
fn script() -> Script {
    *SCRIPT.lock().unwrap_or_else(|e| e.into_inner())
}

#[allow(clippy::declare_interior_mutable_const)]
const Z: AtomicU64 = AtomicU64::new(0);
/// Per-thread counters: ids of generated values, index of the next call.
static NEXT_ID: [AtomicU64; vclock::MAX_THREADS] = [Z; vclock::MAX_THREADS];
static NEXT_CALL: [AtomicU64; vclock::MAX_THREADS] = [Z; vclock::MAX_THREADS];
static PANICS: AtomicI64 = AtomicI64::new(0);

/// One pre-allocated block per thread for the same-size reallocations (allocated outside any sample).
#[allow(clippy::declare_interior_mutable_const)]
const NULLP: std::sync::atomic::AtomicPtr<u8> = std::sync::atomic::AtomicPtr::new(std::ptr::null_mut());
static BLOCKS: [std::sync::atomic::AtomicPtr<u8>; vclock::MAX_THREADS] = [NULLP; vclock::MAX_THREADS];

fn prepare_blocks() {
    for b in BLOCKS.iter() {
        if b.load(SeqCst).is_null() {
            let p = unsafe { std::alloc::alloc(std::alloc::Layout::from_size_align(32, 1).unwrap()) };
            b.store(p, SeqCst);
        }
    }
}

fn churn(n: u64, size: u64) {
    // `n` times: allocate, grow to twice the size, free (through the global
    // allocator, i.e. the profiler).
    for _ in 0..n {
        unsafe {
            let l = std::alloc::Layout::from_size_align(size.max(1) as usize, 1).unwrap();
            let p = std::hint::black_box(std::alloc::alloc(l));
            let p = std::hint::black_box(std::alloc::realloc(p, l, 2 * size.max(1) as usize));
            std::alloc::dealloc(p, std::alloc::Layout::from_size_align(2 * size.max(1) as usize, 1).unwrap());
        }
    }
}

pub trait Val: Send + Sync + 'static {
    fn make(id: u64) -> Self;
    fn id(&self) -> u64;
}

pub struct ZN;
pub struct ZD;
pub struct SN(pub u64);
pub struct SD(pub u64);
pub struct OZN;
pub struct OZD;
pub struct OSN(pub u64);
pub struct OSD(pub u64);

macro_rules! val {
    ($t:ident, zst) => {
        impl Val for $t {
            fn make(_id: u64) -> Self { $t }
            fn id(&self) -> u64 { 0 }
        }
    };
    ($t:ident, sized) => {
        impl Val for $t {
            fn make(id: u64) -> Self { $t(id) }
            fn id(&self) -> u64 { self.0 }
        }
    };
}
val!(ZN, zst);
val!(ZD, zst);
val!(SN, sized);
val!(SD, sized);
val!(OZN, zst);
val!(OZD, zst);
val!(OSN, sized);
val!(OSD, sized);

fn on_drop(kind: u8, id: u64) {
    let s = script();
    vclock::log(kind, id, 0);
    churn(s.drop_allocs, s.alloc_size);
    vclock::advance(if kind == EV_DROP_IN { s.drop_in_cost } else { s.drop_out_cost });
}
impl Drop for ZD {
    fn drop(&mut self) { on_drop(EV_DROP_IN, 0) }
}
impl Drop for SD {
    fn drop(&mut self) { on_drop(EV_DROP_IN, self.0) }
}
impl Drop for OZD {
    fn drop(&mut self) { on_drop(EV_DROP_OUT, 0) }
}
impl Drop for OSD {
    fn drop(&mut self) { on_drop(EV_DROP_OUT, self.0) }
}

fn make_input<I: Val>() -> I {
    let s = script();
    let t = vclock::thread_index();
    let id = NEXT_ID[t].fetch_add(1, SeqCst);
    vclock::log(EV_GEN, id, 0);
    if s.gpanic_thread == t as i64 && s.gpanic_id == id as i64 {
        PANICS.fetch_add(1, SeqCst);
        panic!("scripted generator panic");
    }
    churn(s.gen_allocs, s.alloc_size);
    vclock::advance(s.gen_cost + t as u64 * s.skew_gen);
    I::make(id)
}

/// The benchmarked function: logs the call, burns scripted time and
/// allocations, may panic, and produces an output carrying the input's id.
fn call<O: Val>(input_id: u64) -> O {
    let s = script();
    let t = vclock::thread_index();
    let j = NEXT_CALL[t].fetch_add(1, SeqCst);
    vclock::log(EV_CALL, input_id, j);
    if s.panic_thread == t as i64 && s.panic_call == j as i64 {
        PANICS.fetch_add(1, SeqCst);
        panic!("scripted panic");
    }
    if s.zero_realloc {
        unsafe {
            let l = std::alloc::Layout::from_size_align(32, 1).unwrap();
            let p = BLOCKS[t].load(SeqCst);
            let p = std::hint::black_box(std::alloc::realloc(p, l, 32));
            BLOCKS[t].store(p, SeqCst);
        }
    } else if s.lazy_calls == 0 || j < s.lazy_calls {
        churn(s.call_allocs, s.alloc_size + j);
    }
    vclock::advance(s.call_cost + s.call_slope * j + (s.threads - 1 - (t as u64).min(s.threads - 1)) * s.skew_call);
    O::make(input_id)
}

fn run_ep<I: Val, O: Val>(ep: &str, counter: u8, b: Bencher) {
    let count = |v: &I| {
        vclock::log(EV_COUNT, v.id(), 0);
        divan::counter::ItemsCount::new(3 + v.id() % 5)
    };
    // a second input counter, of another kind (bytes come before items in divan's own order)
    let count_b = |v: &I| {
        vclock::log(EV_COUNT, v.id(), 1);
        divan::counter::BytesCount::new(7 + v.id() % 3)
    };
    if counter == 2 {
        match ep {
            "values" => {
                return b.with_inputs(make_input::<I>).input_counter(count_b).input_counter(count).bench_values(|i: I| {
                    let id = i.id();
                    std::mem::forget(i);
                    call::<O>(id)
                })
            }
            "refs" => {
                return b.with_inputs(make_input::<I>).input_counter(count_b).input_counter(count).bench_refs(|i: &mut I| call::<O>(i.id()))
            }
            "local_values" => {
                return b.with_inputs(make_input::<I>).input_counter(count_b).input_counter(count).bench_local_values(|i: I| {
                    let id = i.id();
                    std::mem::forget(i);
                    call::<O>(id)
                })
            }
            "local_refs" => {
                return b
                    .with_inputs(make_input::<I>)
                    .input_counter(count_b)
                    .input_counter(count)
                    .bench_local_refs(|i: &mut I| call::<O>(i.id()))
            }
            _ => {}
        }
    }
    // ic = 7: a constant counter of the same kind set *after* the input counter ("override an existing
    // counter of the same type", as `Bencher::counter` documents): the constant must be what is reported
    if counter == 7 {
        let c = || divan::counter::ItemsCount::new(1000u64);
        match ep {
            "values" => {
                return b.with_inputs(make_input::<I>).input_counter(count).counter(c()).bench_values(|i: I| {
                    let id = i.id();
                    std::mem::forget(i);
                    call::<O>(id)
                })
            }
            "refs" => return b.with_inputs(make_input::<I>).input_counter(count).counter(c()).bench_refs(|i: &mut I| call::<O>(i.id())),
            "local_values" => {
                return b.with_inputs(make_input::<I>).input_counter(count).counter(c()).bench_local_values(|i: I| {
                    let id = i.id();
                    std::mem::forget(i);
                    call::<O>(id)
                })
            }
            "local_refs" => {
                return b.with_inputs(make_input::<I>).input_counter(count).counter(c()).bench_local_refs(|i: &mut I| call::<O>(i.id()))
            }
            _ => {}
        }
    }
    // `count_inputs_as::<C>()`: integer inputs counted by conversion (no closure, so no count event);
    // ic = 3, 4, 5, 6 ask for bytes, chars, cycles, items. The input is its own id.
    if counter >= 3 {
        fn gen_u() -> u64 {
            make_input::<SN>().0
        }
        macro_rules! cia {
            ($c:ty) => {
                match ep {
                    "values" => return b.with_inputs(gen_u).count_inputs_as::<$c>().bench_values(|v: u64| call::<O>(v)),
                    "refs" => return b.with_inputs(gen_u).count_inputs_as::<$c>().bench_refs(|v: &mut u64| call::<O>(*v)),
                    "local_values" => {
                        return b.with_inputs(gen_u).count_inputs_as::<$c>().bench_local_values(|v: u64| call::<O>(v))
                    }
                    "local_refs" => {
                        return b.with_inputs(gen_u).count_inputs_as::<$c>().bench_local_refs(|v: &mut u64| call::<O>(*v))
                    }
                    _ => {}
                }
            };
        }
        match counter {
            3 => cia!(divan::counter::BytesCount),
            4 => cia!(divan::counter::CharsCount),
            5 => cia!(divan::counter::CyclesCount),
            _ => cia!(divan::counter::ItemsCount),
        }
    }
    let counter = counter != 0;
    match (ep, counter) {
        ("bench", _) => b.bench(|| call::<O>(0)),
        ("bench_local", _) => b.bench_local(|| call::<O>(0)),
        ("values", false) => b.with_inputs(make_input::<I>).bench_values(|i: I| {
            let id = i.id();
            std::mem::forget(i);
            call::<O>(id)
        }),
        ("values", true) => b.with_inputs(make_input::<I>).input_counter(count).bench_values(|i: I| {
            let id = i.id();
            std::mem::forget(i);
            call::<O>(id)
        }),
        ("refs", false) => b.with_inputs(make_input::<I>).bench_refs(|i: &mut I| call::<O>(i.id())),
        ("refs", true) => {
            b.with_inputs(make_input::<I>).input_counter(count).bench_refs(|i: &mut I| call::<O>(i.id()))
        }
        ("local_values", false) => b.with_inputs(make_input::<I>).bench_local_values(|i: I| {
            let id = i.id();
            std::mem::forget(i);
            call::<O>(id)
        }),
        ("local_values", true) => {
            b.with_inputs(make_input::<I>).input_counter(count).bench_local_values(|i: I| {
                let id = i.id();
                std::mem::forget(i);
                call::<O>(id)
            })
        }
        ("local_refs", false) => b.with_inputs(make_input::<I>).bench_local_refs(|i: &mut I| call::<O>(i.id())),
        ("local_refs", true) => {
            b.with_inputs(make_input::<I>).input_counter(count).bench_local_refs(|i: &mut I| call::<O>(i.id()))
        }
        _ => panic!("bad entry point {ep}"),
    }
}

fn dispatch(ep: &str, i: &str, o: &str, counter: u8, b: Bencher) {
    macro_rules! go {
        ($($it:ident $in:literal),* ; $($ot:ident $on:literal),*) => {
            go!(@outer [$($it $in),*] [$($ot $on),*])
        };
        (@outer [$($it:ident $in:literal),*] $outs:tt) => {
            $( if i == $in { go!(@inner $it $outs); return; } )*
        };
        (@inner $it:ident [$($ot:ident $on:literal),*]) => {
            $( if o == $on { return run_ep::<$it, $ot>(ep, counter, b); } )*
        };
    }
    go!(ZN "zn", ZD "zd", SN "sn", SD "sd" ; OZN "zn", OZD "zd", OSN "sn", OSD "sd");
    panic!("bad shapes {i} {o}");
}

static CALIBRATED: std::sync::OnceLock<u128> = std::sync::OnceLock::new();

fn fbits(v: f64) -> String {
    v.to_bits().to_string()
}

pub fn exec(toks: &[&str]) -> String {
    let mut kv = std::collections::HashMap::new();
    for t in toks {
        if let Some((k, v)) = t.split_once('=') {
            kv.insert(k, v);
        }
    }
    let get = |k: &str| kv.get(k).copied();
    let num = |k: &str| get(k).filter(|v| *v != "-").map(|v| v.parse::<u64>().unwrap());
    let prec: u64 = num("prec").unwrap_or(1);
    // `cold=1` is honoured on the first request of a process only: the
    // overhead calibration is then left to this very benchmark.
    let cold = get("cold") == Some("1");
    let p = *CALIBRATED.get_or_init(|| benchlab::calibrate(prec, !cold));
    assert_eq!(p, prec as u128, "one precision per process");

    let threads = num("T").unwrap_or(1) as usize;
    let is_test = get("mode") == Some("test");
    let mut options = BenchOptions::default();
    options.sample_count = num("sc").map(|v| v as u32);
    options.sample_size = num("ss").map(|v| v as u32);
    options.max_time = num("maxt").map(Duration::from_nanos);
    options.min_time = num("mint").map(Duration::from_nanos);
    options.skip_ext_time = num("sk").map(|v| v == 1);
    if let Some(c) = num("items") {
        options.counters.insert(divan::counter::ItemsCount::new(c));
    }
    let costs: Vec<u64> = get("cost").unwrap_or("0,0,0,0,0,0").split(',').map(|x| x.parse().unwrap()).collect();
    let allocs: Vec<u64> = get("alloc").unwrap_or("0,0,0,0").split(',').map(|x| x.parse().unwrap()).collect();
    let (pt, pc) = match get("panic") {
        Some(p) if p != "-" => {
            let (a, b) = p.split_once(':').unwrap();
            (a.parse().unwrap(), b.parse().unwrap())
        }
        _ => (-1, -1),
    };
    let (gt, gi) = match get("gpanic") {
        Some(p) if p != "-" => {
            let (a, b) = p.split_once(':').unwrap();
            (a.parse().unwrap(), b.parse().unwrap())
        }
        _ => (-1, -1),
    };
    let skew: Vec<u64> = get("skew").unwrap_or("0,0").split(',').map(|x| x.parse().unwrap()).collect();
    if get("zre") == Some("1") {
        prepare_blocks();
    }
    let ep_is_local = get("ep").unwrap_or("bench").contains("local");
    *SCRIPT.lock().unwrap_or_else(|e| e.into_inner()) = Script {
        gen_cost: costs[0],
        call_cost: costs[1],
        call_slope: costs[2],
        drop_in_cost: costs[3],
        drop_out_cost: costs[4],
        gen_allocs: allocs[0],
        call_allocs: allocs[1],
        drop_allocs: allocs[2],
        alloc_size: allocs[3],
        panic_thread: pt,
        panic_call: pc,
        gpanic_thread: gt,
        gpanic_id: gi,
        skew_gen: skew[0],
        skew_call: skew[1],
        lazy_calls: get("lazy").and_then(|v| v.parse().ok()).unwrap_or(0),
        zero_realloc: get("zre") == Some("1"),
        threads: if ep_is_local { 1 } else { threads as u64 },
    };
    for t in 0..vclock::MAX_THREADS {
        NEXT_ID[t].store(0, SeqCst);
        NEXT_CALL[t].store(0, SeqCst);
    }
    vclock::reset();
    vclock::READ_STEP.store(costs[5], SeqCst);
    vclock::ENABLED.store(true, SeqCst);

    let ep = get("ep").unwrap_or("bench").to_string();
    let (i, o) = (get("in").unwrap_or("zn").to_string(), get("out").unwrap_or("zn").to_string());
    let counter: u8 = get("ic").and_then(|v| v.parse().ok()).unwrap_or(0);

    // Watchdog: a run that does not return is reported, then the process ends
    // (the remaining requests of this invocation are lost).
    let done = std::sync::Arc::new(std::sync::atomic::AtomicBool::new(false));
    {
        let done = done.clone();
        let req = toks.join(" ");
        std::thread::spawn(move || {
            for _ in 0..200 {
                std::thread::sleep(Duration::from_millis(50));
                if done.load(SeqCst) {
                    return;
                }
            }
            // The main thread holds the stdout lock: write to the descriptor
            // directly.
            use std::io::Write;
            use std::os::fd::FromRawFd;
            let mut out = unsafe { std::fs::File::from_raw_fd(1) };
            let _ = writeln!(out, "bench {req}\thang");
            let _ = out.flush();
            std::mem::forget(out);
            std::process::exit(3);
        });
    }
    let result = std::panic::catch_unwind(std::panic::AssertUnwindSafe(|| {
        benchlab::bench_lab(is_test, &options, threads, &|b| dispatch(&ep, &i, &o, counter, b))
    }));
    done.store(true, SeqCst);
    vclock::ENABLED.store(false, SeqCst);
    let log = vclock::take_log();

    // Per-thread event sequences.
    let nthreads = log.iter().map(|e| e.thread as usize + 1).max().unwrap_or(1).max(1);
    let mut per: Vec<Vec<String>> = vec![Vec::new(); nthreads];
    for e in &log {
        let tok = match e.kind {
            vclock::EV_TS_START => format!("s{}", e.b),
            vclock::EV_TS_END => format!("e{}", e.b),
            EV_GEN => format!("g{}", e.a),
            EV_COUNT => format!("{}{}", if e.b == 1 { 'b' } else { 'c' }, e.a),
            EV_CALL => format!("k{}", e.a),
            EV_DROP_OUT => format!("o{}", e.a),
            EV_DROP_IN => format!("i{}", e.a),
            vclock::EV_BARRIER_ENTER => "W".into(),
            vclock::EV_BARRIER_LEAVE => "w".into(),
            _ => "?".into(),
        };
        per[e.thread as usize].push(tok);
    }
    // Cross-thread overlap (C08), evaluated on the global order: within each
    // round (rounds are delimited per thread by its start timestamps) no start
    // timestamp before every generation of that round, no drop before every
    // end timestamp of that round.
    let mut round = vec![0usize; nthreads];
    let mut seen_start = vec![false; nthreads];
    let mut evs: Vec<(usize, usize, u8)> = Vec::new(); // (round, thread, class) class: 0 gen/count, 1 start, 2 call, 3 end, 4 drop
    for (n, e) in log.iter().enumerate() {
        let t = e.thread as usize;
        // the very first read on thread 0 may be `initial_start`
        let is_initial = n == 0 && e.kind == vclock::EV_TS_START && options.skip_ext_time != Some(true);
        if is_initial {
            continue;
        }
        let class = match e.kind {
            EV_GEN | EV_COUNT => {
                if seen_start[t] {
                    round[t] += 1;
                    seen_start[t] = false;
                }
                0
            }
            vclock::EV_TS_START => {
                if seen_start[t] {
                    round[t] += 1;
                }
                seen_start[t] = true;
                1
            }
            EV_CALL => 2,
            vclock::EV_TS_END => 3,
            vclock::EV_BARRIER_ENTER | vclock::EV_BARRIER_LEAVE => continue,
            _ => 4,
        };
        evs.push((round[t], t, class));
    }
    let mut ov1 = true; // gen of round r on any thread precedes every start of round r
    let mut ov2 = true; // every end of round r precedes any drop of round r
    for (i, &(r, t, c)) in evs.iter().enumerate() {
        if c == 1 && evs[i + 1..].iter().any(|&(r2, t2, c2)| r2 == r && t2 != t && c2 == 0) {
            ov1 = false;
        }
        if c == 4 && evs[i + 1..].iter().any(|&(r2, t2, c2)| r2 == r && t2 != t && c2 == 3) {
            ov2 = false;
        }
    }

    let stats = match &result {
        Err(_) => "panic".to_string(),
        Ok(out) => match &out.stats {
            None => format!("D{}", out.did_run as u8),
            Some(s) => {
                let set = |v: &[f64; 4]| v.iter().map(|x| fbits(*x)).collect::<Vec<_>>().join(",");
                let mut parts = vec![
                    format!("D{}", out.did_run as u8),
                    format!("n{},{}", s.sample_count, s.iter_count),
                    format!("t{}", s.time.iter().map(|x| x.to_string()).collect::<Vec<_>>().join(",")),
                    format!("m{}/{}", set(&s.max_alloc.0), set(&s.max_alloc.1)),
                ];
                for (k, (c, z)) in s.alloc_tallies.iter().enumerate() {
                    parts.push(format!("a{k}:{}/{}", set(c), set(z)));
                }
                for (k, c) in s.counts.iter().enumerate() {
                    if let Some(c) = c {
                        parts.push(format!("c{k}:{}", c.iter().map(|x| x.to_string()).collect::<Vec<_>>().join(",")));
                    }
                }
                parts.join(" ")
            }
        },
    };
    let traces: Vec<String> = per.iter().enumerate().map(|(t, v)| format!("T{t}:{}", v.join(","))).collect();
    format!("{stats} | {} | V{}{}", traces.join(" "), ov1 as u8, ov2 as u8)
}

const SHAPES: [&str; 4] = ["zn", "zd", "sn", "sd"];

/// The same stream for the build whose `Barrier` is instrumented: every
/// request carries `bar=1` and the traces contain the waits.
pub fn gen_bar(rng: &mut Rng, n: usize, prec: u64) -> Vec<String> {
    gen(rng, n, prec).into_iter().map(|r| format!("{r} bar=1")).collect()
}

pub fn gen(rng: &mut Rng, n: usize, prec: u64) -> Vec<String> {
    let mut out = Vec::new();
    // First request of the process: an ordinary benchmark that also has to
    // pay for the one-time overhead calibration.
    let sk = 0;
    out.push(format!(
        "bench prec={prec} ep=bench in=zn out=zn mode=bench T=1 sc=3 ss=2 maxt=- mint=- sk={sk} ic=0 items=- cost=0,700,0,0,0,{} alloc=0,0,0,0 panic=- cold=1",
        1 + rng.below(9)
    ));
    while out.len() < n {
        let ep = *rng.pick(&["bench", "bench_local", "values", "refs", "local_values", "local_refs", "values", "refs"]);
        let mode = if rng.chance(1, 5) { "test" } else { "bench" };
        let t = if ep.contains("local") && rng.chance(1, 2) { 1 } else { [1, 1, 2, 3, 4][rng.below(5) as usize] };
        let tune = mode == "bench" && rng.chance(1, 4);
        let ss = if tune { "-".to_string() } else { [0u64, 1, 1, 2, 3, 7, 1, 2, 3, 4, 5, 2][rng.below(12) as usize].to_string() };
        let sc = match rng.below(20) {
            0..=2 => "-".to_string(),
            3 => "0".to_string(),
            _ => (1 + rng.below(12)).to_string(),
        };
        // costs in ticks (= ps): gen, call, slope, drop_in, drop_out, read
        let scale = [1u64, 10, 1000, 100_000][rng.below(4) as usize];
        let call = rng.below(50) * scale + if tune { prec * (1 + rng.below(40)) } else { 0 };
        let slope = if rng.chance(1, 2) { 0 } else { 1 + rng.below(20) * scale / 10 };
        let costs = [rng.below(30) * scale, call, slope, rng.below(10) * scale, rng.below(10) * scale, rng.below(4) * (scale / 10 + 1)];
        // time limits in ns
        let total_guess = (costs[1] + costs[0] + 20) * 40 / 1000 + 1;
        let maxt = match rng.below(18) {
            0 => "0".to_string(),
            1..=6 => (1 + rng.below(total_guess * 2 + 2)).to_string(),
            _ => "-".to_string(),
        };
        let mint = match rng.below(6) {
            0 => (rng.below(total_guess + 2)).to_string(),
            1 => "0".to_string(),
            _ => "-".to_string(),
        };
        let sk = ["-", "-", "0", "1", "1"][rng.below(5) as usize];
        // Varying allocations need distinct sample durations (slope > 0) so
        // that "the" fastest/slowest/median sample is unique.
        let allocs = if rng.chance(1, 2) {
            [0, 0, 0, 0]
        } else {
            [rng.below(3), 1 + rng.below(2), rng.below(3), 1 + rng.below(64)]
        };
        let slope = if allocs[1] > 0 && slope == 0 { 1 + rng.below(9) } else { slope };
        let costs = [costs[0], costs[1], slope, costs[3], costs[4], costs[5]];
        // min_time is reached only through the clock: bound the number of
        // rounds it can take on this cost script (a clock that no generation,
        // call or read advances would never get there - by the documented rule
        // itself; real clocks always advance).
        let mint = if mint != "-" {
            let m: u64 = mint.parse().unwrap();
            let with_inputs = ep != "bench" && ep != "bench_local";
            let per_round = if sk == "1" { costs[1].max(1000) } else { (if with_inputs { costs[0] } else { 0 }) + costs[1] + costs[5] };
            m.min(2000 * per_round / 1000).to_string()
        } else {
            mint
        };
        let ic: u8 = if ep != "bench" && ep != "bench_local" && rng.chance(1, 3) {
            if rng.chance(1, 4) { 3 + rng.below(4) as u8 } else if rng.chance(1, 6) { 7 } else { 1 + rng.chance(1, 3) as u8 }
        } else {
            0
        };
        // constant counters, now and then of a magnitude whose sums leave 64 bits
        let items = if rng.chance(1, 4) {
            if rng.chance(1, 5) {
                [1u64 << 63, (1u64 << 63) + 1 + rng.below(1000), u64::MAX, u64::MAX - 1 - rng.below(1000), (1u64 << 63) - 1][rng.below(5) as usize].to_string()
            } else {
                (1 + rng.below(100)).to_string()
            }
        } else {
            "-".into()
        };
        // counted by conversion: the inputs are plain integers, and no other counter is set
        let items = if ic >= 3 { "-".to_string() } else { items };
        let panic = if rng.chance(1, 8) { format!("{}:{}", rng.below(t as u64), rng.below(12)) } else { "-".into() };
        let has_inputs = ep != "bench" && ep != "bench_local";
        let gpanic = if has_inputs && panic == "-" && rng.chance(1, 10) { format!("{}:{}", rng.below(t as u64), rng.below(12)) } else { "-".into() };
        let skew = if t > 1 && rng.chance(1, 2) { format!("{},{}", rng.below(40) * scale, rng.below(40) * scale) } else { "0,0".into() };
        // lazy initialisation: only the first few calls of each thread allocate
        let lazy = if allocs[1] > 0 && rng.chance(1, 3) {
            format!(" lazy={}", [1u64, 1, 2, 3, 5, 9][rng.below(6) as usize])
        } else if allocs[1] == 0 && rng.chance(1, 6) {
            " zre=1".to_string()
        } else {
            String::new()
        };
        out.push(format!(
            "bench prec={prec} ep={ep} in={} out={} mode={mode} T={t} sc={sc} ss={ss} maxt={maxt} mint={mint} sk={sk} ic={} items={items} cost={} alloc={} panic={panic} gpanic={gpanic} skew={skew}{lazy}",
            { let sh = SHAPES[rng.below(4) as usize]; if ic >= 3 { "sn" } else { sh } },
            SHAPES[rng.below(4) as usize],
            ic,
            costs.iter().map(|c| c.to_string()).collect::<Vec<_>>().join(","),
            allocs.iter().map(|c| c.to_string()).collect::<Vec<_>>().join(","),
        ));
    }
    out
}
