use crate::rng::Rng;

pub mod alloc;
pub mod bench;
pub mod fmt;
pub mod mac;
pub mod paint;
pub mod reg;
pub mod sort;
pub mod tsc;

/// Generates `n` requests for `lab`.
pub fn gen(lab: &str, rng: &mut Rng, n: usize) -> Vec<String> {
    match lab {
        "tsc" => tsc::gen(rng, n),
        "alloc" => alloc::gen(rng, n),
        "fmt" => fmt::gen(rng, n),
        "reg" => reg::gen(rng, n),
        "mac" => mac::gen(rng, n),
        "paint" => paint::gen(rng, n),
        l if l.starts_with("bench-p") => bench::gen(rng, n, l["bench-p".len()..].parse().unwrap()),
        "ovw" => reg::gen_ovw(rng, n),
        "elist" => reg::gen_elist(rng, n),
        "sort" => sort::gen(rng, n),
        _ => panic!("unknown lab {lab}"),
    }
}

/// Executes one request against the real code.
pub fn exec(verb: &str, req: &str) -> String {
    let toks: Vec<&str> = req.split(' ').skip(1).collect();
    match verb {
        "tsc" | "tsc3" | "tscshift" | "dur" | "osdur" | "prec" | "precs" => tsc::exec(verb, &toks),
        "prof" | "tally" | "tallymt" => alloc::exec(verb, &toks),
        "fd" | "f64" | "bytes" | "thr" => fmt::exec(verb, &toks),
        "natcmp" | "natcmp3" | "argcmp" | "argsort" => sort::exec(verb, &toks),
        "reg" => reg::exec(verb, &toks),
        "mac" => mac::exec_batch(&[req.to_string()]).pop().unwrap(),
        "paint" => paint::exec(&toks),
        "bench" => bench::exec(&toks),
        "ovw" => reg::exec_ovw(&toks),
        "elist" => reg::exec_elist(&toks),
        _ => format!("bad-verb"),
    }
}

pub fn u64s(toks: &[&str]) -> Vec<u64> {
    toks.iter().map(|t| t.parse().unwrap()).collect()
}
