//! Macro lab (C12, C17; also C13-C16, C20 end to end): random benchmark
//! programs are rendered as Rust source using the real `#[divan::bench]` and
//! `#[divan::bench_group]` attribute macros, compiled (one cargo package, one
//! binary per program), and run under random front-end configurations. The
//! program travels in the request in the registry lab's item language plus a
//! hint token per item that fixes *how* each option was written (flag,
//! literal, expression, `#[ignore]`, by-value or by-reference argument ...).
//! What the macros registered (module path, names, location, options,
//! instantiation shape, constructor order) is dumped by the child and becomes
//! part of the observation, so the model is never told anything the macros
//! did not actually produce.

use super::reg::{collect, config, configure};
use crate::rng::{hex, unhex, Rng};
use std::collections::HashMap;
use std::path::{Path, PathBuf};
use std::process::Command;

const FN_NAMES: &[&str] = &[
    "bench", "bench1", "bench2", "bench10", "bench02", "a", "b", "z", "sort", "sort_unstable", "r#match",
    "r#fn", "r#type", "add", "mul", "x9", "x10", "from_iter", "über", "naïve", "日本", "B2", "Zed",
];
const MOD_NAMES: &[&str] =
    &["m", "m1", "m2", "m10", "util", "inner", "r#mod", "r#loop", "r#match", "r#type", "a", "bench", "zz", "ö", "Up"];
const DISPLAY: &[&str] = &["Custom", "custom name", "1", "02", "Ünï", "a::b", "x<y>", "bench", "r#raw", "q\"uote", "a,b"];
/// (names, allowed argument kinds)
const ARG_LISTS: &[(&[&str], &str)] = &[
    (&["0", "1", "2"], "i"),
    (&["10", "9", "1", "-3", "100"], "i"),
    (&["a", "b", "c"], "sSd"),
    (&["1.5", "0.25", "-2.5", "10"], "f"),
    (&["x1", "x10", "x2"], "sSd"),
    (&["true", "false"], "b"),
    (&["b", "a", "b"], "sS"),
    (&[""], "sS"),
    (&["é", "z", "日本"], "sSd"),
    (&["1", "1000", "100", "10"], "is"),
    (&["(1, 2)", "(1, 3)", "(2, 2)"], "sSd"),
];

fn type_table(root: &str) -> Vec<(&'static str, String)> {
    vec![
        ("u8", std::any::type_name::<u8>().to_string()),
        ("u16", std::any::type_name::<u16>().to_string()),
        ("i32", std::any::type_name::<i32>().to_string()),
        ("String", std::any::type_name::<String>().to_string()),
        ("Vec<u8>", std::any::type_name::<Vec<u8>>().to_string()),
        (
            "std::collections::HashMap<String, Vec<u8>>",
            std::any::type_name::<std::collections::HashMap<String, Vec<u8>>>().to_string(),
        ),
        ("crate::sup::ty_a::Foo", format!("{root}::sup::ty_a::Foo")),
        ("crate::sup::ty_b::Foo", format!("{root}::sup::ty_b::Foo")),
    ]
}

fn strip(raw: &str) -> &str {
    raw.strip_prefix("r#").unwrap_or(raw)
}

// ------------------------------------------------------------------ items

#[derive(Clone, Debug)]
struct Item {
    kind: char, // 'B' plain benchmark, 'g' bench_group module, 'G' generic benchmark
    path: String,
    raw: String,
    disp: String,
    opts: String,
    types: String,
    consts: String,
    args: String,
    hints: HashMap<String, String>,
}

impl Item {
    fn hint(&self, k: &str) -> &str {
        self.hints.get(k).map(|s| s.as_str()).unwrap_or("")
    }
    fn opt(&self, k: &str) -> Option<&str> {
        if self.opts == "-" {
            return None;
        }
        self.opts.split(',').filter_map(|kv| kv.split_once('=')).find(|(a, _)| *a == k).map(|(_, v)| v)
    }
    fn n_types(&self) -> Option<usize> {
        if self.types == "-" {
            None
        } else {
            Some(self.types.split(':').filter(|x| !x.is_empty()).count())
        }
    }
    fn const_list(&self) -> Option<(char, Vec<String>)> {
        if self.consts == "-" {
            return None;
        }
        let mut p = self.consts.split(':');
        let k = p.next().unwrap().chars().next().unwrap();
        Some((k, p.filter(|x| !x.is_empty()).map(|s| s.to_string()).collect()))
    }
    fn slots(&self) -> usize {
        match self.kind {
            'B' => 1,
            'G' => self.n_types().unwrap_or(1) * self.const_list().map(|c| c.1.len()).unwrap_or(1),
            _ => 0,
        }
    }
    fn arg_names(&self) -> Option<Vec<String>> {
        match self.args.as_str() {
            "-" => None,
            "=" => Some(vec![]),
            a => Some(a.split(',').map(|t| unhex(t.split('~').next().unwrap())).collect()),
        }
    }
    fn to_tokens(&self, file: &str, line: u32) -> String {
        let mut h: Vec<String> = self.hints.iter().map(|(k, v)| format!("{k}={v}")).collect();
        h.sort();
        let h = if h.is_empty() { "h=0".to_string() } else { h.join(";") };
        let head = format!(
            "{} {} {} {} {line} 1 {}",
            hex(&self.path),
            hex(&self.raw),
            hex(&self.disp),
            hex(file),
            self.opts
        );
        match self.kind {
            'B' => format!("B {head} {} {h}", self.args),
            'g' => format!("G {head} - - - {h}"),
            _ => format!("G {head} {} {} {} {h}", self.types, self.consts, self.args),
        }
    }
}

fn parse_items(groups: &[Vec<&str>]) -> Vec<Item> {
    let hints = |t: &str| -> HashMap<String, String> {
        t.split(';').filter_map(|kv| kv.split_once('=')).map(|(k, v)| (k.to_string(), v.to_string())).collect()
    };
    groups
        .iter()
        .filter(|g| !g.is_empty())
        .map(|t| {
            let base = |kind| Item {
                kind,
                path: unhex(t[1]),
                raw: unhex(t[2]),
                disp: unhex(t[3]),
                opts: t[7].to_string(),
                types: "-".into(),
                consts: "-".into(),
                args: "-".into(),
                hints: HashMap::new(),
            };
            match t[0] {
                "B" => Item { args: t[8].to_string(), hints: hints(t.get(9).copied().unwrap_or("")), ..base('B') },
                _ => {
                    let generic = t[8] != "-" || t[9] != "-";
                    Item {
                        types: t[8].to_string(),
                        consts: t[9].to_string(),
                        args: t[10].to_string(),
                        hints: hints(t.get(11).copied().unwrap_or("")),
                        ..base(if generic { 'G' } else { 'g' })
                    }
                }
            }
        })
        .collect()
}

// ------------------------------------------------------------------ rendering

fn lit_str(s: &str) -> String {
    format!("{s:?}")
}

fn render_opts(it: &Item) -> (Vec<String>, bool) {
    // returns the option list and whether a separate `#[ignore]` attribute is wanted
    let mut v = Vec::new();
    let mut ignore_attr = false;
    if it.disp != strip(&it.raw) || it.hint("nm") == "1" {
        v.push(format!("name = {}", lit_str(&it.disp)));
    }
    if let Some(n) = it.opt("sc") {
        v.push(format!("sample_count = {n}"));
    }
    if let Some(n) = it.opt("ss") {
        v.push(format!("sample_size = {n}"));
    }
    if let Some(th) = it.opt("th") {
        let list: Vec<&str> = th.split(':').filter(|x| !x.is_empty()).collect();
        match it.hint("tf") {
            "n" => v.push(format!("threads = {}", list[0])),
            "t" => v.push("threads".into()),
            "b" => v.push(format!("threads = {}", if list[0] == "0" { "true" } else { "false" })),
            "e" => {
                let raw: Vec<&str> = it.hint("traw").split(':').filter(|x| !x.is_empty()).collect();
                v.push(format!("threads = vec![{}]", raw.join(", ")));
            }
            _ => v.push(format!("threads = [{}]", list.join(", "))),
        }
    }
    if let Some(b) = it.opt("ig") {
        match it.hint("igf") {
            "a" => ignore_attr = true,
            "f" => v.push("ignore".into()),
            _ => v.push(format!("ignore = {}", b == "1")),
        }
    }
    for (k, name) in [("maxt", "max_time"), ("mint", "min_time")] {
        if let Some(ns) = it.opt(k) {
            let ns: u64 = ns.parse().unwrap();
            match it.hint("mxf") {
                "s" if ns % 1_000_000_000 == 0 => v.push(format!("{name} = {}", ns / 1_000_000_000)),
                "f" if ns % 1_000_000_000 == 0 => v.push(format!("{name} = {}.0", ns / 1_000_000_000)),
                _ => v.push(format!("{name} = std::time::Duration::from_nanos({ns})")),
            }
        }
    }
    if let Some(b) = it.opt("sk") {
        if it.hint("skf") == "f" && b == "1" {
            v.push("skip_ext_time".into());
        } else {
            v.push(format!("skip_ext_time = {}", b == "1"));
        }
    }
    let counters: Vec<(&str, &str, &str)> = [
        ("items", "items_count", "ItemsCount"),
        ("bytes", "bytes_count", "BytesCount"),
        ("chars", "chars_count", "CharsCount"),
        ("cycles", "cycles_count", "CyclesCount"),
    ]
    .into_iter()
    .filter(|(k, _, _)| it.opt(k).is_some())
    .collect();
    if !counters.is_empty() {
        match it.hint("cf") {
            "l" => v.push(format!(
                "counters = [{}]",
                counters.iter().map(|(k, _, ty)| format!("divan::counter::{ty}::new({}u64)", it.opt(k).unwrap())).collect::<Vec<_>>().join(", ")
            )),
            "s" if counters.len() == 1 => {
                let (k, _, ty) = counters[0];
                v.push(format!("counter = divan::counter::{ty}::new({}usize)", it.opt(k).unwrap()));
            }
            _ => {
                for (k, name, _) in &counters {
                    v.push(format!("{name} = {}u32", it.opt(k).unwrap()));
                }
            }
        }
    }
    (v, ignore_attr)
}

fn arg_lit(kind: &str, name: &str, first: bool) -> String {
    match kind {
        "s" => lit_str(name),
        "S" => format!("{}.to_string()", lit_str(name)),
        "i" => {
            if first {
                format!("{name}i32")
            } else {
                name.to_string()
            }
        }
        "f" => format!("{name}f64"),
        "b" => name.to_string(),
        _ => format!("crate::sup::D({})", lit_str(name)),
    }
}

/// (element type of the args expression, parameter type) for a kind / form / passing mode
fn arg_types(kind: &str, form: &str, by_ref: bool) -> (&'static str, String) {
    let elem = match kind {
        "s" => "&'static str",
        "S" => "String",
        "i" => "i32",
        "f" => "f64",
        "b" => "bool",
        _ => "crate::sup::D",
    };
    let _ = form;
    let param = match (kind, by_ref) {
        ("s", false) => "&str".to_string(),
        ("s", true) => "&&str".to_string(),
        ("S", false) => "&str".to_string(),
        ("S", true) => "&String".to_string(),
        ("d", _) => "&crate::sup::D".to_string(),
        (_, false) => elem.to_string(),
        (_, true) => format!("&{elem}"),
    };
    (elem, param)
}

/// Source text plus, per item, the lines of its attribute and of the item itself.
fn render(root: &str, items: &[Item], decoy: bool) -> (String, Vec<(u32, u32)>) {
    let mut src = String::new();
    src.push_str("#![allow(warnings)]\n#[path = \"../sup.rs\"]\nmod sup;\nfn main() {\n    sup::main()\n}\n");
    let mut lines = vec![(0u32, 0u32); items.len()];
    let mut base = vec![0usize; items.len()];
    let mut s = 0;
    for (i, it) in items.iter().enumerate() {
        base[i] = s;
        s += it.slots();
    }
    let types = type_table(root);
    fn line_no(src: &str) -> u32 {
        src.matches('\n').count() as u32 + 1
    }
    // Recursive emission; `path` is the module path as `module_path!()` spells it.
    fn emit(
        path: &str,
        depth: usize,
        items: &[Item],
        base: &[usize],
        types: &[(&'static str, String)],
        src: &mut String,
        lines: &mut [(u32, u32)],
        decoy: bool,
    ) {
        let ind = "    ".repeat(depth);
        for (i, it) in items.iter().enumerate() {
            if it.path != path || it.kind == 'g' {
                continue;
            }
            let (mut opts, ignore_attr) = render_opts(it);
            let slot0 = base[i];
            let names = it.arg_names();
            let kind = it.hint("ak");
            let form = it.hint("af");
            let by_ref = it.hint("ap") == "r";
            let mut params: Vec<String> = Vec::new();
            let with_bencher = it.hint("fb") != "0";
            if with_bencher {
                params.push("bencher: divan::Bencher".into());
            }
            let mut show = "None".to_string();
            if let Some(names) = &names {
                let (elem, param) = arg_types(kind, form, by_ref);
                let lits: Vec<String> = names.iter().enumerate().map(|(k, n)| arg_lit(kind, n, k == 0)).collect();
                let expr = if names.is_empty() {
                    format!("let v: [{elem}; 0] = []; v")
                } else {
                    match form {
                        "v" => format!("vec![{}]", lits.join(", ")),
                        "r" => format!("&[{}]", lits.join(", ")),
                        "i" => format!("vec![{}].into_iter()", lits.join(", ")),
                        _ => format!("[{}]", lits.join(", ")),
                    }
                };
                opts.push(format!("args = {{ crate::sup::EV[{slot0}].fetch_add(1, std::sync::atomic::Ordering::SeqCst); {expr} }}"));
                params.push(format!("arg: {param}"));
                show = if kind == "d" { "Some(format!(\"{:?}\", arg))".into() } else { "Some(arg.to_string())".into() };
            }
            let mut generics: Vec<String> = Vec::new();
            let mut slot_expr = format!("{slot0}");
            if it.kind == 'G' {
                let nc = it.const_list().map(|c| c.1.len()).unwrap_or(1);
                let mut tparam = None;
                let mut cparam = None;
                if it.types != "-" {
                    let tys: Vec<usize> = it
                        .types
                        .split(':')
                        .filter(|x| !x.is_empty())
                        .map(|t| t.split('~').next().unwrap().parse().unwrap())
                        .collect();
                    opts.push(format!("types = [{}]", tys.iter().map(|t| types[*t].0).collect::<Vec<_>>().join(", ")));
                    tparam = Some("T: 'static".to_string());
                    slot_expr.push_str(&format!(
                        " + crate::sup::ti::<T>(&[{}]) * {nc}",
                        tys.iter().map(|t| format!("std::any::TypeId::of::<{}>()", types[*t].0)).collect::<Vec<_>>().join(", ")
                    ));
                }
                if let Some((k, vals)) = it.const_list() {
                    let cty = if k == 'c' { "char" } else { it.hint("ct") };
                    let cty = if cty.is_empty() { "i64" } else { cty };
                    let lits: Vec<String> =
                        vals.iter().map(|v| if k == 'c' { format!("{:?}", unhex(v).chars().next().unwrap()) } else { v.clone() }).collect();
                    if it.hint("cf2") == "x" {
                        src.push_str(&format!("{ind}const CS_I{i}: [{cty}; {}] = [{}];\n", lits.len(), lits.join(", ")));
                        opts.push(format!("consts = CS_I{i}"));
                    } else {
                        opts.push(format!("consts = [{}]", lits.join(", ")));
                    }
                    cparam = Some(format!("const N: {cty}"));
                    let typed: Vec<String> = lits.iter().map(|l| format!("{l} as {cty}")).collect();
                    let typed = if k == 'c' { lits.clone() } else { typed };
                    slot_expr.push_str(&format!(" + crate::sup::ci::<{cty}>(&[{}], N)", typed.join(", ")));
                }
                match (tparam, cparam) {
                    (Some(t), Some(c)) => {
                        if it.hint("go") == "ct" {
                            generics = vec![c, t]
                        } else {
                            generics = vec![t, c]
                        }
                    }
                    (Some(t), None) => generics = vec![t],
                    (None, Some(c)) => generics = vec![c],
                    _ => {}
                }
            }
            // a benchmark declared inside a function body registers like any other
            let nested = it.hint("nest") == "1";
            let outer = ind.clone();
            let ind = if nested {
                src.push_str(&format!("{outer}pub fn holder_{i}() {{\n"));
                format!("{outer}    ")
            } else {
                ind.clone()
            };
            let attr_line = line_no(src);
            src.push_str(&format!(
                "{ind}#[divan::bench{}]\n",
                if opts.is_empty() { String::new() } else { format!("({})", opts.join(", ")) }
            ));
            if ignore_attr {
                src.push_str(&format!("{ind}#[ignore]\n"));
            }
            let fn_line = line_no(src);
            let g = if generics.is_empty() { String::new() } else { format!("<{}>", generics.join(", ")) };
            let returns_out = !with_bencher && it.hint("ret") == "1";
            let body = if with_bencher {
                format!("crate::sup::run_slot({slot_expr}, {show}, bencher)")
            } else if returns_out {
                format!("crate::sup::call_out({slot_expr}, {show})")
            } else {
                format!("crate::sup::call({slot_expr}, {show})")
            };
            let abi = if it.hint("abi") == "C" { "extern \"C\" " } else { "" };
            let ret = if returns_out { " -> crate::sup::Out" } else { "" };
            src.push_str(&format!("{ind}pub {abi}fn {}{g}({}){ret} {{\n{ind}    {body}\n{ind}}}\n", it.raw, params.join(", ")));
            if nested {
                src.push_str(&format!("{outer}}}\n"));
            }
            lines[i] = (attr_line, fn_line);
        }
        if decoy && depth == 0 {
            // Generic benchmarks over an empty list register nothing.
            src.push_str("#[divan::bench(types = [])]\npub fn decoy_t<T>() {}\n#[divan::bench(consts = [])]\npub fn decoy_c<const N: u8>() {}\n");
        }
        // child modules in order of first appearance
        let mut children: Vec<String> = Vec::new();
        for it in items {
            let full = if it.kind == 'g' { format!("{}::{}", it.path, it.raw) } else { it.path.clone() };
            if let Some(rest) = full.strip_prefix(path).and_then(|r| r.strip_prefix("::")) {
                let c = rest.split("::").next().unwrap().to_string();
                if !children.contains(&c) {
                    children.push(c);
                }
            }
        }
        for c in children {
            if let Some((i, it)) = items.iter().enumerate().find(|(_, it)| it.kind == 'g' && it.path == path && it.raw == c) {
                let (opts, ignore_attr) = render_opts(it);
                let attr_line = line_no(src);
                src.push_str(&format!(
                    "{ind}#[divan::bench_group{}]\n",
                    if opts.is_empty() { String::new() } else { format!("({})", opts.join(", ")) }
                ));
                if ignore_attr {
                    src.push_str(&format!("{ind}#[ignore]\n"));
                }
                lines[i] = (attr_line, line_no(src));
            }
            src.push_str(&format!("{ind}pub mod {c} {{\n"));
            emit(&format!("{path}::{c}"), depth + 1, items, base, types, src, lines, decoy);
            src.push_str(&format!("{ind}}}\n"));
        }
    }
    emit(root, 0, items, &base, &types, &mut src, &mut lines, decoy);
    (src, lines)
}

// ------------------------------------------------------------------ generator

struct Gen<'a> {
    rng: &'a mut Rng,
    root: String,
    items: Vec<Item>,
    paths: Vec<String>,
    slots: usize,
    bench_mode: bool,
    names_with_spaces: bool,
}

const MAX_SLOTS: usize = 96;

impl Gen<'_> {
    fn opts(&mut self, is_group: bool, hints: &mut HashMap<String, String>) -> String {
        if self.rng.chance(1, 3) {
            return "-".into();
        }
        let mut v = Vec::new();
        if self.rng.chance(1, 3) {
            v.push(format!("sc={}", 1 + self.rng.below(4)));
        }
        if self.rng.chance(1, 3) {
            v.push(format!("ss={}", 1 + self.rng.below(3)));
        }
        if self.rng.chance(1, 3) {
            let n = 1 + self.rng.below(3);
            let raw: Vec<u64> = (0..n).map(|_| [1u64, 1, 2, 3, 2, 0][self.rng.below(if self.bench_mode { 5 } else { 6 }) as usize]).collect();
            let join = |l: &[u64]| l.iter().map(|x| x.to_string()).collect::<Vec<_>>().join(":");
            let form = match self.rng.below(6) {
                0 if raw.len() == 1 => "n",
                1 if raw == [0] => "t",
                2 if raw == [0] || raw == [1] => "b",
                3 | 4 => "e",
                _ => "l",
            };
            hints.insert("tf".into(), form.into());
            if form == "e" {
                // a non-literal expression goes through IntoThreads: sorted, deduplicated
                let mut s = raw.clone();
                s.sort_unstable();
                s.dedup();
                hints.insert("traw".into(), join(&raw));
                v.push(format!("th={}", join(&s)));
            } else {
                v.push(format!("th={}", join(&raw)));
            }
        }
        if self.rng.chance(1, if is_group { 3 } else { 4 }) {
            let b = self.rng.below(2);
            v.push(format!("ig={b}"));
            let f = if b == 1 { ["a", "f", "e"][self.rng.below(3) as usize] } else { "e" };
            hints.insert("igf".into(), f.into());
        }
        if self.rng.chance(1, 8) {
            v.push("maxt=30000000000".into());
            hints.insert("mxf".into(), ["s", "f", "d"][self.rng.below(3) as usize].into());
        }
        if self.rng.chance(1, 8) {
            v.push("mint=0".into());
            hints.entry("mxf".into()).or_insert_with(|| "d".into());
        }
        if self.rng.chance(1, 6) {
            let b = self.rng.below(2);
            v.push(format!("sk={b}"));
            hints.insert("skf".into(), if b == 1 && self.rng.chance(1, 2) { "f" } else { "e" }.into());
        }
        let mut any = false;
        for k in ["items", "bytes", "chars", "cycles"] {
            if self.rng.chance(1, 6) {
                v.push(format!("{k}={}", 1 + self.rng.below(1000)));
                any = true;
            }
        }
        if any {
            hints.insert("cf".into(), ["o", "l", "s"][self.rng.below(3) as usize].into());
        }
        if v.is_empty() {
            return "-".into();
        }
        v.join(",")
    }

    fn display(&mut self, raw: &str, hints: &mut HashMap<String, String>) -> String {
        if self.rng.chance(1, 5) {
            let d = *self.rng.pick(DISPLAY);
            if d.contains(' ') && !self.names_with_spaces {
                return d.replace(' ', "_");
            }
            d.to_string()
        } else {
            if self.rng.chance(1, 10) {
                hints.insert("nm".into(), "1".into()); // the default name, written out
            }
            strip(raw).to_string()
        }
    }

    fn args(&mut self, hints: &mut HashMap<String, String>) -> String {
        let tok = |s: &str| {
            let fb = match s.parse::<f64>() {
                Ok(f) => f.to_bits().to_string(),
                Err(_) => "n".into(),
            };
            format!("{}~{fb}", hex(s))
        };
        let forms = ["a", "a", "v", "r", "i"];
        match self.rng.below(12) {
            0 => {
                hints.insert("ak".into(), "i".into());
                hints.insert("af".into(), "a".into());
                "=".into()
            }
            1 => {
                let n = 1 + self.rng.below(30);
                hints.insert("ak".into(), "i".into());
                hints.insert("af".into(), (*self.rng.pick(&forms)).into());
                hints.insert("ap".into(), ["v", "r"][self.rng.below(2) as usize].into());
                (0..n).map(|i| tok(&(i * 7 % 31).to_string())).collect::<Vec<_>>().join(",")
            }
            _ => {
                let (names, kinds) = *self.rng.pick(ARG_LISTS);
                let k = kinds.chars().nth(self.rng.below(kinds.len() as u64) as usize).unwrap().to_string();
                let mut f = *self.rng.pick(&forms);
                if f == "r" && (k == "S" || k == "d") {
                    f = "v";
                }
                hints.insert("ak".into(), k);
                hints.insert("af".into(), f.into());
                hints.insert("ap".into(), ["v", "r"][self.rng.below(2) as usize].into());
                names.iter().map(|s| tok(s)).collect::<Vec<_>>().join(",")
            }
        }
    }

    fn module(&mut self, path: &str, disp_path: &str, depth: u32) {
        let n_fns = if self.rng.chance(1, 12) { 6 + self.rng.below(8) as usize } else { self.rng.below(if depth == 0 { 4 } else { 5 }) as usize };
        let n_mods = if depth >= 3 {
            0
        } else if self.rng.chance(1, 12) {
            6 + self.rng.below(6) as usize
        } else {
            self.rng.below(if depth == 0 { 4 } else { 3 }) as usize
        };
        // names: unique up to case (the macros derive `__DIVAN_BENCH_<UPPER>` statics)
        let mut mods: Vec<&str> = Vec::new();
        for _ in 0..n_mods {
            let m = *self.rng.pick(MOD_NAMES);
            if !mods.iter().any(|x| strip(x).to_uppercase() == strip(m).to_uppercase()) {
                mods.push(m);
            }
        }
        let mut fns: Vec<&str> = Vec::new();
        for _ in 0..n_fns {
            let f = *self.rng.pick(FN_NAMES);
            if !fns.iter().any(|x| strip(x).to_uppercase() == strip(f).to_uppercase()) {
                fns.push(f);
            }
        }
        for f in fns {
            let mut hints = HashMap::new();
            let disp = self.display(f, &mut hints);
            let opts = self.opts(false, &mut hints);
            let clash = mods.iter().any(|m| strip(m) == strip(f));
            let choice = self.rng.below(10);
            hints.insert("fb".into(), if self.rng.chance(1, 4) { "0" } else { "1" }.into());
            if hints.get("fb").map(|s| s.as_str()) == Some("0") && self.rng.chance(1, 2) {
                // the function returns a value with a destructor
                hints.insert("ret".into(), "1".into());
            }
            if self.rng.chance(1, 8) {
                hints.insert("nest".into(), "1".into());
            }
            if self.rng.chance(1, 8) {
                hints.insert("abi".into(), "C".into());
            }
            let mk = |kind, types: String, consts: String, args: String, hints| Item {
                kind,
                path: path.to_string(),
                raw: f.to_string(),
                disp: disp.clone(),
                opts: opts.clone(),
                types,
                consts,
                args,
                hints,
            };
            if choice <= 4 || (clash && choice > 6) {
                if self.slots + 1 > MAX_SLOTS {
                    continue;
                }
                self.slots += 1;
                self.items.push(mk('B', "-".into(), "-".into(), "-".into(), hints));
                self.paths.push(format!("{disp_path}::{disp}"));
            } else if choice <= 6 {
                if self.slots + 1 > MAX_SLOTS {
                    continue;
                }
                self.slots += 1;
                let a = self.args(&mut hints);
                if a != "=" {
                    if let Some(first) = a.split(',').next() {
                        self.paths.push(format!("{disp_path}::{disp}::{}", unhex(first.split('~').next().unwrap())));
                    }
                }
                self.items.push(mk('B', "-".into(), "-".into(), a, hints));
                self.paths.push(format!("{disp_path}::{disp}"));
            } else {
                // generic benchmark: types and/or consts
                let table = type_table(&self.root);
                let with_t = self.rng.chance(2, 3);
                let with_c = !with_t || self.rng.chance(1, 2);
                let mut tys: Vec<usize> = Vec::new();
                if with_t {
                    // an empty list only next to consts (alone it registers nothing: the decoy covers that)
                    let n = if with_c { self.rng.below(4) } else { 1 + self.rng.below(3) } as usize;
                    for _ in 0..n {
                        let t = self.rng.below(table.len() as u64 - 1) as usize; // never both `Foo`s
                        if !tys.contains(&t) {
                            tys.push(t);
                        }
                    }
                }
                let consts: (char, Vec<String>) = if with_c {
                    match self.rng.below(3) {
                        0 | 1 => {
                            // the last but one: as many as an external const list may hold (20)
                            const TWENTY: &[&str] = &["0", "1", "2", "3", "4", "5", "6", "7", "8", "9", "10", "11", "12", "13", "14", "15", "16", "17", "18", "19"];
                            let lists: [&[&str]; 6] = [&["1", "2", "4"], &["16", "4", "-1", "100"], &["0"], &["-5", "3", "-10", "0", "-1", "20"], TWENTY, &[]];
                            let pick = self.rng.below(if with_t { 12 } else { 10 }) as usize;
                            let l = if pick >= 10 { lists[5] } else if pick == 9 && !with_t { lists[4] } else { lists[pick % 4] };
                            let signed = l.iter().any(|x| x.starts_with('-'));
                            let small = l.iter().all(|x| x.parse::<i64>().unwrap() >= 0 && x.parse::<i64>().unwrap() < 256);
                            let cts: &[&str] = if signed { &["i64", "i32", "isize"] } else if small { &["i64", "u8", "usize", "u32"] } else { &["i64"] };
                            hints.insert("ct".into(), (*self.rng.pick(cts)).into());
                            ('i', l.iter().map(|s| s.to_string()).collect())
                        }
                        _ => ('c', vec![hex("x"), hex("é"), hex("A")]),
                    }
                } else {
                    ('-', vec![])
                };
                if with_c && self.rng.chance(1, 3) && !consts.1.is_empty() {
                    hints.insert("cf2".into(), "x".into());
                }
                if with_t && with_c {
                    hints.insert("go".into(), ["tc", "ct"][self.rng.below(2) as usize].into());
                }
                let inst = (if with_t { tys.len() } else { 1 }) * (if with_c { consts.1.len() } else { 1 });
                if self.slots + inst > MAX_SLOTS {
                    continue;
                }
                self.slots += inst;
                let a = if self.rng.chance(1, 3) { self.args(&mut hints) } else { "-".into() };
                let ts = if with_t {
                    if tys.is_empty() {
                        ":".to_string()
                    } else {
                        tys.iter().map(|t| format!("{t}~{}", hex(&table[*t].1))).collect::<Vec<_>>().join(":")
                    }
                } else {
                    "-".into()
                };
                let cs = if with_c { format!("{}:{}", consts.0, consts.1.join(":")) } else { "-".into() };
                self.items.push(mk('G', ts, cs, a, hints));
                self.paths.push(format!("{disp_path}::{disp}"));
            }
        }
        for m in mods {
            // a generic function and a module of the same name share a tree node (finding F7,
            // exercised by the registry lab): not generated here
            if self.items.iter().any(|it| it.kind == 'G' && it.path == path && strip(&it.raw) == strip(m)) {
                continue;
            }
            let mut dm = strip(m).to_string();
            if self.rng.chance(1, 2) {
                let mut hints = HashMap::new();
                let disp = self.display(m, &mut hints);
                let opts = self.opts(true, &mut hints);
                dm = disp.clone();
                self.items.push(Item {
                    kind: 'g',
                    path: path.to_string(),
                    raw: m.to_string(),
                    disp: disp.clone(),
                    opts,
                    types: "-".into(),
                    consts: "-".into(),
                    args: "-".into(),
                    hints,
                });
                self.paths.push(format!("{disp_path}::{disp}"));
            }
            self.module(&format!("{path}::{m}"), &format!("{disp_path}::{dm}"), depth + 1);
        }
    }
}

fn ret_slots(items: &[Item]) -> Vec<usize> {
    let mut v = Vec::new();
    let mut s = 0;
    for it in items {
        let n = it.slots();
        if it.hint("fb") == "0" && it.hint("ret") == "1" {
            v.extend(s..s + n);
        }
        s += n;
    }
    v
}

fn nb_slots(items: &[Item]) -> Vec<usize> {
    let mut v = Vec::new();
    let mut s = 0;
    for it in items {
        let n = it.slots();
        if it.hint("fb") == "0" {
            v.extend(s..s + n);
        }
        s += n;
    }
    v
}

pub fn gen(rng: &mut Rng, n: usize) -> Vec<String> {
    // about `per` run configurations per compiled program
    let per = 24;
    let mut out = Vec::new();
    let mut k = 0;
    while out.len() < n {
        let root = format!("p{k}");
        k += 1;
        let mut g = Gen { rng, root: root.clone(), items: vec![], paths: vec![], slots: 0, bench_mode: false, names_with_spaces: false };
        let size = g.rng.below(4);
        g.module(&root, &root, if size == 0 { 2 } else { 0 });
        let items = std::mem::take(&mut g.items);
        let paths = std::mem::take(&mut g.paths);
        let decoy = rng.chance(1, 2);
        let file = format!("src/bin/{root}.rs");
        let (_, lines) = render(&root, &items, decoy);
        let text: Vec<String> = items.iter().zip(&lines).map(|(it, l)| it.to_tokens(&file, l.0)).collect();
        let nb = nb_slots(&items);
        let ro = ret_slots(&items);
        for _ in 0..per {
            let act = ["test", "test", "list", "terse", "terse", "bench", "bench", "listapi", "testapi"][rng.below(9) as usize];
            let bench_mode = act == "bench";
            let mut cfg = config(rng, act, &paths, bench_mode);
            cfg.push(format!("root={root}"));
            cfg.push(format!("decoy={}", decoy as u8));
            cfg.push(format!("nb={}", nb.iter().map(|x| x.to_string()).collect::<Vec<_>>().join(":")));
            cfg.push(format!("ro={}", ro.iter().map(|x| x.to_string()).collect::<Vec<_>>().join(":")));
            if bench_mode && !cfg.iter().any(|c| c.starts_with("o.ss=")) {
                cfg.push("o.ss=1".into());
            }
            if bench_mode && !cfg.iter().any(|c| c.starts_with("o.sc=")) {
                // the default of 100 samples is the registry lab's business
                cfg.push(format!("o.sc={}", 1 + rng.below(5)));
            }
            out.push(format!("mac {} | {}", cfg.join(" "), text.join(" | ")).trim_end_matches(" | ").to_string());
            if out.len() >= n {
                break;
            }
        }
    }
    out
}

// ------------------------------------------------------------------ execution

fn pkg_dir() -> PathBuf {
    // <harness>/target-mac/pkg ; the executable lives in <harness>/target/release/
    let exe = std::env::current_exe().unwrap();
    let harness = exe.ancestors().nth(3).unwrap().to_path_buf();
    harness.join("target-mac").join("pkg")
}

fn harness_dir() -> PathBuf {
    std::env::current_exe().unwrap().ancestors().nth(3).unwrap().to_path_buf()
}

struct Parsed<'a> {
    toks: Vec<&'a str>,
    root: String,
    decoy: bool,
    items: Vec<Item>,
    prog_key: String,
}

fn parse(req: &str) -> Parsed<'_> {
    let toks: Vec<&str> = req.split(' ').filter(|t| !t.is_empty()).skip(1).collect();
    let mut groups: Vec<Vec<&str>> = vec![Vec::new()];
    for t in &toks {
        if *t == "|" {
            groups.push(Vec::new());
        } else {
            groups.last_mut().unwrap().push(t);
        }
    }
    let get = |k: &str| groups[0].iter().filter_map(|t| t.split_once('=')).find(|(a, _)| *a == k).map(|(_, v)| v.to_string());
    let root = get("root").unwrap_or_else(|| "p0".into());
    let decoy = get("decoy").as_deref() == Some("1");
    let items = parse_items(&groups[1..]);
    let prog_key = format!("{root} {decoy} {}", req.split_once(" | ").map(|x| x.1).unwrap_or(""));
    Parsed { toks, root, decoy, items, prog_key }
}

/// Builds the given programs (root -> source) as binaries of one package.
fn build(progs: &[(String, String)]) -> Result<(), String> {
    let dir = pkg_dir();
    let bin = dir.join("src").join("bin");
    let _ = std::fs::remove_dir_all(dir.join("src"));
    std::fs::create_dir_all(&bin).map_err(|e| e.to_string())?;
    std::fs::create_dir_all(dir.join(".cargo")).map_err(|e| e.to_string())?;
    std::fs::write(dir.join(".cargo").join("config.toml"), "[net]\noffline = true\n").map_err(|e| e.to_string())?;
    std::fs::write(
        dir.join("Cargo.toml"),
        "[package]\nname = \"macprogs\"\nversion = \"0.0.0\"\nedition = \"2021\"\npublish = false\nautobins = true\n\n[workspace]\n\n[dependencies]\ndivan = { path = \"/repo\", features = [\"verif_hooks\"] }\n\n[profile.dev]\nopt-level = 0\ndebug = false\nincremental = false\npanic = \"unwind\"\n",
    )
    .map_err(|e| e.to_string())?;
    let lock = dir.join("Cargo.lock");
    if !lock.exists() {
        std::fs::copy("/repo/Cargo.lock", &lock).map_err(|e| e.to_string())?;
    }
    std::fs::copy(harness_dir().join("mac").join("sup.rs"), dir.join("src").join("sup.rs")).map_err(|e| e.to_string())?;
    let target = harness_dir().join("target-mac").join("target");
    // binaries and object files of earlier programs are never reused (every program is new):
    // remove them so that long runs do not fill the disk; divan and its dependencies stay
    for dir in [target.join("debug"), target.join("debug").join("deps")] {
        if let Ok(rd) = std::fs::read_dir(&dir) {
            for e in rd.flatten() {
                let name = e.file_name().to_string_lossy().to_string();
                let stem = name.split(|c| c == '-' || c == '.').next().unwrap_or("");
                if stem.len() > 1 && stem.starts_with('p') && stem[1..].chars().all(|c| c.is_ascii_digit()) && e.path().is_file() {
                    let _ = std::fs::remove_file(e.path());
                }
            }
        }
    }
    for (root, src) in progs {
        std::fs::write(bin.join(format!("{root}.rs")), src).map_err(|e| e.to_string())?;
        let _ = std::fs::remove_file(target.join("debug").join(root));
    }
    let out = Command::new("cargo")
        .args(["build", "--offline", "--bins", "--keep-going"])
        .env("CARGO_TARGET_DIR", &target)
        .env("CARGO_NET_OFFLINE", "true")
        .current_dir(&dir)
        .output()
        .map_err(|e| e.to_string())?;
    if !out.status.success() {
        let err = String::from_utf8_lossy(&out.stderr);
        let first: Vec<&str> = err.lines().filter(|l| l.starts_with("error")).take(3).collect();
        return Err(first.join(" / "));
    }
    Ok(())
}

fn run_one(p: &Parsed<'_>, req: &str, lines: &[(u32, u32)]) -> String {
    let bin = harness_dir().join("target-mac").join("target").join("debug").join(&p.root);
    if !Path::new(&bin).exists() {
        return "compile-error".into();
    }
    let mut cmd = Command::new(&bin);
    cmd.env("VERIF_REG", req);
    let act = configure(&mut cmd, &p.toks);
    let out = match cmd.output() {
        Ok(o) => o,
        Err(e) => return format!("spawn-error:{}", hex(&e.to_string())),
    };
    let (obs, other) = collect(&out, &act);
    let mut reg = "-".to_string();
    let mut calls: Vec<String> = Vec::new();
    let mut live = "-".to_string();
    for l in &other {
        if let Some(n) = l.strip_prefix("N ") {
            reg = n.to_string();
        } else if let Some(v) = l.strip_prefix("V ") {
            live = v.to_string();
        } else if l.starts_with("C ") {
            calls.push(l.replace(' ', ":"));
        }
    }
    let src_lines: Vec<String> = lines.iter().map(|(a, b)| format!("{a}-{b}")).collect();
    format!(
        "N{reg} S{} V{live} K{} {obs}",
        if src_lines.is_empty() { "-".to_string() } else { src_lines.join(":") },
        if calls.is_empty() { "-".to_string() } else { calls.join(",") }
    )
}

/// Executes a batch of `mac` requests: distinct programs are compiled together.
pub fn exec_batch(reqs: &[String]) -> Vec<String> {
    if reqs.is_empty() {
        return Vec::new();
    }
    // one package directory: concurrent checks take turns
    let _ = std::fs::create_dir_all(harness_dir().join("target-mac"));
    let lock = std::fs::OpenOptions::new().create(true).write(true).open(harness_dir().join("target-mac").join("lock")).expect("lock file");
    {
        use std::os::fd::AsRawFd;
        unsafe { libc::flock(lock.as_raw_fd(), libc::LOCK_EX) };
    }
    let parsed: Vec<Parsed<'_>> = reqs.iter().map(|r| parse(r)).collect();
    let mut obs: Vec<Option<String>> = vec![None; reqs.len()];
    let mut todo: Vec<usize> = (0..reqs.len()).collect();
    while !todo.is_empty() {
        // one round: at most one program per root name
        let mut round: Vec<(String, String, Vec<(u32, u32)>, String)> = Vec::new(); // root, key, lines, src
        let mut now = Vec::new();
        let mut later = Vec::new();
        for i in todo {
            let p = &parsed[i];
            match round.iter().find(|r| r.0 == p.root) {
                Some(r) if r.1 == p.prog_key => now.push(i),
                Some(_) => later.push(i),
                None => {
                    let (src, lines) = render(&p.root, &p.items, p.decoy);
                    round.push((p.root.clone(), p.prog_key.clone(), lines, src));
                    now.push(i);
                }
            }
        }
        let progs: Vec<(String, String)> = round.iter().map(|r| (r.0.clone(), r.3.clone())).collect();
        let built = build(&progs);
        let results: Vec<(usize, String)> = std::thread::scope(|sc| {
            let chunks: Vec<Vec<usize>> = {
                let w = 8;
                let mut c = vec![Vec::new(); w];
                for (k, i) in now.iter().enumerate() {
                    c[k % w].push(*i);
                }
                c
            };
            let handles: Vec<_> = chunks
                .into_iter()
                .map(|chunk| {
                    let parsed = &parsed;
                    let round = &round;
                    let built = &built;
                    sc.spawn(move || {
                        chunk
                            .into_iter()
                            .map(|i| {
                                let p = &parsed[i];
                                let lines = &round.iter().find(|r| r.0 == p.root).unwrap().2;
                                let o = run_one(p, &reqs[i], lines);
                                let o = if o == "compile-error" {
                                    format!("compile-error:{}", hex(built.as_ref().err().map(|s| s.as_str()).unwrap_or("binary missing")))
                                } else {
                                    o
                                };
                                (i, o)
                            })
                            .collect::<Vec<_>>()
                    })
                })
                .collect();
            handles.into_iter().flat_map(|h| h.join().unwrap()).collect()
        });
        for (i, o) in results {
            obs[i] = Some(o);
        }
        todo = later;
    }
    obs.into_iter().map(|o| o.unwrap_or_else(|| "not-run".into())).collect()
}

/// The source a request's program is rendered to (for replay files and debugging).
pub fn source_of(req: &str) -> String {
    let p = parse(req);
    render(&p.root, &p.items, p.decoy).0
}
