//! C18: `FineDuration` Display, `format_f64`, `format_bytes`, throughput.

use crate::rng::{hex, Rng};
use divan::__verif::pure;

const UNITS: &[u128] = &[
    1,
    1_000,
    1_000_000,
    1_000_000_000,
    1_000_000_000_000,
    60_000_000_000_000,
    3_600_000_000_000_000,
    86_400_000_000_000_000,
];

fn starts(binary: bool) -> [f64; 6] {
    if binary {
        [
            1.,
            1024.,
            1024u64.pow(2) as f64,
            1024u64.pow(3) as f64,
            1024u64.pow(4) as f64,
            1024u64.pow(5) as f64,
        ]
    } else {
        [1., 1e3, 1e6, 1e9, 1e12, 1e15]
    }
}

fn with_scaled(val: f64, binary: bool, result: String) -> String {
    let mut parts = vec![hex(&val.to_string())];
    for s in starts(binary) {
        parts.push(hex(&(val / s).to_string()));
    }
    parts.push(hex(&result));
    parts.join(" ")
}

pub fn exec(verb: &str, toks: &[&str]) -> String {
    match verb {
        "fd" => hex(&pure::fine_display(toks[0].parse().unwrap(), None, None)),
        "f64" => {
            let val = f64::from_bits(toks[0].parse().unwrap());
            let sig: usize = toks[1].parse().unwrap();
            format!("{} {}", hex(&val.to_string()), hex(&pure::format_f64(val, sig)))
        }
        "bytes" => {
            let val = f64::from_bits(toks[0].parse().unwrap());
            let sig: usize = toks[1].parse().unwrap();
            let binary = toks[2] == "1";
            with_scaled(val, binary, pure::format_bytes(val, sig, binary))
        }
        "thr" => {
            let kind: usize = toks[0].parse().unwrap();
            let count: u64 = toks[1].parse().unwrap();
            let picos: u128 = toks[2].parse().unwrap();
            let binary = toks[3] == "1";
            // The rate as the real code computes it (same two f64 operations);
            // the spec checks it against the exact rational.
            let cps = if count == 0 {
                0.
            } else {
                count as f64 * (1e12 / picos as f64)
            };
            with_scaled(
                cps,
                binary && kind == 0,
                pure::display_throughput(kind, count, picos, binary, None),
            )
        }
        _ => unreachable!(),
    }
}

fn picos(rng: &mut Rng) -> u128 {
    match rng.below(10) {
        0 => {
            // unit boundary +- {0,1,2}
            let u = *rng.pick(UNITS);
            let k = [1u128, 10, 100, 1000, 9999, 10000, 10001][rng.below(7) as usize];
            (u * k).wrapping_add(rng.below(5) as u128).wrapping_sub(2)
        }
        1 => {
            // 10^k +- 1
            let k = rng.below(39) as u32;
            10u128.pow(k) + rng.below(3) as u128 - 1
        }
        2 => {
            // truncation boundaries: d.ddd9.. in a unit
            let u = *rng.pick(UNITS);
            let m = rng.below(100_000) as u128;
            (u * m / 1000).saturating_add(rng.below(3) as u128).saturating_sub(1)
        }
        3 => u128::MAX - rng.below(3) as u128,
        4 => rng.below(2000) as u128,
        _ => rng.log_u128(),
    }
}

fn float(rng: &mut Rng) -> f64 {
    match rng.below(8) {
        0 => rng.below(100_000) as f64,
        1 => rng.below(100_000_000) as f64 / 1e4,
        2 => {
            let s = starts(rng.chance(1, 2));
            let b = s[rng.below(6) as usize];
            b * [0.9999999, 1.0, 1.0000001, 999.99999, 1023.9999][rng.below(5) as usize]
        }
        3 => 10f64.powi(rng.below(30) as i32 - 5) * (1.0 + rng.below(1000) as f64 / 1000.0),
        4 => f64::from_bits(rng.next() & 0x7FEF_FFFF_FFFF_FFFF),
        5 => rng.log_u64() as f64,
        6 => (rng.log_u64() as f64) / (1u64 << rng.below(40)) as f64,
        _ => rng.below(1 << 53) as f64 / 1e3,
    }
}

pub fn gen(rng: &mut Rng, n: usize) -> Vec<String> {
    let mut out = Vec::new();
    for &u in UNITS {
        for k in [1u128, 10, 100, 1000, 10000] {
            for d in [0i128, -1, 1, -2, 2] {
                let v = (u * k) as i128 + d;
                if v >= 0 {
                    out.push(format!("fd {v}"));
                }
            }
        }
    }
    out.push(format!("fd {}", u128::MAX));
    out.push("fd 0".into());
    for (c, p) in [(0u64, 0u128), (0, 5), (1, 0), (u64::MAX, 0), (u64::MAX, 1), (1, u128::MAX)] {
        for k in 0..4 {
            out.push(format!("thr {k} {c} {p} 0"));
        }
        out.push(format!("thr 0 {c} {p} 1"));
    }
    out.push(format!("f64 {} 4", f64::INFINITY.to_bits()));
    out.push(format!("f64 {} 4", 0f64.to_bits()));
    while out.len() < n {
        match rng.below(10) {
            0..=4 => out.push(format!("fd {}", picos(rng))),
            5 => out.push(format!(
                "f64 {} {}",
                float(rng).to_bits(),
                [4, 4, 4, 0, 1, 2, 3, 5, 8, 17][rng.below(10) as usize]
            )),
            6 | 7 => out.push(format!(
                "bytes {} {} {}",
                float(rng).to_bits(),
                [4, 4, 4, 1, 2, 3, 6][rng.below(7) as usize],
                rng.below(2)
            )),
            _ => {
                let count = match rng.below(4) {
                    0 => rng.below(10),
                    1 => rng.log_u64(),
                    _ => rng.below(1 << 30),
                };
                let p = match rng.below(5) {
                    0 => rng.below(5) as u128,
                    _ => picos(rng),
                };
                out.push(format!("thr {} {count} {p} {}", rng.below(4), rng.below(2)));
            }
        }
    }
    out
}
