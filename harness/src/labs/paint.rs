//! C20: the real `TreePainter` driven by scripted operation sequences; its
//! standard output is captured by redirecting file descriptor 1.

use crate::rng::{hex, unhex, Rng};
use divan::__verif::{paint, pure};
use paint::{PaintOp, SynStats};
use std::io::{Read, Seek, Write};
use std::os::fd::FromRawFd;

/// Runs `f` with fd 1 redirected to an anonymous file and returns what was
/// written.
pub fn capture_stdout(f: impl FnOnce()) -> String {
    std::io::stdout().flush().unwrap();
    unsafe {
        let name = b"cap\0";
        let mem = libc::memfd_create(name.as_ptr() as *const libc::c_char, 0);
        assert!(mem >= 0);
        let saved = libc::dup(1);
        libc::dup2(mem, 1);
        f();
        std::io::stdout().flush().unwrap();
        libc::dup2(saved, 1);
        libc::close(saved);
        let mut file = std::fs::File::from_raw_fd(mem);
        file.rewind().unwrap();
        let mut s = String::new();
        file.read_to_string(&mut s).unwrap();
        s
    }
}

fn f4(s: &str) -> [f64; 4] {
    let v: Vec<f64> = s.split(',').map(|x| f64::from_bits(x.parse().unwrap())).collect();
    [v[0], v[1], v[2], v[3]]
}

fn parse_stats(s: &str) -> SynStats {
    // sc,ic,t0,t1,t2,t3 ; c0|c1|c2|c3 ; mcount/msize ; t0c/t0s|t1c/t1s|t2c/t2s|t3c/t3s
    let sec: Vec<&str> = s.split(';').collect();
    let head: Vec<u128> = sec[0].split(',').map(|x| x.parse().unwrap()).collect();
    let mut st = SynStats {
        sample_count: head[0] as u32,
        iter_count: head[1] as u64,
        time: [head[2], head[3], head[4], head[5]],
        ..Default::default()
    };
    for (k, c) in sec[1].split('|').enumerate() {
        if c != "-" {
            let v: Vec<u64> = c.split(',').map(|x| x.parse().unwrap()).collect();
            st.counts[k] = Some([v[0], v[1], v[2], v[3]]);
        }
    }
    let (mc, ms) = sec[2].split_once('/').unwrap();
    st.max_alloc = (f4(mc), f4(ms));
    for (k, t) in sec[3].split('|').enumerate() {
        let (c, z) = t.split_once('/').unwrap();
        st.tallies[k] = (f4(c), f4(z));
    }
    st
}

fn is_zero(v: &[f64; 4]) -> bool {
    v.iter().all(|x| *x == 0.0)
}

/// The serialised cells of one statistics block, as `finish_leaf` builds them.
fn cells(st: &SynStats, binary: bool) -> String {
    let row = |cells: Vec<String>| cells.iter().map(|c| hex(c)).collect::<Vec<_>>().join(",");
    let mut rows: Vec<String> = Vec::new();
    let mut main: Vec<String> = st.time.iter().map(|t| pure::fine_display(*t, None, None)).collect();
    main.push(st.sample_count.to_string());
    main.push(st.iter_count.to_string());
    rows.push(row(main));
    for k in 0..4 {
        rows.push(match st.counts[k] {
            None => row(vec![String::new(); 6]),
            Some(c) => {
                let mut v: Vec<String> =
                    (0..4).map(|col| pure::display_throughput(k, c[col], st.time[col], binary, None)).collect();
                v.push(String::new());
                v.push(String::new());
                row(v)
            }
        });
    }
    let two = |c: &[f64; 4], z: &[f64; 4]| -> String {
        let pre = |col: usize| if col == 0 { "  " } else { "" };
        let mut a: Vec<String> = (0..4).map(|col| format!("{}{}", pre(col), pure::format_f64(c[col], 4))).collect();
        let mut b: Vec<String> =
            (0..4).map(|col| format!("{}{}", pre(col), pure::format_bytes(z[col], 4, binary))).collect();
        for v in [&mut a, &mut b] {
            v.push(String::new());
            v.push(String::new());
        }
        format!("{}/{}", row(a), row(b))
    };
    rows.push(if is_zero(&st.max_alloc.1) { "-".into() } else { two(&st.max_alloc.0, &st.max_alloc.1) });
    // print order: alloc, dealloc, grow, shrink
    for k in [2usize, 3, 0, 1] {
        let (c, z) = &st.tallies[k];
        rows.push(if is_zero(c) && is_zero(z) { "-".into() } else { two(c, z) });
    }
    rows.join("/")
}

pub fn exec(toks: &[&str]) -> String {
    let span: usize = toks[0].parse().unwrap();
    let w: Vec<usize> = toks[1].split(':').map(|x| x.parse().unwrap()).collect();
    let mut ops = Vec::new();
    let mut blocks = Vec::new();
    for t in &toks[2..] {
        let f: Vec<&str> = t.splitn(4, ':').collect();
        ops.push(match f[0] {
            "P" => PaintOp::StartParent(unhex(f[1]), f[2] == "1"),
            "F" => PaintOp::FinishParent,
            "I" => PaintOp::IgnoreLeaf(unhex(f[1]), f[2] == "1"),
            "L" => PaintOp::StartLeaf(unhex(f[1]), f[2] == "1"),
            "E" => PaintOp::FinishEmptyLeaf,
            "S" => {
                let stats = parse_stats(f[3]);
                let binary = f[2] == "1";
                blocks.push(cells(&stats, binary));
                PaintOp::FinishLeaf { is_last: f[1] == "1", stats, binary }
            }
            _ => panic!("bad op {t}"),
        });
    }
    let out = capture_stdout(|| paint::paint(span, [w[0], w[1], w[2], w[3], w[4], w[5]], &ops));
    format!("C{} O{}", if blocks.is_empty() { "-".to_string() } else { blocks.join(";") }, hex(&out))
}

const NAMES: &[&str] = &[
    "a", "bench", "sort_unstable", "日本語のなまえ", "über", "x", "t=1", "t=16", "HashMap<String, Vec<u8>>",
    "a_very_long_benchmark_name_that_exceeds_the_span", "1", "02", "é",
];

fn rand_stats(rng: &mut Rng) -> String {
    let t = |rng: &mut Rng| -> u128 {
        match rng.below(4) {
            0 => rng.below(2000) as u128,
            1 => rng.log_u64() as u128,
            2 => rng.log_u128() >> 20,
            _ => rng.below(100_000_000) as u128,
        }
    };
    let mut ts = [t(rng), t(rng), t(rng), t(rng)];
    ts.sort();
    let head = format!("{},{},{},{},{},{}", rng.below(1000), rng.log_u64() >> 30, ts[0], ts[1], ts[2], ts[3]);
    let counts: Vec<String> = (0..4)
        .map(|_| {
            if rng.chance(2, 3) {
                "-".to_string()
            } else {
                (0..4).map(|_| (rng.log_u64() >> rng.below(50)).to_string()).collect::<Vec<_>>().join(",")
            }
        })
        .collect();
    let fl = |rng: &mut Rng, zero: bool| -> String {
        (0..4)
            .map(|_| {
                let v: f64 = if zero {
                    0.0
                } else {
                    match rng.below(4) {
                        0 => rng.below(100) as f64,
                        1 => rng.below(100_000) as f64 / [1.0, 2.0, 3.0, 7.0][rng.below(4) as usize],
                        2 => (rng.log_u64() >> 20) as f64,
                        _ => 0.0,
                    }
                };
                v.to_bits().to_string()
            })
            .collect::<Vec<_>>()
            .join(",")
    };
    let mz = rng.chance(1, 2);
    let m = format!("{}/{}", fl(rng, mz), fl(rng, mz));
    let tallies: Vec<String> = (0..4)
        .map(|_| {
            let z = rng.chance(2, 3);
            format!("{}/{}", fl(rng, z), fl(rng, z))
        })
        .collect();
    format!("{head};{};{m};{}", counts.join("|"), tallies.join("|"))
}

fn forest(rng: &mut Rng, depth: u32, cols: bool, out: &mut Vec<String>) {
    let n = 1 + rng.below(if depth == 0 { 3 } else { 4 });
    for i in 0..n {
        let last = (i == n - 1) as u8;
        let name = hex(*rng.pick(NAMES));
        match rng.below(if depth >= 4 { 3 } else { 5 }) {
            0 if depth > 0 => out.push(format!("I:{name}:{last}")),
            1 | 2 if depth > 0 => {
                out.push(format!("L:{name}:{last}"));
                if cols && rng.chance(5, 6) {
                    out.push(format!("S:{last}:{}:{}", rng.below(2), rand_stats(rng)));
                } else {
                    out.push("E".into());
                }
            }
            _ => {
                out.push(format!("P:{name}:{last}"));
                forest(rng, depth + 1, cols, out);
                out.push("F".into());
            }
        }
    }
}

pub fn gen(rng: &mut Rng, n: usize) -> Vec<String> {
    let mut out = Vec::new();
    while out.len() < n {
        let cols = rng.chance(2, 3);
        let widths = if cols {
            format!("13:13:13:13:{}:0", 1 + rng.below(4))
        } else {
            "0:0:0:0:0:0".to_string()
        };
        let mut ops = Vec::new();
        forest(rng, 0, cols, &mut ops);
        out.push(format!("paint {} {widths} {}", rng.below(40), ops.join(" ")));
    }
    out
}
