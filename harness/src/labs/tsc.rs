//! C11: timestamp differences, `Duration` conversion, timer precision.

use super::u64s;
use crate::rng::Rng;
use divan::__verif::{pure, vclock};
use std::sync::atomic::Ordering::SeqCst;

const EDGES: &[u64] = &[
    0,
    1,
    2,
    (1 << 32) - 1,
    1 << 32,
    (1 << 32) + 1,
    (1 << 63) - 1,
    1 << 63,
    (1 << 63) + 1,
    u64::MAX - 1,
    u64::MAX,
];
const FREQS: &[u64] = &[
    1,
    2,
    3,
    1_000,
    999_999_999,
    1_000_000_000,
    2_400_000_000,
    3_000_000_000,
    10_000_000_000,
    1_000_000_000_000,
    1_000_000_000_001,
    u64::MAX,
];

fn val(rng: &mut Rng) -> u64 {
    match rng.below(4) {
        0 => *rng.pick(EDGES),
        1 => rng.log_u64(),
        2 => rng.next(),
        _ => rng.below(1 << 40),
    }
}

fn freq(rng: &mut Rng) -> u64 {
    match rng.below(3) {
        0 => *rng.pick(FREQS),
        1 => rng.log_u64().max(1),
        _ => rng.range(1_000_000, 10_000_000_000),
    }
}

pub fn gen(rng: &mut Rng, n: usize) -> Vec<String> {
    let mut out = Vec::new();
    // Boundary cross product first (deterministic).
    for &a in EDGES {
        for &b in EDGES {
            for &f in &[1, 3, 1_000, 1_000_000_000, 10_000_000_000, u64::MAX] {
                out.push(format!("tsc {a} {b} {f}"));
            }
        }
    }
    // All-`Duration` corners.
    for &s in &[0, 1, 1 << 32, u64::MAX / 1000, u64::MAX - 1, u64::MAX] {
        for &ns in &[0, 1, 999, 1_000, 999_999_999] {
            out.push(format!("dur {s} {ns}"));
        }
    }
    // The OS-timer arm of `Timestamp::duration_since`: two `Instant`s a known `Duration` apart.
    for &s in &[0u64, 1, 2, 59, 60, 3_600, 86_400, 1 << 31, 1 << 40] {
        for &ns in &[0u64, 1, 999, 1_000, 999_999_999] {
            out.push(format!("osdur {s} {ns} 0"));
        }
    }
    out.push("osdur 5 7 1".into());
    for step in [1u64, 2, 3, 7, 100, 250, 1 << 20] {
        out.push(format!("prec {step} 1000000000000"));
    }
    while out.len() < n {
        match rng.below(20) {
            0..=8 => {
                out.push(format!("tsc {} {} {}", val(rng), val(rng), freq(rng)))
            }
            9..=11 => {
                let mut v = [val(rng), val(rng), val(rng)];
                if rng.chance(3, 4) {
                    v.sort();
                }
                out.push(format!(
                    "tsc3 {} {} {} {}",
                    v[0],
                    v[1],
                    v[2],
                    freq(rng)
                ));
            }
            12..=13 => {
                let a = val(rng);
                let b = val(rng);
                let k = rng.log_u64().min(u64::MAX - a.max(b));
                out.push(format!("tscshift {a} {b} {k} {}", freq(rng)));
            }
            14..=15 => out.push(format!(
                "dur {} {}",
                val(rng),
                rng.below(1_000_000_000)
            )),
            16 => out.push(format!(
                "osdur {} {} {}",
                rng.log_u64() >> 23,
                rng.below(1_000_000_000),
                rng.chance(1, 6) as u8
            )),
            17 => {
                // The real loop never ends on a clock whose step is below one
                // picosecond (every sample is 0), so stay at or above it.
                let f = freq(rng);
                let min_step = (f as u128).div_ceil(1_000_000_000_000) as u64;
                let step = (1 + rng.log_u64() % (1 << 40)).max(min_step);
                out.push(format!("prec {step} {f}"));
            }
            _ => {
                // Scripted readings: pairs on a clock quantised to `q`, then a
                // uniform step.
                let q = 1 + rng.below(50);
                let pairs = rng.below(40) as usize;
                let mut t = rng.below(1000);
                let mut rs = Vec::new();
                for _ in 0..pairs {
                    t += q * rng.below(3);
                    rs.push(t);
                    // Occasionally a zero or backwards sample.
                    let d = match rng.below(6) {
                        0 => 0,
                        1 => q,
                        2 => q,
                        3 => 2 * q,
                        4 => q * rng.below(5),
                        _ => {
                            t = t.saturating_sub(q);
                            0
                        }
                    };
                    t += d;
                    rs.push(t);
                }
                let step = q * (1 + rng.below(3));
                let f = *rng.pick(&[
                    1_000_000_000_000u64,
                    1_000_000_000,
                    3_000_000_000,
                    7,
                ]);
                let rs: Vec<String> =
                    rs.iter().map(|r| r.to_string()).collect();
                out.push(
                    format!("precs {f} {step} {pairs} {}", rs.join(" "))
                        .trim_end()
                        .to_string(),
                );
            }
        }
    }
    out
}

pub fn exec(verb: &str, toks: &[&str]) -> String {
    let v = u64s(toks);
    match verb {
        // earlier a, later b
        "tsc" => pure::tsc_duration_since(v[1], v[0], v[2]).to_string(),
        "tsc3" => {
            let (a, b, c, f) = (v[0], v[1], v[2], v[3]);
            format!(
                "{} {} {}",
                pure::tsc_duration_since(b, a, f),
                pure::tsc_duration_since(c, b, f),
                pure::tsc_duration_since(c, a, f)
            )
        }
        "tscshift" => {
            let (a, b, k, f) = (v[0], v[1], v[2], v[3]);
            format!(
                "{} {}",
                pure::tsc_duration_since(b, a, f),
                pure::tsc_duration_since(b + k, a + k, f)
            )
        }
        "osdur" => match pure::os_duration_since(std::time::Duration::new(v[0], v[1] as u32), v[2] == 1) {
            Some(p) => p.to_string(),
            None => "unrepresentable".into(),
        },
        "dur" => pure::fine_from_duration(std::time::Duration::new(
            v[0],
            v[1] as u32,
        ))
        .to_string(),
        "prec" => {
            let (step, f) = (v[0], v[1]);
            vclock::reset();
            vclock::READ_STEP.store(step, SeqCst);
            vclock::ENABLED.store(true, SeqCst);
            let p = pure::measure_precision(f);
            vclock::ENABLED.store(false, SeqCst);
            let reads = vclock::READS.load(SeqCst);
            format!("{p} {reads}")
        }
        "precs" => {
            let (f, step, pairs) = (v[0], v[1], v[2] as usize);
            let rs = v[3..].to_vec();
            assert_eq!(rs.len(), 2 * pairs);
            vclock::reset();
            vclock::set_script(0, rs);
            vclock::READ_STEP.store(step, SeqCst);
            vclock::ENABLED.store(true, SeqCst);
            let p = pure::measure_precision(f);
            vclock::ENABLED.store(false, SeqCst);
            let reads = vclock::READS.load(SeqCst);
            format!("{p} {reads}")
        }
        _ => unreachable!(),
    }
}
