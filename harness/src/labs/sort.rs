//! C16: `natural_cmp` and `SortingAttr::cmp_bench_arg_names`.

use crate::rng::{hex, unhex, Rng};
use divan::__verif::pure;

fn fbits(s: &str) -> String {
    match s.parse::<f64>() {
        Ok(f) => f.to_bits().to_string(),
        Err(_) => "n".into(),
    }
}

/// `names…` as `hex fbits` pairs.
fn names_of(toks: &[&str]) -> Vec<String> {
    toks.chunks(2).map(|c| unhex(c[0])).collect()
}

pub fn exec(verb: &str, toks: &[&str]) -> String {
    match verb {
        "natcmp" => pure::natural_cmp(&unhex(toks[0]), &unhex(toks[1])).to_string(),
        "natcmp3" => {
            let s: Vec<String> = toks.iter().map(|t| unhex(t)).collect();
            let mut out = Vec::new();
            for i in 0..3 {
                for j in 0..3 {
                    out.push(pure::natural_cmp(&s[i], &s[j]).to_string());
                }
            }
            out.join(" ")
        }
        "argcmp" => {
            let attr: usize = toks[0].parse().unwrap();
            let i: usize = toks[1].parse().unwrap();
            let j: usize = toks[2].parse().unwrap();
            let names = names_of(&toks[3..]);
            let refs: Vec<&str> = names.iter().map(|s| s.as_str()).collect();
            pure::cmp_bench_arg_names(attr, &refs, i, j).to_string()
        }
        "argsort" => {
            let attr: usize = toks[0].parse().unwrap();
            let rev = toks[1] == "1";
            let names = names_of(&toks[2..]);
            let refs: Vec<&str> = names.iter().map(|s| s.as_str()).collect();
            let v: Vec<String> = pure::sort_bench_arg_names(attr, rev, &refs)
                .iter()
                .map(|i| i.to_string())
                .collect();
            v.join(" ")
        }
        _ => unreachable!(),
    }
}

fn digits(rng: &mut Rng) -> String {
    let mut s = String::new();
    for _ in 0..rng.below(3) {
        s.push('0');
    }
    match rng.below(4) {
        0 => {}
        1 => s.push_str(&rng.below(20).to_string()),
        2 => s.push_str(&rng.below(100_000).to_string()),
        _ => {
            for _ in 0..1 + rng.below(45) {
                s.push((b'0' + rng.below(10) as u8) as char);
            }
        }
    }
    if s.is_empty() {
        s.push('0');
    }
    s
}

fn word(rng: &mut Rng) -> String {
    const PARTS: &[&str] = &[
        "a", "b", "A", "z", "_", "-", ".", "<", ">", "::", " ", "é", "ß", "日本", "x", "e", "E", "+",
    ];
    let mut s = String::new();
    for _ in 0..rng.below(4) {
        s.push_str(*rng.pick(PARTS));
    }
    s
}

/// A name over {letters, digit runs with leading zeros, punctuation, UTF-8}.
pub fn name(rng: &mut Rng) -> String {
    let mut s = String::new();
    for _ in 0..rng.below(5) {
        if rng.chance(1, 2) {
            s.push_str(&digits(rng));
        } else {
            s.push_str(&word(rng));
        }
    }
    s
}

fn int_name(rng: &mut Rng, signed: bool) -> String {
    let mag: u128 = match rng.below(5) {
        0 => rng.below(12) as u128,
        1 => rng.below(1000) as u128,
        2 => rng.log_u128(),
        3 => 10u128.pow(rng.below(39) as u32),
        _ => rng.below(100_000) as u128,
    };
    if signed && mag != 0 && rng.chance(1, 2) {
        format!("-{}", mag.min(1u128 << 127))
    } else {
        mag.to_string()
    }
}

fn float_name(rng: &mut Rng) -> String {
    match rng.below(6) {
        0 => format!("{}.{}", rng.below(100), rng.below(1000)),
        1 => format!("-{}.{}", rng.below(100), rng.below(100)),
        2 => format!("{}e{}", 1 + rng.below(9), rng.below(6)),
        3 => format!("{}", (rng.below(2_000_000) as f64 - 1_000_000.) / 128.),
        4 => ["0.0", "-0.0", "inf", "-inf", "NaN", "1e-3", ".5", "5."][rng.below(8) as usize].into(),
        _ => format!("{}.5", rng.below(10)),
    }
}

fn list(rng: &mut Rng) -> (Vec<String>, &'static str) {
    let n = match rng.below(4) {
        0 => rng.below(4),
        1 => rng.below(12),
        _ => rng.below(31),
    } as usize;
    let kind = rng.below(7);
    let mut v = Vec::new();
    for _ in 0..n {
        v.push(match kind {
            0 => int_name(rng, false),
            1 => int_name(rng, true),
            2 => float_name(rng),
            3 => {
                if rng.chance(1, 2) {
                    // integers that f64 represents exactly
                    let v = rng.below(1 << 40) as i64 - (1 << 39);
                    v.to_string()
                } else {
                    float_name(rng)
                }
            }
            4 | 5 => {
                // strings that do not look numeric
                let mut s = name(rng);
                if s.parse::<f64>().is_ok() || s.is_empty() {
                    s.insert(0, 'k');
                }
                s
            }
            _ => match rng.below(4) {
                0 => int_name(rng, true),
                1 => float_name(rng),
                _ => name(rng),
            },
        });
    }
    // duplicates are legal (two args with equal rendering)
    if n > 2 && rng.chance(1, 4) {
        let i = rng.below(n as u64) as usize;
        let j = rng.below(n as u64) as usize;
        v[i] = v[j].clone();
    }
    (v, ["uint", "int", "float", "numeric", "text", "text", "mixed"][kind as usize])
}

fn enc(names: &[String]) -> String {
    names.iter().map(|n| format!("{} {}", hex(n), fbits(n))).collect::<Vec<_>>().join(" ")
}

pub fn gen(rng: &mut Rng, n: usize) -> Vec<String> {
    let mut out = Vec::new();
    for (a, b) in [("", ""), ("", "a"), ("0", "00"), ("a08", "a4"), ("A<4>", "A<16>"), ("1", "a"), ("9", "10")] {
        out.push(format!("natcmp {} {}", hex(a), hex(b)));
    }
    out.push(format!("argsort 1 0 {}", enc(&["10".into(), "9".into(), "1".into(), "-3".into(), "100".into()])));
    while out.len() < n {
        match rng.below(10) {
            0..=2 => out.push(format!("natcmp {} {}", hex(&name(rng)), hex(&name(rng)))),
            3..=4 => {
                // related triples: share prefixes so that comparisons go deep
                let base = name(rng);
                let mut t = Vec::new();
                for _ in 0..3 {
                    t.push(match rng.below(4) {
                        0 => name(rng),
                        1 => format!("{base}{}", digits(rng)),
                        2 => format!("{base}{}", word(rng)),
                        _ => base.clone(),
                    });
                }
                out.push(format!("natcmp3 {} {} {}", hex(&t[0]), hex(&t[1]), hex(&t[2])));
            }
            5..=6 => {
                let (v, _) = list(rng);
                if v.len() >= 2 {
                    let i = rng.below(v.len() as u64);
                    let j = rng.below(v.len() as u64);
                    out.push(format!("argcmp {} {i} {j} {}", rng.below(3), enc(&v)));
                }
            }
            _ => {
                let (v, _) = list(rng);
                out.push(format!("argsort {} {} {}", rng.below(3), rng.below(2), enc(&v)).trim_end().to_string());
            }
        }
    }
    out
}
