//! C09 (transparent wrapper) and C10 (exact tallies).
//!
//! `prof`: a request script is issued to `AllocProfiler<Mock>` through the
//! `GlobalAlloc` methods. `Mock` never touches memory: it logs what reaches it
//! into pre-allocated storage and answers with scripted values (fake addresses
//! or null), and counts re-entrancy. `tally`: the tally arithmetic directly.
//! `tallymt`: several threads allocating concurrently through the profiler.

use crate::rng::Rng;
use divan::{__verif::pure, AllocProfiler};
use std::alloc::{GlobalAlloc, Layout};
use std::cell::UnsafeCell;

#[derive(Default)]
struct MockState {
    log: Vec<String>,
    rets: Vec<u64>,
    cursor: usize,
    depth: usize,
    max_depth: usize,
    extra: usize,
}

struct Mock(UnsafeCell<MockState>);
unsafe impl Sync for Mock {}
unsafe impl Send for Mock {}

impl Mock {
    fn enter(&self, entry: String) -> u64 {
        let st = unsafe { &mut *self.0.get() };
        st.depth += 1;
        st.max_depth = st.max_depth.max(st.depth);
        st.log.push(entry);
        let r = if st.cursor < st.rets.len() {
            st.rets[st.cursor]
        } else {
            st.extra += 1;
            0
        };
        st.cursor += 1;
        st.depth -= 1;
        r
    }
}

unsafe impl GlobalAlloc for Mock {
    unsafe fn alloc(&self, l: Layout) -> *mut u8 {
        self.enter(format!("a:{}:{}", l.size(), l.align())) as *mut u8
    }
    unsafe fn alloc_zeroed(&self, l: Layout) -> *mut u8 {
        self.enter(format!("z:{}:{}", l.size(), l.align())) as *mut u8
    }
    unsafe fn realloc(&self, p: *mut u8, l: Layout, n: usize) -> *mut u8 {
        self.enter(format!("r:{}:{}:{}:{}", p as u64, l.size(), l.align(), n))
            as *mut u8
    }
    unsafe fn dealloc(&self, p: *mut u8, l: Layout) {
        self.enter(format!("d:{}:{}:{}", p as u64, l.size(), l.align()));
    }
}

fn snap(s: Option<pure::TallySnapshot>) -> String {
    match s {
        None => "none".into(),
        Some(s) => {
            let mut v: Vec<String> = Vec::new();
            for (c, z) in s.ops {
                v.push(c.to_string());
                v.push(z.to_string());
            }
            v.push(s.max_count.to_string());
            v.push(s.max_size.to_string());
            v.join(" ")
        }
    }
}

/// Runs a request script on the current thread.
fn run_script(ops: &[&str], clear_first: bool) -> String {
    let mut rets = Vec::new();
    for op in ops {
        let f: Vec<&str> = op.split(':').collect();
        rets.push(match f[0] {
            "a" | "z" => f[3].parse::<u64>().unwrap(),
            "r" => f[5].parse().unwrap(),
            _ => 0,
        });
    }
    let mut st = MockState { rets, ..Default::default() };
    st.log.reserve(ops.len() + 16);
    let prof = AllocProfiler::new(Mock(UnsafeCell::new(st)));
    // Parse everything before the measured window so that the harness itself
    // allocates nothing inside it (its allocator is the plain system one, so
    // it could not disturb the tally anyway).
    let parsed: Vec<Vec<u64>> = ops
        .iter()
        .map(|op| op.split(':').skip(1).map(|x| x.parse().unwrap()).collect())
        .collect();
    if clear_first {
        pure::thread_tally_take();
    }
    let mut got = Vec::with_capacity(ops.len());
    for (op, v) in ops.iter().zip(&parsed) {
        unsafe {
            match op.as_bytes()[0] {
                b'a' => got.push(prof.alloc(
                    Layout::from_size_align(v[0] as usize, v[1] as usize)
                        .unwrap(),
                ) as u64),
                b'z' => got.push(prof.alloc_zeroed(
                    Layout::from_size_align(v[0] as usize, v[1] as usize)
                        .unwrap(),
                ) as u64),
                b'r' => got.push(prof.realloc(
                    v[0] as *mut u8,
                    Layout::from_size_align(v[1] as usize, v[2] as usize)
                        .unwrap(),
                    v[3] as usize,
                ) as u64),
                b'd' => {
                    prof.dealloc(
                        v[0] as *mut u8,
                        Layout::from_size_align(v[1] as usize, v[2] as usize)
                            .unwrap(),
                    );
                    got.push(0)
                }
                _ => panic!("bad op"),
            }
        }
    }
    let tally = pure::thread_tally_take();
    // `AllocProfiler` has no accessor for the wrapped allocator; it is
    // `repr(Rust)` with a single field, so read it back through a pointer.
    let mock: &Mock = unsafe { &*(&prof as *const AllocProfiler<Mock> as *const Mock) };
    let st = unsafe { &*mock.0.get() };
    let got: Vec<String> = got.iter().map(|g| g.to_string()).collect();
    format!(
        "{};{};{};{} {}",
        st.log.join(" "),
        got.join(" "),
        snap(tally),
        st.max_depth,
        st.extra
    )
}

struct AtExit(Option<Box<dyn FnOnce() + Send>>);
impl Drop for AtExit {
    fn drop(&mut self) {
        if let Some(f) = self.0.take() {
            f()
        }
    }
}
thread_local! {
    static AT_EXIT: std::cell::RefCell<AtExit> = const { std::cell::RefCell::new(AtExit(None)) };
}

pub fn exec(verb: &str, toks: &[&str]) -> String {
    match verb {
        "prof" => {
            let mode = toks[0];
            let ops: Vec<String> = toks[1..].iter().map(|s| s.to_string()).collect();
            match mode {
                "main" => {
                    let ops: Vec<&str> = ops.iter().map(|s| s.as_str()).collect();
                    run_script(&ops, true)
                }
                "fresh" => std::thread::spawn(move || {
                    let ops: Vec<&str> = ops.iter().map(|s| s.as_str()).collect();
                    run_script(&ops, false)
                })
                .join()
                .unwrap(),
                "dtor" => {
                    let (tx, rx) = std::sync::mpsc::channel();
                    std::thread::spawn(move || {
                        AT_EXIT.with(|a| {
                            a.borrow_mut().0 = Some(Box::new(move || {
                                let ops: Vec<&str> =
                                    ops.iter().map(|s| s.as_str()).collect();
                                tx.send(run_script(&ops, false)).unwrap();
                            }))
                        });
                    })
                    .join()
                    .unwrap();
                    rx.recv().unwrap()
                }
                _ => panic!("bad mode"),
            }
        }
        "tally" => {
            let ops: Vec<pure::TallyOp> = toks.iter().map(|t| parse_op(t)).collect();
            snap(Some(pure::tally_ops(&ops)))
        }
        "tallymt" => {
            let joined = toks.join(" ");
            let per_thread: Vec<Vec<pure::TallyOp>> = joined
                .split('|')
                .map(|s| s.split_whitespace().map(parse_op).collect())
                .collect();
            let barrier = std::sync::Barrier::new(per_thread.len());
            let outs: Vec<String> = std::thread::scope(|sc| {
                let hs: Vec<_> = per_thread
                    .iter()
                    .map(|ops| {
                        let barrier = &barrier;
                        sc.spawn(move || {
                            let prof = AllocProfiler::new(Mock(UnsafeCell::new(
                                MockState {
                                    log: Vec::new(),
                                    ..Default::default()
                                },
                            )));
                            // keep the mock from logging strings: tally only
                            let fake = 0x1000 as *mut u8;
                            barrier.wait();
                            for (i, op) in ops.iter().enumerate() {
                                unsafe {
                                    match *op {
                                        pure::TallyOp::Alloc(s) => {
                                            if i % 2 == 0 {
                                                prof.alloc(Layout::from_size_align(s, 1).unwrap());
                                            } else {
                                                prof.alloc_zeroed(Layout::from_size_align(s, 1).unwrap());
                                            }
                                        }
                                        pure::TallyOp::Dealloc(s) => prof
                                            .dealloc(fake, Layout::from_size_align(s, 1).unwrap()),
                                        pure::TallyOp::Realloc(o, n) => {
                                            prof.realloc(fake, Layout::from_size_align(o, 1).unwrap(), n);
                                        }
                                    }
                                }
                                if i % 16 == 0 {
                                    std::thread::yield_now();
                                }
                            }
                            barrier.wait();
                            snap(pure::thread_tally_take())
                        })
                    })
                    .collect();
                hs.into_iter().map(|h| h.join().unwrap()).collect()
            });
            outs.join(" | ")
        }
        _ => unreachable!(),
    }
}

fn parse_op(t: &str) -> pure::TallyOp {
    let (k, rest) = t.split_at(1);
    match k {
        "a" => pure::TallyOp::Alloc(rest.parse().unwrap()),
        "d" => pure::TallyOp::Dealloc(rest.parse().unwrap()),
        "r" => {
            let (o, n) = rest.split_once(':').unwrap();
            pure::TallyOp::Realloc(o.parse().unwrap(), n.parse().unwrap())
        }
        _ => panic!("bad op {t}"),
    }
}

fn size(rng: &mut Rng) -> u64 {
    match rng.below(8) {
        0 => 0,
        1 => rng.below(16),
        2 => 1 << rng.below(41),
        3 => (1 << rng.below(41)) - 1,
        4 => rng.below(1 << 40),
        _ => rng.below(4096),
    }
}

fn tally_ops(rng: &mut Rng, len: usize) -> Vec<String> {
    let mut live: Vec<u64> = Vec::new();
    let mut out = Vec::new();
    let dealloc_bias = rng.below(4);
    for _ in 0..len {
        match rng.below(10) {
            0..=3 => {
                let s = size(rng);
                live.push(s);
                out.push(format!("a{s}"));
            }
            4..=6 if dealloc_bias > 0 => {
                // deallocate something live, or (sometimes) something that was
                // allocated before the clearing point
                if !live.is_empty() && rng.chance(4, 5) {
                    let i = rng.below(live.len() as u64) as usize;
                    out.push(format!("d{}", live.swap_remove(i)));
                } else {
                    out.push(format!("d{}", size(rng)));
                }
            }
            _ => {
                let (old, idx) = if !live.is_empty() && rng.chance(4, 5) {
                    let i = rng.below(live.len() as u64) as usize;
                    (live[i], Some(i))
                } else {
                    (size(rng), None)
                };
                let new = match rng.below(5) {
                    0 => old,
                    1 => 0,
                    2 => old + rng.below(64),
                    3 => old.saturating_sub(rng.below(64)),
                    _ => size(rng),
                };
                if let Some(i) = idx {
                    live[i] = new;
                }
                out.push(format!("r{old}:{new}"));
            }
        }
    }
    out
}

pub fn gen(rng: &mut Rng, n: usize) -> Vec<String> {
    let mut out = vec![
        "tally".to_string(),
        "tally a0".into(),
        "tally d5".into(),
        "tally r7:7".into(),
        "tally r7:0".into(),
        "tally a8 r8:0 d0 d4".into(),
        "prof main".into(),
        "prof fresh a:1:1:4096".into(),
        "prof dtor a:1:1:4096 d:4096:1:1".into(),
        "prof main a:0:1:0 z:0:4096:0 r:0:0:1:0:0 d:0:0:1".into(),
    ];
    while out.len() < n {
        match rng.below(10) {
            0..=3 => {
                let len = match rng.below(4) {
                    0 => rng.below(4),
                    1 => rng.below(30),
                    _ => rng.below(200),
                } as usize;
                out.push(format!("tally {}", tally_ops(rng, len).join(" ")).trim_end().to_string());
            }
            4 => {
                let t = 1 + rng.below(8) as usize;
                let per: Vec<String> = (0..t)
                    .map(|_| {
                        let len = rng.below(120) as usize;
                        tally_ops(rng, len).join(" ")
                    })
                    .collect();
                out.push(format!("tallymt {}", per.join(" | ")));
            }
            _ => {
                let mode = *rng.pick(&["main", "main", "fresh", "dtor"]);
                let len = rng.below(50) as usize;
                let mut ops = Vec::new();
                let mut next_ptr = 0x10000u64;
                let mut live: Vec<(u64, u64, u64)> = Vec::new();
                for _ in 0..len {
                    let align = 1u64 << rng.below(13);
                    let sz = match rng.below(10) {
                        0 => 0,
                        1 => 1 << 20,
                        2 if rng.chance(1, 8) => (1u64 << 62) & !(align - 1),
                        3 => rng.below(1 << 20),
                        _ => rng.below(512),
                    };
                    let mut ret = || {
                        next_ptr += 0x1000;
                        next_ptr
                    };
                    match rng.below(8) {
                        0..=2 => {
                            let r = if rng.chance(1, 7) || sz >= 1 << 62 { 0 } else { ret() };
                            if r != 0 {
                                live.push((r, sz, align));
                            }
                            ops.push(format!("a:{sz}:{align}:{r}"));
                        }
                        3 => {
                            let r = if rng.chance(1, 7) || sz >= 1 << 62 { 0 } else { ret() };
                            if r != 0 {
                                live.push((r, sz, align));
                            }
                            ops.push(format!("z:{sz}:{align}:{r}"));
                        }
                        4 | 5 => {
                            let (p, s, a) = if !live.is_empty() {
                                live.swap_remove(rng.below(live.len() as u64) as usize)
                            } else {
                                (ret(), sz, align)
                            };
                            let new = match rng.below(4) {
                                0 => s,
                                1 => 0,
                                2 => s + 1,
                                _ => rng.below(1 << 21),
                            };
                            let r = if rng.chance(1, 6) { 0 } else { ret() };
                            if r != 0 {
                                live.push((r, new, a));
                            } else {
                                live.push((p, s, a));
                            }
                            ops.push(format!("r:{p}:{s}:{a}:{new}:{r}"));
                        }
                        _ => {
                            let (p, s, a) = if !live.is_empty() {
                                live.swap_remove(rng.below(live.len() as u64) as usize)
                            } else {
                                (ret(), sz, align)
                            };
                            ops.push(format!("d:{p}:{s}:{a}"));
                        }
                    }
                }
                out.push(format!("prof {mode} {}", ops.join(" ")).trim_end().to_string());
            }
        }
    }
    out
}
