//! Correspondence labs: run the real divan code (from /repo's working tree,
//! built with `--features verif_hooks`) on generated or given requests and
//! print `request<TAB>observation` lines for the Lean model driver.
//! This binary uses the plain system allocator.
fn main() {
    labs::cli_main()
}
