//! Same as `labs`, but with `AllocProfiler` installed as the global allocator
//! (as a benchmark crate would), for the bench lab.
#[global_allocator]
static ALLOC: divan::AllocProfiler = divan::AllocProfiler::system();

fn main() {
    labs::cli_main()
}
