//! Shared code of the correspondence labs.
pub mod labs;
pub mod reg_child;
pub mod rng;

use std::io::{BufRead, Write};

pub fn exec_line(req: &str) -> String {
    let req = req.trim();
    let verb = req.split(' ').next().unwrap_or("");
    let r = std::panic::catch_unwind(|| labs::exec(verb, req));
    match r {
        Ok(s) => s,
        Err(e) => {
            let msg = e
                .downcast_ref::<String>()
                .map(|s| s.as_str())
                .or_else(|| e.downcast_ref::<&str>().copied())
                .unwrap_or("?");
            format!("panic:{}", rng::hex(msg))
        }
    }
}

/// `gen <lab> <seed> <n>` | `reqs <lab> <seed> <n>` | `exec` (requests on stdin).
pub fn cli_main() {
    if let Ok(req) = std::env::var("VERIF_REG") {
        // Registry lab child: the command line belongs to divan.
        reg_child::main(&req);
        return;
    }
    let args: Vec<String> = std::env::args().collect();
    std::panic::set_hook(Box::new(|_| {}));
    let out = std::io::stdout();
    let mut out = std::io::BufWriter::new(out.lock());
    match args.get(1).map(|s| s.as_str()) {
        Some("gen") => {
            let lab = &args[2];
            let seed: u64 = args[3].parse().unwrap();
            let n: usize = args[4].parse().unwrap();
            let mut rng = rng::Rng::new(seed, lab);
            if lab == "mac" {
                // compiled programs: executed as one batch
                let reqs = labs::gen(lab, &mut rng, n);
                for (req, obs) in reqs.iter().zip(labs::mac::exec_batch(&reqs)) {
                    writeln!(out, "{req}\t{obs}").unwrap();
                }
                return;
            }
            for req in labs::gen(lab, &mut rng, n) {
                let obs = exec_line(&req);
                writeln!(out, "{req}\t{obs}").unwrap();
                // keep what was computed if a later request kills the process
                out.flush().unwrap();
            }
        }
        Some("reqs") => {
            let lab = &args[2];
            let seed: u64 = args[3].parse().unwrap();
            let n: usize = args[4].parse().unwrap();
            let mut rng = rng::Rng::new(seed, lab);
            for req in labs::gen(lab, &mut rng, n) {
                writeln!(out, "{req}").unwrap();
            }
        }
        Some("exec") => {
            let reqs: Vec<String> = std::io::stdin()
                .lock()
                .lines()
                .map(|l| l.unwrap().split('\t').next().unwrap().to_string())
                .filter(|r| !r.trim().is_empty())
                .collect();
            // macro-lab requests are compiled and run as one batch
            let mac: Vec<String> = reqs.iter().filter(|r| r.starts_with("mac ")).cloned().collect();
            let mut mac_obs = labs::mac::exec_batch(&mac).into_iter();
            for req in reqs {
                let obs = if req.starts_with("mac ") { mac_obs.next().unwrap() } else { exec_line(&req) };
                writeln!(out, "{req}\t{obs}").unwrap();
                out.flush().unwrap();
            }
        }
        Some("macsrc") => {
            // the Rust source a `mac` request (on stdin) is rendered to
            for line in std::io::stdin().lock().lines() {
                let line = line.unwrap();
                println!("{}", labs::mac::source_of(line.split('\t').next().unwrap()));
            }
        }
        _ => {
            eprintln!("usage: labs gen <lab> <seed> <n> | labs reqs <lab> <seed> <n> | labs exec < requests");
            std::process::exit(2);
        }
    }
}
