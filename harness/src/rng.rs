//! One PRNG for every random choice (SplitMix64), seeded from VERIF_SEED.

#[derive(Clone)]
pub struct Rng(pub u64);

impl Rng {
    pub fn new(seed: u64, stream: &str) -> Self {
        let mut h = seed ^ 0x9E37_79B9_7F4A_7C15;
        for b in stream.bytes() {
            h = (h ^ b as u64).wrapping_mul(0x100_0000_01B3);
        }
        let mut r = Rng(h);
        r.next();
        r
    }

    pub fn next(&mut self) -> u64 {
        self.0 = self.0.wrapping_add(0x9E37_79B9_7F4A_7C15);
        let mut z = self.0;
        z = (z ^ (z >> 30)).wrapping_mul(0xBF58_476D_1CE4_E5B9);
        z = (z ^ (z >> 27)).wrapping_mul(0x94D0_49BB_1331_11EB);
        z ^ (z >> 31)
    }

    /// Uniform in `0..n` (`n > 0`).
    pub fn below(&mut self, n: u64) -> u64 {
        self.next() % n
    }

    /// Uniform in `lo..=hi`.
    pub fn range(&mut self, lo: u64, hi: u64) -> u64 {
        if lo == 0 && hi == u64::MAX {
            return self.next();
        }
        lo + self.below(hi - lo + 1)
    }

    pub fn chance(&mut self, num: u64, den: u64) -> bool {
        self.below(den) < num
    }

    pub fn pick<'a, T>(&mut self, xs: &'a [T]) -> &'a T {
        &xs[self.below(xs.len() as u64) as usize]
    }

    /// Log-uniform u64: random bit width, then random value of that width.
    pub fn log_u64(&mut self) -> u64 {
        let bits = self.below(65);
        if bits == 0 {
            0
        } else {
            let v = self.next();
            (v >> (64 - bits)) | (1u64 << (bits - 1))
        }
    }

    pub fn log_u128(&mut self) -> u128 {
        let bits = self.below(129);
        if bits == 0 {
            0
        } else {
            let v = ((self.next() as u128) << 64) | self.next() as u128;
            (v >> (128 - bits)) | (1u128 << (bits - 1))
        }
    }
}

pub fn hex(s: &str) -> String {
    if s.is_empty() {
        return "-".into();
    }
    s.bytes().map(|b| format!("{b:02x}")).collect()
}

pub fn unhex(s: &str) -> String {
    if s == "-" {
        return String::new();
    }
    let bytes: Vec<u8> = (0..s.len() / 2)
        .map(|i| u8::from_str_radix(&s[2 * i..2 * i + 2], 16).unwrap())
        .collect();
    String::from_utf8(bytes).unwrap()
}
