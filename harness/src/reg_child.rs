//! Registry lab, child side.
//!
//! The parent passes an abstract benchmark program plus a run configuration in
//! `VERIF_REG` and divan-style command-line arguments. This process registers
//! the program's entries exactly the way the attribute macros' expansion does
//! (`BENCH_ENTRIES.push` / `GROUP_ENTRIES.push` of leaked statics built from
//! `divan::__private`), then runs the real `Divan` front end. Standard output
//! is divan's own; the invocation log goes to standard error (`@@` lines).

use divan::__private::{
    BenchArgs, BenchEntry, BenchEntryRunner, BenchOptions, EntryConst, EntryList,
    EntryLocation, EntryMeta, EntryType, GenericBenchEntry, GroupEntry, BENCH_ENTRIES,
    GROUP_ENTRIES,
};
use divan::Bencher;
use std::sync::atomic::{AtomicU64, Ordering::SeqCst};
use std::sync::{LazyLock, Mutex};
use std::time::Duration;

use crate::rng::unhex;

pub const SLOTS: usize = 64;

/// Argument lists per slot (set before any runner is asked for its args).
static ARG_TABLE: Mutex<Vec<Option<Vec<String>>>> = Mutex::new(Vec::new());
/// How often each slot's argument list was evaluated.
#[allow(clippy::declare_interior_mutable_const)]
const Z: AtomicU64 = AtomicU64::new(0);
static ARG_EVALS: [AtomicU64; SLOTS] = [Z; SLOTS];

fn log(line: String) {
    eprintln!("@@{line}");
}

/// Concurrent phase of a `conc=K` request: invocations are not logged and the
/// argument expressions take a while (so that runners racing for one
/// `BenchArgs` overlap).
static QUIET: std::sync::atomic::AtomicBool = std::sync::atomic::AtomicBool::new(false);

/// Body shared by every benchmark: count calls and distinct threads.
fn run_slot(slot: usize, arg: Option<&str>, bencher: Bencher) {
    let calls = AtomicU64::new(0);
    let threads = Mutex::new(Vec::<std::thread::ThreadId>::new());
    bencher.bench(|| {
        calls.fetch_add(1, SeqCst);
        let id = std::thread::current().id();
        let mut t = threads.lock().unwrap();
        if !t.contains(&id) {
            t.push(id);
        }
    });
    if QUIET.load(SeqCst) {
        return;
    }
    log(format!(
        "R {slot} {} {} {}",
        arg.map(crate::rng::hex).unwrap_or_else(|| "~".into()),
        calls.load(SeqCst),
        threads.lock().unwrap().len()
    ));
}

macro_rules! slots {
    ($($k:literal)*) => {
        const PLAIN: [fn(Bencher); SLOTS] = [$(
            { fn f(b: Bencher) { run_slot($k, None, b) } f },
        )*];
        const ARGS: [BenchEntryRunner; SLOTS] = [$(
            BenchEntryRunner::Args(|| {
                static A: BenchArgs = BenchArgs::new();
                A.runner(
                    || {
                        ARG_EVALS[$k].fetch_add(1, SeqCst);
                        if QUIET.load(SeqCst) {
                            std::thread::sleep(Duration::from_millis(2));
                        }
                        ARG_TABLE.lock().unwrap()[$k].clone().unwrap()
                    },
                    |s: &String| s.clone(),
                    |b, arg: &String| run_slot($k, Some(arg.as_str()), b),
                )
            }),
        )*];
    };
}
slots!(0 1 2 3 4 5 6 7 8 9 10 11 12 13 14 15 16 17 18 19 20 21 22 23 24 25 26 27 28 29 30 31
       32 33 34 35 36 37 38 39 40 41 42 43 44 45 46 47 48 49 50 51 52 53 54 55 56 57 58 59 60 61 62 63);

// The types available to generic benchmarks. Two of them share a display name.
pub mod ty_a {
    pub struct Foo;
}
pub mod ty_b {
    pub struct Foo;
}
pub const TYPE_COUNT: usize = 8;
fn entry_type(i: usize) -> EntryType {
    match i {
        0 => EntryType::new::<u8>(),
        1 => EntryType::new::<u16>(),
        2 => EntryType::new::<i32>(),
        3 => EntryType::new::<String>(),
        4 => EntryType::new::<Vec<u8>>(),
        5 => EntryType::new::<std::collections::HashMap<String, Vec<u8>>>(),
        6 => EntryType::new::<ty_a::Foo>(),
        _ => EntryType::new::<ty_b::Foo>(),
    }
}
pub fn type_raw_name(i: usize) -> &'static str {
    match i {
        0 => std::any::type_name::<u8>(),
        1 => std::any::type_name::<u16>(),
        2 => std::any::type_name::<i32>(),
        3 => std::any::type_name::<String>(),
        4 => std::any::type_name::<Vec<u8>>(),
        5 => std::any::type_name::<std::collections::HashMap<String, Vec<u8>>>(),
        6 => std::any::type_name::<ty_a::Foo>(),
        _ => std::any::type_name::<ty_b::Foo>(),
    }
}

fn leak_str(s: String) -> &'static str {
    Box::leak(s.into_boxed_str())
}

pub fn parse_opts(s: &str) -> Option<BenchOptions<'static>> {
    if s == "-" {
        return None;
    }
    let mut o = BenchOptions::default();
    for kv in s.split(',').filter(|x| !x.is_empty()) {
        let (k, v) = kv.split_once('=').unwrap();
        match k {
            "sc" => o.sample_count = Some(v.parse().unwrap()),
            "ss" => o.sample_size = Some(v.parse().unwrap()),
            "th" => {
                let t: Vec<usize> =
                    v.split(':').filter(|x| !x.is_empty()).map(|x| x.parse().unwrap()).collect();
                o.threads = Some(std::borrow::Cow::Owned(t));
            }
            "ig" => o.ignore = Some(v == "1"),
            "maxt" => o.max_time = Some(Duration::from_nanos(v.parse().unwrap())),
            "mint" => o.min_time = Some(Duration::from_nanos(v.parse().unwrap())),
            "sk" => o.skip_ext_time = Some(v == "1"),
            "items" => {
                o.counters.insert(divan::counter::ItemsCount::new(v.parse::<u64>().unwrap()));
            }
            "bytes" => {
                o.counters.insert(divan::counter::BytesCount::new(v.parse::<u64>().unwrap()));
            }
            "chars" => {
                o.counters.insert(divan::counter::CharsCount::new(v.parse::<u64>().unwrap()));
            }
            "cycles" => {
                o.counters.insert(divan::counter::CyclesCount::new(v.parse::<u64>().unwrap()));
            }
            _ => panic!("bad option {k}"),
        }
    }
    Some(o)
}

fn meta(t: &[&str]) -> EntryMeta {
    // <mod> <raw> <disp> <file> <line> <col> <opts>
    let opts = parse_opts(t[6]);
    EntryMeta {
        module_path: leak_str(unhex(t[0])),
        raw_name: leak_str(unhex(t[1])),
        display_name: leak_str(unhex(t[2])),
        location: EntryLocation {
            file: leak_str(unhex(t[3])),
            line: t[4].parse().unwrap(),
            col: t[5].parse().unwrap(),
        },
        bench_options: opts.map(|o| {
            let mut t = OPTS_TABLE.lock().unwrap();
            let k = t.len();
            assert!(k < 128, "too many entries with options");
            t.push(Some(o));
            LazyLock::new(OPT_FNS[k])
        }),
    }
}

// `EntryMeta::bench_options` is `Option<LazyLock<BenchOptions>>` with the
// default `fn() -> T` initialiser, so the options have to come from a plain
// function: park them in a table indexed by a per-entry function.
static OPTS_TABLE: Mutex<Vec<Option<BenchOptions<'static>>>> = Mutex::new(Vec::new());
macro_rules! opt_fns {
    ($($k:literal)*) => {
        const OPT_FNS: [fn() -> BenchOptions<'static>; 128] = [$(
            { fn f() -> BenchOptions<'static> { OPTS_TABLE.lock().unwrap()[$k].clone().unwrap() } f },
        )*];
    };
}
opt_fns!(0 1 2 3 4 5 6 7 8 9 10 11 12 13 14 15 16 17 18 19 20 21 22 23 24 25 26 27 28 29 30 31
         32 33 34 35 36 37 38 39 40 41 42 43 44 45 46 47 48 49 50 51 52 53 54 55 56 57 58 59 60 61 62 63
         64 65 66 67 68 69 70 71 72 73 74 75 76 77 78 79 80 81 82 83 84 85 86 87 88 89 90 91 92 93 94 95
         96 97 98 99 100 101 102 103 104 105 106 107 108 109 110 111 112 113 114 115 116 117 118 119 120 121 122 123 124 125 126 127);

enum Item {
    Bench { meta: EntryMeta, runner: BenchEntryRunner },
    Group { meta: EntryMeta, generic: Option<Vec<(Option<usize>, Option<ConstSpec>, BenchEntryRunner)>>, by_type: bool },
}

#[derive(Clone)]
enum ConstSpec {
    I(i64),
    S(String),
    C(char),
}

fn runner_for(slot: usize, args: &str) -> BenchEntryRunner {
    assert!(slot < SLOTS, "too many benchmark instances");
    if args == "-" {
        BenchEntryRunner::Plain(PLAIN[slot])
    } else {
        let list: Vec<String> =
            if args == "=" { vec![] } else { args.split(',').map(|a| unhex(a.split('~').next().unwrap())).collect() };
        let mut t = ARG_TABLE.lock().unwrap();
        if t.len() < SLOTS {
            t.resize(SLOTS, None);
        }
        t[slot] = Some(list);
        ARGS[slot]
    }
}

/// Parses the items; slot numbers are assigned in item order (generic
/// instances in types-major order), which is what the model assumes too.
fn parse_items(items: &[Vec<&str>]) -> Vec<Item> {
    let mut slot = 0;
    let mut out = Vec::new();
    for it in items {
        match it[0] {
            "B" => {
                let m = meta(&it[1..8]);
                let r = runner_for(slot, it[8]);
                slot += 1;
                out.push(Item::Bench { meta: m, runner: r });
            }
            "G" => {
                let m = meta(&it[1..8]);
                // <types> <consts> <args>
                let (types, consts, args) = (it[8], it[9], it[10]);
                if types == "-" && consts == "-" {
                    out.push(Item::Group { meta: m, generic: None, by_type: false });
                    continue;
                }
                let tys: Vec<Option<usize>> = if types == "-" {
                    vec![None]
                } else {
                    types.split(':').filter(|x| !x.is_empty()).map(|x| Some(x.split('~').next().unwrap().parse().unwrap())).collect()
                };
                let cs: Vec<Option<ConstSpec>> = if consts == "-" {
                    vec![None]
                } else {
                    let mut p = consts.split(':');
                    let kind = p.next().unwrap();
                    p.filter(|x| !x.is_empty())
                        .map(|v| {
                            Some(match kind {
                                "i" => ConstSpec::I(v.parse().unwrap()),
                                "s" => ConstSpec::S(unhex(v)),
                                _ => ConstSpec::C(unhex(v).chars().next().unwrap()),
                            })
                        })
                        .collect()
                };
                let mut g = Vec::new();
                for t in &tys {
                    for c in &cs {
                        g.push((*t, c.clone(), runner_for(slot, args)));
                        slot += 1;
                    }
                }
                out.push(Item::Group { meta: m, generic: Some(g), by_type: types != "-" && consts != "-" });
            }
            _ => panic!("bad item"),
        }
    }
    out
}

fn register(items: Vec<Item>, order: Vec<usize>) {
    let mut pushes: Vec<Box<dyn FnOnce()>> = Vec::new();
    for item in items {
        match item {
            Item::Bench { meta, runner } => {
                let e: &'static BenchEntry = Box::leak(Box::new(BenchEntry { meta, bench: runner }));
                let node: &'static EntryList<BenchEntry> = Box::leak(Box::new(EntryList::new(e)));
                pushes.push(Box::new(move || BENCH_ENTRIES.push(node)));
            }
            Item::Group { meta, generic, by_type: _ } => {
                let g: *mut GroupEntry = Box::leak(Box::new(GroupEntry { meta, generic_benches: None }));
                if let Some(list) = generic {
                    // One inner slice per type (like the macro), consts inside.
                    let mut by_ty: Vec<Vec<GenericBenchEntry>> = Vec::new();
                    let mut last_ty: Option<Option<usize>> = None;
                    for (t, c, runner) in list {
                        if last_ty != Some(t) {
                            by_ty.push(Vec::new());
                            last_ty = Some(t);
                        }
                        let const_value = c.map(|c| match c {
                            ConstSpec::I(v) => EntryConst::new::<i64>(Box::leak(Box::new(v))),
                            ConstSpec::S(v) => EntryConst::new::<String>(Box::leak(Box::new(v))),
                            ConstSpec::C(v) => EntryConst::new::<char>(Box::leak(Box::new(v))),
                        });
                        by_ty.last_mut().unwrap().push(GenericBenchEntry {
                            group: unsafe { &*g },
                            bench: runner,
                            ty: t.map(entry_type),
                            const_value,
                        });
                    }
                    // One contiguous allocation, so that the address order of
                    // the instances is their declaration order.
                    let lens: Vec<usize> = by_ty.iter().map(|v| v.len()).collect();
                    let all: &'static [GenericBenchEntry] =
                        Box::leak(by_ty.into_iter().flatten().collect::<Vec<_>>().into_boxed_slice());
                    let mut slices: Vec<&'static [GenericBenchEntry]> = Vec::new();
                    let mut at = 0;
                    for l in lens {
                        slices.push(&all[at..at + l]);
                        at += l;
                    }
                    unsafe { (*g).generic_benches = Some(Box::leak(slices.into_boxed_slice())) };
                }
                let g: &'static GroupEntry = unsafe { &*g };
                let node: &'static EntryList<GroupEntry> = Box::leak(Box::new(EntryList::new(g)));
                pushes.push(Box::new(move || GROUP_ENTRIES.push(node)));
            }
        }
    }
    let mut pushes: Vec<Option<Box<dyn FnOnce()>>> = pushes.into_iter().map(Some).collect();
    for i in order {
        (pushes[i].take().unwrap())();
    }
}

pub fn main(req: &str) {
    let toks: Vec<&str> = req.split(' ').filter(|t| !t.is_empty()).collect();
    assert_eq!(toks[0], "reg");
    let mut groups: Vec<Vec<&str>> = vec![Vec::new()];
    for t in &toks[1..] {
        if *t == "|" {
            groups.push(Vec::new());
        } else {
            groups.last_mut().unwrap().push(t);
        }
    }
    let cfg: std::collections::HashMap<&str, Vec<&str>> = {
        let mut m: std::collections::HashMap<&str, Vec<&str>> = Default::default();
        for kv in &groups[0] {
            let (k, v) = kv.split_once('=').unwrap();
            m.entry(k).or_default().push(v);
        }
        m
    };
    let get = |k: &str| cfg.get(k).and_then(|v| v.first().copied());
    let items = parse_items(&groups[1..]);
    let n_items = items.len();
    let order: Vec<usize> = match get("order") {
        Some(o) => o.split(':').filter(|x| !x.is_empty()).map(|x| x.parse().unwrap()).collect(),
        None => (0..n_items).collect(),
    };
    register(items, order);

    // `conc=K`: K threads of this process run Divan at the same time (a test
    // run of everything, one thread per benchmark) before the request proper.
    // `BenchArgs` is a `Sync` static: however many runners race for it, the
    // argument expression is evaluated once (`E` segment). What this phase
    // prints is cut off by the parent at the marker line.
    if let Some(k) = get("conc").and_then(|v| v.parse::<usize>().ok()) {
        use std::io::Write;
        QUIET.store(true, SeqCst);
        let barrier = std::sync::Arc::new(std::sync::Barrier::new(k));
        let hs: Vec<_> = (0..k)
            .map(|_| {
                let b = barrier.clone();
                std::thread::spawn(move || {
                    b.wait();
                    divan::Divan::default().threads([1usize]).test_benches();
                })
            })
            .collect();
        let ok = hs.into_iter().map(|h| h.join().is_ok()).fold(true, |a, b| a && b);
        QUIET.store(false, SeqCst);
        let _ = std::io::stdout().flush();
        // a panic of a concurrent run (the known comparator finding F8 can panic inside `sort_by`) is noted
        // on the log, not in the observation: this phase is there for the evaluation counts
        if !ok {
            log("CONCPANIC".into());
        }
        println!("\n@@PHASE2");
    }

    let mut d = divan::Divan::default();
    // Runtime options through the builder.
    if get("via") == Some("builder") {
        if let Some(v) = get("o.sc") {
            d = d.sample_count(v.parse().unwrap());
        }
        if let Some(v) = get("o.ss") {
            d = d.sample_size(v.parse().unwrap());
        }
        if let Some(v) = get("o.th") {
            let t: Vec<usize> = v.split(':').filter(|x| !x.is_empty()).map(|x| x.parse().unwrap()).collect();
            d = d.threads(t);
        }
        if let Some(v) = get("o.maxt") {
            d = d.max_time(Duration::from_nanos(v.parse().unwrap()));
        }
        if let Some(v) = get("o.mint") {
            d = d.min_time(Duration::from_nanos(v.parse().unwrap()));
        }
        if let Some(v) = get("o.sk") {
            d = d.skip_ext_time(v == "1");
        }
        if let Some(v) = get("o.items") {
            d = d.items_count(v.parse::<u64>().unwrap());
        }
        if let Some(v) = get("o.bytes") {
            d = d.bytes_count(v.parse::<u64>().unwrap());
        }
        if let Some(v) = get("o.chars") {
            d = d.chars_count(v.parse::<u64>().unwrap());
        }
        if let Some(v) = get("o.cycles") {
            d = d.cycles_count(v.parse::<u64>().unwrap());
        }
        if let Some(v) = get("bf") {
            d = d.bytes_format(if v == "binary" { divan::counter::BytesFormat::Binary } else { divan::counter::BytesFormat::Decimal });
        }
        match get("ign") {
            Some("inc") => d = d.run_ignored(),
            Some("only") => d = d.run_only_ignored(),
            _ => {}
        }
        for s in cfg.get("s").cloned().unwrap_or_default() {
            if get("exact") == Some("1") {
                d = d.skip_exact(unhex(s));
            } else {
                d = d.skip_regex(unhex(s).as_str());
            }
        }
    }
    let d = if get("noargs") == Some("1") { d } else { d.config_with_args() };
    log(format!("CFG {}", d.verif_dump().replace(' ', ";")));
    match get("act").unwrap() {
        "listapi" => d.list_benches(),
        "benchapi" => d.run_benches(),
        "testapi" => d.test_benches(),
        _ => d.main(),
    }
    use std::io::Write;
    let _ = std::io::stdout().flush();
    let evals: Vec<String> = ARG_EVALS.iter().map(|a| a.load(SeqCst).to_string()).collect();
    log(format!("E {}", evals.join(" ")));
    log("DONE".into());
}
