import DivanModel.Driver.Util
import DivanModel.Driver.C11
import DivanModel.Driver.C10
import DivanModel.Driver.C18
import DivanModel.Driver.C16
import DivanModel.Driver.Reg
import DivanModel.Driver.Bench
import DivanModel.Driver.Paint
import DivanModel.Driver.Pool
/-! Line-protocol driver. One request per line: `verb args…<TAB>implementation observation`.
    One answer per line: `model observation<TAB>spec verdict on the implementation's observation<TAB>branch tag`. -/
open Driver

def dispatch (verb : String) (args : List String) (obs : String) : Option Reply :=
  match verb with
  | "tsc" | "tsc3" | "tscshift" | "dur" | "osdur" | "prec" | "precs" => C11.handle verb args obs
  | "tally" | "tallymt" | "prof" => C10.handle verb args obs
  | "fd" | "f64" | "bytes" | "thr" => C18.handle verb args obs
  | "natcmp" | "natcmp3" | "argcmp" | "argsort" => C16.handle verb args obs
  | "bench" => Bench.handle args obs
  | "paint" => PaintLab.handle args obs
  | "pool" => Pool.handle args obs
  | "reg" => Reg.handle args obs
  | "mac" => Reg.handleMac args obs
  | "ovw" => Reg.handleOvw args obs
  | "elist" => Reg.handleElist args obs
  | _ => none

def answer (line : String) : String :=
  let line := (line.dropEndWhile (fun c => c = '\n' || c = '\r')).toString
  let (req, obs) := match line.splitOn "\t" with
    | [r] => (r, "")
    | r :: o :: _ => (r, o)
    | [] => ("", "")
  match words req with
  | [] => "bad-op\tbad:empty request\tbad-op"
  | verb :: args =>
    match dispatch verb args obs with
    | some r =>
      -- a lab reports a panic of the code under test as `panic:<hex of the message>`; whatever the
      -- lab, none of the modelled operations may panic on the inputs the labs generate (handlers that
      -- interpret a panic themselves - the argument sort under finding F8 - keep their verdict)
      if obs.startsWith "panic:" ∧ (r.verdict = "ok" ∨ (r.verdict.splitOn "malformed observation").length > 1) then
        let msg := String.fromUTF8! (ByteArray.mk ((unhexBytes ((obs.drop 6).toString)).map (·.toUInt8)).toArray)
        s!"{r.model}\tbad:the implementation panicked while executing this request: {msg}\t{r.tag}"
      else s!"{r.model}\t{r.verdict}\t{r.tag}"
    | none => "bad-op\tbad:unknown or malformed request\tbad-op"

partial def loop (h : IO.FS.Stream) (out : IO.FS.Stream) : IO Unit := do
  let line ← h.getLine
  if line.isEmpty then return ()
  out.putStrLn (answer line)
  loop h out

def main : IO Unit := do
  let out ← IO.getStdout
  loop (← IO.getStdin) out
  out.flush
