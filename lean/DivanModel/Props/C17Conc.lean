/-! # C17 (last sentence), concurrent runs — `OnceLock::get_or_init` evaluates the list once for every schedule

`Props/C17Once.lean` covers one thread asking repeatedly. `BenchArgs` is a `Sync` static and two
runners of one process may reach `BenchArgs::runner` at the same time (two threads calling
`Divan::main` / `test_benches`, or a benchmark that itself drives Divan). The code evaluates the `args`
expression *inside* `OnceLock::get_or_init`. Model: any number of threads, each making one `runner`
call; the steps are the ones `Once` makes observable - win the cell and start evaluating, finish and
publish, or find the cell full and read it; a thread that finds the cell busy has no step until the
owner finishes. The `args` expression may be impure: its value depends on how often it was evaluated
before (`mk evals`). Core only. -/
namespace ArgsConc

inductive Cell (A : Type) | empty | busy | full (v : A)
inductive PC (A : Type) | start | eval | done (v : A)

structure S (A : Type) where
  cell : Cell A
  pc : Nat → PC A
  evals : Nat

def upd {β : Type} (f : Nat → β) (i : Nat) (v : β) : Nat → β := fun j => if j = i then v else f j

/-- steps of `get_or_init(make_args)` executed by thread `i` -/
inductive Step {A : Type} (mk : Nat → A) : S A → S A → Prop
  /-- the cell is empty: this thread wins it and starts evaluating the `args` expression -/
  | enter (s : S A) (i : Nat) (hp : s.pc i = .start) (hc : s.cell = .empty) :
      Step mk s { cell := .busy, pc := upd s.pc i .eval, evals := s.evals + 1 }
  /-- the evaluation is over: publish the list -/
  | finish (s : S A) (i : Nat) (hp : s.pc i = .eval) :
      Step mk s { s with cell := .full (mk (s.evals - 1)), pc := upd s.pc i (.done (mk (s.evals - 1))) }
  /-- the cell is full: use what is there -/
  | read (s : S A) (i : Nat) (v : A) (hp : s.pc i = .start) (hc : s.cell = .full v) :
      Step mk s { s with pc := upd s.pc i (.done v) }

def init (A : Type) : S A := { cell := .empty, pc := fun _ => .start, evals := 0 }

inductive Reach {A : Type} (mk : Nat → A) : S A → Prop
  | init : Reach mk (init A)
  | step {s t} : Reach mk s → Step mk s t → Reach mk t

structure Inv {A : Type} (mk : Nat → A) (s : S A) : Prop where
  empty_zero : s.cell = .empty → s.evals = 0 ∧ ∀ i, s.pc i = .start
  nonempty_one : s.cell ≠ .empty → s.evals = 1
  eval_busy : ∀ i, s.pc i = .eval → s.cell = .busy
  eval_unique : ∀ i j, s.pc i = .eval → s.pc j = .eval → i = j
  busy_owner : s.cell = .busy → ∃ i, s.pc i = .eval
  full_val : ∀ v, s.cell = .full v → v = mk 0
  done_val : ∀ i v, s.pc i = .done v → s.cell = .full v

theorem inv_init {A : Type} (mk : Nat → A) : Inv mk (init A) := by
  constructor <;> simp [init]

theorem inv_step {A : Type} (mk : Nat → A) (s t : S A) (h : Inv mk s) (hs : Step mk s t) : Inv mk t := by
  cases hs with
  | enter i hp hc =>
    have h0 := h.empty_zero hc
    constructor
    · intro hce; simp at hce
    · intro _; simp [h0.1]
    · intro j _; rfl
    · intro j k hj hk
      simp only [upd] at hj hk
      by_cases e1 : j = i <;> by_cases e2 : k = i <;> simp_all
    · intro _; exact ⟨i, by simp [upd]⟩
    · intro v hv; simp at hv
    · intro j v hj
      simp only [upd] at hj
      by_cases e : j = i
      · simp [e] at hj
      · simp [e, h0.2 j] at hj
  | finish i hp =>
    have hb := h.eval_busy i hp
    have h1 : s.evals = 1 := h.nonempty_one (by rw [hb]; simp)
    constructor
    · intro hce; simp at hce
    · intro _; exact h1
    · intro j hj
      simp only [upd] at hj
      by_cases e : j = i
      · simp [e] at hj
      · simp [e] at hj; exact absurd (h.eval_unique j i hj hp) e
    · intro j k hj hk
      simp only [upd] at hj hk
      by_cases e1 : j = i
      · simp [e1] at hj
      · by_cases e2 : k = i
        · simp [e2] at hk
        · simp [e1] at hj; simp [e2] at hk; exact h.eval_unique j k hj hk
    · intro hc; simp at hc
    · intro v hv; simp [h1] at hv; exact hv.symm
    · intro j v hj
      simp only [upd] at hj
      by_cases e : j = i
      · simp [e] at hj; simp [hj]
      · simp [e] at hj
        have := h.done_val j v hj
        rw [hb] at this; simp at this
  | read i v hp hc =>
    constructor
    · intro hce; simp [hc] at hce
    · intro hne; exact h.nonempty_one hne
    · intro j hj
      simp only [upd] at hj
      by_cases e : j = i
      · simp [e] at hj
      · simp [e] at hj; exact h.eval_busy j hj
    · intro j k hj hk
      simp only [upd] at hj hk
      by_cases e1 : j = i
      · simp [e1] at hj
      · by_cases e2 : k = i
        · simp [e2] at hk
        · simp [e1] at hj; simp [e2] at hk; exact h.eval_unique j k hj hk
    · intro hb; simp [hc] at hb
    · intro w hw; exact h.full_val w hw
    · intro j w hj
      simp only [upd] at hj
      by_cases e : j = i
      · simp [e] at hj; simp [← hj, hc]
      · simp [e] at hj; exact h.done_val j w hj

theorem inv_reach {A : Type} (mk : Nat → A) (s : S A) (h : Reach mk s) : Inv mk s := by
  induction h with
  | init => exact inv_init mk
  | step _ hs ih => exact inv_step mk _ _ ih hs

/-- **evaluated at most once, for every schedule of any number of concurrent runners**, and exactly
    once as soon as any runner has its list -/
theorem evaluated_once {A : Type} (mk : Nat → A) (s : S A) (h : Reach mk s) :
    s.evals ≤ 1 ∧ (∀ i v, s.pc i = .done v → s.evals = 1) := by
  have hi := inv_reach mk s h
  constructor
  · cases hc : s.cell with
    | empty => simp [(hi.empty_zero hc).1]
    | busy => simp [hi.nonempty_one (by rw [hc]; simp)]
    | full v => simp [hi.nonempty_one (by rw [hc]; simp)]
  · intro i v hd
    have := hi.done_val i v hd
    exact hi.nonempty_one (by rw [this]; simp)

/-- **every runner gets the one list**: whatever a thread was handed is the value of the first (and
    only) evaluation, however impure the expression is - so all instantiations and all concurrent runs
    agree on the arguments -/
theorem all_share_the_list {A : Type} (mk : Nat → A) (s : S A) (h : Reach mk s) (i : Nat) (v : A)
    (hd : s.pc i = .done v) : v = mk 0 := by
  have hi := inv_reach mk s h
  exact hi.full_val v (hi.done_val i v hd)

/-- **nobody waits forever**: a thread that has not got its list yet either can step itself or waits
    for an evaluation that some thread is performing (and `finish` is enabled for that thread) -/
theorem no_runner_stuck {A : Type} (mk : Nat → A) (s : S A) (h : Reach mk s) (i : Nat)
    (hp : s.pc i = .start) : ∃ t, Step mk s t := by
  have hi := inv_reach mk s h
  cases hc : s.cell with
  | empty => exact ⟨_, .enter s i hp hc⟩
  | busy =>
    obtain ⟨j, hj⟩ := hi.busy_owner hc
    exact ⟨_, .finish s j hj⟩
  | full v => exact ⟨_, .read s i v hp hc⟩

/-! ## The shape of a seeded change: check, evaluate outside the cell, then `get_or_init(|| value)` -/

inductive PC' (A : Type) | start | evalOutside | have_ (v : A) | done (v : A)

structure S' (A : Type) where
  cell : Option A
  pc : Nat → PC' A
  evals : Nat

/-- `match cell.get() { Some(a) => a, None => { let a = make_args(); cell.get_or_init(|| a) } }` -/
inductive Step' {A : Type} (mk : Nat → A) : S' A → S' A → Prop
  | checkEmpty (s : S' A) (i : Nat) (hp : s.pc i = .start) (hc : s.cell = none) :
      Step' mk s { s with pc := upd s.pc i .evalOutside }
  | checkFull (s : S' A) (i : Nat) (v : A) (hp : s.pc i = .start) (hc : s.cell = some v) :
      Step' mk s { s with pc := upd s.pc i (.done v) }
  | evaluated (s : S' A) (i : Nat) (hp : s.pc i = .evalOutside) :
      Step' mk s { s with pc := upd s.pc i (.have_ (mk s.evals)), evals := s.evals + 1 }
  | store (s : S' A) (i : Nat) (v : A) (hp : s.pc i = .have_ v) :
      Step' mk s { s with cell := some (s.cell.getD v), pc := upd s.pc i (.done (s.cell.getD v)) }

/-- two runners that both find the cell empty evaluate the expression twice -/
example : ∃ s1 s2 s3 s4 : S' Nat,
    Step' (fun k => 100 + k) ⟨none, fun _ => .start, 0⟩ s1 ∧ Step' (fun k => 100 + k) s1 s2 ∧
    Step' (fun k => 100 + k) s2 s3 ∧ Step' (fun k => 100 + k) s3 s4 ∧ s4.evals = 2 := by
  refine ⟨_, _, _, _, .checkEmpty _ 0 rfl rfl, .checkEmpty _ 1 (by simp [upd]) rfl,
    .evaluated _ 0 (by simp [upd]), .evaluated _ 1 (by simp [upd]), rfl⟩

/-- non-vacuity of the main theorems: a run of two threads in which the second waits for the first -/
example : ∃ s : S Nat, Reach (fun k => 100 + k) s ∧ s.pc 0 = .done 100 ∧ s.pc 1 = .done 100 ∧ s.evals = 1 := by
  refine ⟨_, .step (.step (.step .init (.enter _ 0 rfl rfl)) (.finish _ 0 (by simp [upd]))) (.read _ 1 100 (by simp [upd, init]) rfl), ?_, ?_, ?_⟩ <;> simp [upd, init]

end ArgsConc
