import DivanModel.Model.Stats
/-! # C05 — reported statistics are the exact order statistics of the samples -/
namespace Stats

/-- **time statistics are the order statistics**: for every non-empty sorted sample list and positive
    sample size, fastest/slowest are the smallest/largest sample divided by the sample size, median is
    the middle sample (mean of the two middle ones) divided by it, mean is total / total iterations,
    hence fastest ≤ median ≤ slowest and fastest ≤ mean ≤ slowest -/
theorem time_order_statistics (s : Nat) (hs : 0 < s) (sorted : List Nat) (hne : sorted ≠ [])
    (hsorted : sorted.Pairwise (· ≤ ·)) :
    let st := timeStats s sorted
    (∃ mn, sorted.head? = some mn ∧ (∀ x ∈ sorted, mn ≤ x) ∧ st.fastest = mn / s) ∧
    (∃ mx, sorted.getLast? = some mx ∧ (∀ x ∈ sorted, x ≤ mx) ∧ st.slowest = mx / s) ∧
    st.fastest ≤ st.median ∧ st.median ≤ st.slowest ∧ st.fastest ≤ st.mean ∧ st.mean ≤ st.slowest :=
  time_order s hs sorted hne hsorted

/-- median and mean, spelled out -/
theorem median_mean_eq (s : Nat) (sorted : List Nat) (hne : sorted ≠ []) (hs : 0 < s) :
    (timeStats s sorted).median = (sum (sliceMiddle sorted) / (sliceMiddle sorted).length) / s ∧
    (timeStats s sorted).mean = sum sorted / (s * sorted.length) := by
  have hm := sliceMiddle_ne sorted hne
  have hme : (sliceMiddle sorted).isEmpty = false := by
    cases h : sliceMiddle sorted with
    | nil => exact absurd h hm
    | cons _ _ => rfl
  have hl : 0 < sorted.length := List.length_pos_iff.mpr hne
  have : ¬ (s * sorted.length = 0) := by
    have : 0 < s * sorted.length := Nat.mul_pos hs hl
    omega
  simp [timeStats, hme, this]

/-- the middle of a list with an odd number of samples is the middle sample; with an even number the
    two middle ones -/
theorem sliceMiddle_length (l : List Nat) (h : l ≠ []) :
    (sliceMiddle l).length = if l.length % 2 = 0 then 2 else 1 := by
  have hl : 0 < l.length := List.length_pos_iff.mpr h
  unfold sliceMiddle
  have h0 : ¬ l.length = 0 := by omega
  simp only [h0, if_false]
  split <;> simp <;> omega

/-- **figures belong to the very sample that supplied the time**: the allocation / counter value shown
    under fastest (slowest) is the one stored at the index of the sample whose duration is shown there -/
theorem alloc_of_same_sample {α} (durs : List Nat) (vals : List α) (sorted : List Nat) :
    (∀ i, sorted.head? = some i → (pick durs sorted).fastest = durs[i]? ∧ (pick vals sorted).fastest = vals[i]?) ∧
    (∀ i, sorted.getLast? = some i → (pick durs sorted).slowest = durs[i]? ∧ (pick vals sorted).slowest = vals[i]?) := by
  constructor <;> intro i h <;> simp [pick, h]

/-- a per-input counter's per-iteration value is the sum over the sample's inputs divided by the sample size -/
theorem counter_per_iter (inputCounts : List Nat) (s : Nat) : perIter inputCounts s = sum inputCounts / s := rfl

/-- **no sample recorded**: every time statistic is zero, nothing divides by zero -/
theorem no_samples_time_zero (s : Nat) : timeStats s [] = ⟨0, 0, 0, 0⟩ := empty_is_zero s

/-- F3 (pinned code, fixed in 74f36a5): with zero samples the counter median divided by zero -/
theorem f3_counter_median_pinned : counterMedianPinned [] = none := by decide

/-- **computing statistics never divides by zero** (repaired code): the counter median is total, and
    agrees with the plain quotient whenever there is a sample -/
theorem no_div_by_zero (mid : List Nat) :
    counterMedian [] = 0 ∧ (mid ≠ [] → some (counterMedian mid) = counterMedianPinned mid) := by
  refine ⟨by decide, ?_⟩
  intro h
  have : mid.length ≠ 0 := by
    intro e; exact h (List.eq_nil_of_length_eq_zero e)
  simp [counterMedian, counterMedianPinned, this]

example : timeStats 2 [10, 20, 31, 40] = ⟨5, 20, 12, 12⟩ := by decide

end Stats
