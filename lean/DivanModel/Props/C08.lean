import DivanModel.Model.Barrier
/-! # C08 — threads of a parallel benchmark enter and leave timed sections together

`Model/Barrier.lean`: T threads (any T), one round of the phase program of a sample
(0 generate | 1 wait | 2 clear tally | 3 wait | 4 timed section | 5 wait | 6 drop | 7 done), a barrier
that releases wait k only when all T threads arrived, and panics in any work phase. `guard = true` is
the repaired code (F5): an unwinding thread keeps its remaining barrier appointments. -/
namespace Bar

/-- initial state of a round -/
def init (T : Nat) : Sys :=
  { T := T, guard := true, pos := fun _ => 0, pan := fun _ => false, dead := fun _ => false, arr := fun _ => 0 }

theorem cntGt_zero (p k : Nat) : cntGt (fun _ => 0) p k = 0 := by
  induction k with
  | zero => rfl
  | succ m ih => simp [cntGt, ih]

theorem inv_init (T : Nat) : Inv (init T) := by
  refine ⟨rfl, fun _ => rfl, fun _ _ => by simp [init], ?_, ?_⟩
  · intro k _; simp [init, cntGt_zero]
  · intro k i _ _ h; simp [init] at h

/-- the invariant holds in every reachable state, under every interleaving and any panics -/
inductive Reach (T : Nat) : Sys → Prop
  | init : Reach T (init T)
  | step (s s') : Reach T s → Step s s' → Reach T s'

theorem reach_inv (T : Nat) (s : Sys) (h : Reach T s) : Inv s := by
  induction h with
  | init => exact inv_init T
  | step s s' _ hs ih => exact inv_step s s' ih hs

theorem reach_T (T : Nat) (s : Sys) (h : Reach T s) : s.T = T := by
  induction h with
  | init => rfl
  | step s s' _ hs ih => cases hs <;> simpa using ih

/-- **safety**: in every reachable state, while some thread is inside its timed section every thread has
    finished generating its inputs and had its tally cleared, and no thread has started dropping: one
    thread's untimed work never overlaps another's timed section -/
theorem timed_sections_together (T : Nat) (s : Sys) (h : Reach T s) (i j : Nat) (hi : i < s.T) (hj : j < s.T)
    (ht : s.pos i = 4) : 3 ≤ s.pos j ∧ s.pos j ≤ 5 := timed_overlap s (reach_inv T s h) i j hi hj ht

/-- **no hang** (repaired code): every reachable state that is not final has a successor, for every
    thread count and whatever threads panicked in whatever phase -/
theorem no_deadlock (T : Nat) (s : Sys) (h : Reach T s) (hnf : ¬ Final s) : ∃ s', Step s s' :=
  deadlock_free s (reach_inv T s h) hnf

/-- F5 (pinned code, `guard = false`): with T = 2, one thread panicking while generating inputs leaves
    the other waiting at the first barrier forever: a non-final state without successor -/
theorem f5_stuck_witness : ¬ Final stuck ∧ ∀ s', ¬ Step stuck s' := ⟨stuck_not_final, stuck_no_step⟩

/-- each thread's tally is its own: a step of thread `i` changes no other thread's position (and, in the
    tally model of C10, no other thread's tally) -/
theorem step_is_local (s s' : Sys) (hs : Step s s') : ∃ i, ∀ j, j ≠ i → s'.pos j = s.pos j := by
  cases hs with
  | work i _ _ _ => exact ⟨i, fun j hj => by simp [upd_other _ _ _ _ hj]⟩
  | pass i _ _ _ _ => exact ⟨i, fun j hj => by simp [upd_other _ _ _ _ hj]⟩
  | panicGuard i _ _ _ _ _ => exact ⟨i, fun j _ => rfl⟩
  | panicDead i _ _ _ _ => exact ⟨i, fun j _ => rfl⟩

end Bar
