import DivanModel.Model.Prog
/-! # C15 — options resolve per field: run time over benchmark over innermost group -/
namespace Prog

/-- a *field* of `BenchOptions`: a projection that `overwrite` treats independently of all others.
    All eleven fields (sample_count, sample_size, threads, ignore, max_time, min_time, skip_ext_time and
    the four counter kinds) are fields in this sense (`all_fields` below). -/
structure Field (α : Type) where
  get : Opts → Option α
  ow : ∀ a b : Opts, get (a.overwrite b) = (get a).or (get b)

def fSc : Field Nat := ⟨(·.sc), fun _ _ => rfl⟩
def fSs : Field Nat := ⟨(·.ss), fun _ _ => rfl⟩
def fTh : Field (List Nat) := ⟨(·.th), fun _ _ => rfl⟩
def fIg : Field Bool := ⟨(·.ig), fun _ _ => rfl⟩
def fMaxt : Field Nat := ⟨(·.maxt), fun _ _ => rfl⟩
def fMint : Field Nat := ⟨(·.mint), fun _ _ => rfl⟩
def fSk : Field Bool := ⟨(·.sk), fun _ _ => rfl⟩
def fBytes : Field Nat := ⟨(·.bytes), fun _ _ => rfl⟩
def fChars : Field Nat := ⟨(·.chars), fun _ _ => rfl⟩
def fCycles : Field Nat := ⟨(·.cycles), fun _ _ => rfl⟩
def fItems : Field Nat := ⟨(·.items), fun _ _ => rfl⟩

/-- `overwrite` works field by field: the value set in `self` wins, else `other`'s -/
theorem overwrite_fieldwise {α} (f : Field α) (a b : Opts) : f.get (a.overwrite b) = (f.get a).or (f.get b) := f.ow a b

/-- options met while descending from the root to a benchmark, outermost first
    (`none` = a level without options) -/
def descendAll (levels : List (Option Opts)) : Option Opts := levels.foldl descendOpts none

/-- first level that sets the field, innermost first -/
def firstSome {α} (f : Field α) : List (Option Opts) → Option α
  | [] => none
  | o :: rest => (o.bind f.get).or (firstSome f rest)

theorem descendOpts_get {α} (f : Field α) (p c : Option Opts) :
    (descendOpts p c).bind f.get = (c.bind f.get).or (p.bind f.get) := by
  cases p <;> cases c <;> simp [descendOpts, f.ow]

theorem descendAll_get {α} (f : Field α) (levels : List (Option Opts)) (init : Option Opts) :
    (levels.foldl descendOpts init).bind f.get = (firstSome f levels.reverse).or (init.bind f.get) := by
  induction levels generalizing init with
  | nil => simp [firstSome]
  | cons l ls ih =>
    simp only [List.foldl_cons, List.reverse_cons]
    rw [ih, descendOpts_get]
    -- firstSome over `ls.reverse ++ [l]`
    have happ : ∀ (xs : List (Option Opts)) (y : Option Opts),
        firstSome f (xs ++ [y]) = (firstSome f xs).or (y.bind f.get) := by
      intro xs y
      induction xs with
      | nil => simp [firstSome]
      | cons x xs ih2 => simp [firstSome, ih2, Option.or_assoc]
    rw [happ, Option.or_assoc]

/-- **per-field resolution**: for every chain of levels (outermost group … innermost group, then the
    benchmark itself) and every field independently, the effective value is the run-time one, else the
    first level - innermost first - that sets *this* field, else unset (the documented default applies).
    Options of other fields, at any level, do not occur in the right-hand side: they cannot mask it. -/
theorem resolve_first_some {α} (f : Field α) (cfg : Cfg) (levels : List (Option Opts)) :
    f.get (effOpts cfg (descendAll levels)) = (f.get cfg.runtime).or (firstSome f levels.reverse) := by
  have h := descendAll_get f levels none
  simp only [Option.bind_none, Option.or_none] at h
  unfold effOpts descendAll
  cases hd : levels.foldl descendOpts none with
  | none => rw [hd] at h; simp at h; simp [← h]
  | some eo => rw [hd] at h; simp at h; rw [f.ow, ← h]

/-- two option assignments that agree on one field at every level resolve that field identically,
    whatever they say about other fields -/
theorem field_independence {α} (f : Field α) (c1 c2 : Cfg) (l1 l2 : List (Option Opts))
    (hr : f.get c1.runtime = f.get c2.runtime)
    (hl : l1.map (·.bind f.get) = l2.map (·.bind f.get)) :
    f.get (effOpts c1 (descendAll l1)) = f.get (effOpts c2 (descendAll l2)) := by
  rw [resolve_first_some, resolve_first_some, hr]
  congr 1
  have : ∀ (a b : List (Option Opts)), a.map (·.bind f.get) = b.map (·.bind f.get) → firstSome f a = firstSome f b := by
    intro a
    induction a with
    | nil => intro b hb; cases b <;> simp_all [firstSome]
    | cons x xs ih =>
      intro b hb
      cases b with
      | nil => simp at hb
      | cons y ys =>
        simp only [List.map_cons, List.cons.injEq] at hb
        simp [firstSome, hb.1, ih ys hb.2]
  apply this
  simp only [List.map_reverse, hl]

/-! ### ignore flags -/

/-- a benchmark whose effective `ignore` is true is skipped unless `--ignored` or `--include-ignored`
    is given; `--ignored` skips exactly those whose effective `ignore` is false -/
theorem ignore_semantics :
    shouldIgnore 0 true = true ∧ shouldIgnore 0 false = false ∧        -- default
    shouldIgnore 1 true = false ∧ shouldIgnore 1 false = false ∧       -- --include-ignored
    shouldIgnore 2 true = false ∧ shouldIgnore 2 false = true := by    -- --ignored
  decide

/-! ### thread counts -/

theorem dedupAdj_sub (l : List Nat) : ∀ x, x ∈ dedupAdj l → x ∈ l := by
  induction l using dedupAdj.induct with
  | case1 => simp [dedupAdj]
  | case2 x => simp [dedupAdj]
  | case3 x r ih =>
    intro z hz; simp only [dedupAdj, if_true] at hz
    exact List.mem_cons_of_mem _ (ih z hz)
  | case4 x y r h ih =>
    intro z hz; simp only [dedupAdj, h, if_false] at hz
    rcases List.mem_cons.mp hz with rfl | hz
    · simp
    · exact List.mem_cons_of_mem _ (ih z hz)

theorem dedupAdj_head (l : List Nat) : ∀ a r, dedupAdj l = a :: r → ∃ r', l = a :: r' := by
  induction l using dedupAdj.induct with
  | case1 => simp [dedupAdj]
  | case2 x => intro a r h; simp [dedupAdj] at h; exact ⟨[], by simp [h.1]⟩
  | case3 x r ih =>
    intro a r' hd; simp only [dedupAdj, if_true] at hd
    obtain ⟨r'', e⟩ := ih a r' hd
    simp at e; exact ⟨x :: r, by simp [e.1]⟩
  | case4 x y r h ih =>
    intro a r' hd; simp only [dedupAdj, h, if_false] at hd
    simp at hd; exact ⟨y :: r, by simp [hd.1]⟩

/-- sorted input ⇒ strictly increasing output -/
theorem dedupAdj_strict (l : List Nat) (hs : l.Pairwise (· ≤ ·)) : (dedupAdj l).Pairwise (· < ·) := by
  induction l using dedupAdj.induct with
  | case1 => simp [dedupAdj]
  | case2 x => simp [dedupAdj]
  | case3 x r ih =>
    simp only [dedupAdj, if_true]
    exact ih (List.Pairwise.of_cons hs)
  | case4 x y r h ih =>
    simp only [dedupAdj, h, if_false]
    have hs' := List.Pairwise.of_cons hs
    refine List.Pairwise.cons ?_ (ih hs')
    intro z hz
    have hz' := dedupAdj_sub _ z hz
    have hxy : x ≤ y := (List.pairwise_cons.mp hs).1 y (by simp)
    rcases List.mem_cons.mp hz' with rfl | hzr
    · omega
    · have : y ≤ z := (List.pairwise_cons.mp hs').1 z hzr
      omega

/-- **thread counts are normalised**: the list of thread counts a benchmark runs with is strictly
    increasing (duplicates collapse) and, when the available parallelism is positive, all positive
    (0 means the available parallelism) -/
theorem threads_normalised (th : Option (List Nat)) (par : Nat) (hp : 0 < par) :
    (threadCounts th par).Pairwise (· < ·) ∧ ∀ t ∈ threadCounts th par, 0 < t := by
  unfold threadCounts
  simp only
  have hsorted : ((th.getD []).map fun n => if n = 0 then par else n).mergeSort (· ≤ ·) |>.Pairwise (· ≤ ·) := by
    have := List.pairwise_mergeSort (le := fun a b : Nat => decide (a ≤ b))
      (fun a b c => by simp; omega) (fun a b => by simp; omega)
      ((th.getD []).map fun n => if n = 0 then par else n)
    simpa using this
  split
  · simp
  · refine ⟨dedupAdj_strict _ hsorted, ?_⟩
    intro t ht
    have h1 := dedupAdj_sub _ t ht
    have h2 : t ∈ (th.getD []).map fun n => if n = 0 then par else n := (List.mergeSort_perm _ _).subset h1
    simp only [List.mem_map] at h2
    obtain ⟨n, _, rfl⟩ := h2
    split <;> omega

/-- a counter given to `Bencher::counter` replaces only the counter of its own kind -/
def setCounter (cs : Nat → Option Nat) (kind : Nat) (v : Nat) : Nat → Option Nat :=
  fun k => if k = kind then some v else cs k

theorem counter_replaces_own_kind (cs : Nat → Option Nat) (kind v k : Nat) (h : k ≠ kind) :
    setCounter cs kind v k = cs k := by simp [setCounter, h]

/-! non-vacuity: a three-level chain where a different field is set at every level -/
example : (effOpts { action := .test, runtime := { ss := some 7 } }
            (descendAll [some { sc := some 3, ig := some true }, none, some { ig := some false }])).sc = some 3 := by decide
example : fIg.get (effOpts { action := .test } (descendAll [some { ig := some true }, some { ig := some false }])) = some false := by decide

end Prog
