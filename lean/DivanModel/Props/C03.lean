import DivanModel.Model.RoundLoop
/-! # C03 — sample_count, sample_size and threads fix the number of calls exactly

Theorems about `Model/RoundLoop.lean` (`bench_loop_threaded` at round granularity; the clock history is
an arbitrary list of per-round observations). The bench lab drives `RoundLoop.continues` /
`stepRound` with rounds simulated from scripted virtual clocks and compares calls, samples and
statistics with the real code. -/
namespace RoundLoop

/-- **bench mode, explicit sample size, no time limit reached**: for every `(n, s, T)` and every clock
    history that stays below `max_time`, the run makes `s·T·⌈n/T⌉` calls, records `T·⌈n/T⌉` samples in
    `⌈n/T⌉` rounds (`n` defaults to 100) -/
theorem calls_exact (o : Opts) (T prec s : Nat) (rs : List Round) (hT : 0 < T)
    (hs : o.sampleSize = some s) (hmin : o.minPicos = 0) (hskip : o.skipExt = false)
    (hmax : 0 < o.maxPicos) (hhas : hasSamples o = true)
    (hall : ∀ r ∈ rs, r.endSinceStart < o.maxPicos ∧ r.durs.length = T)
    (hlen : ceilDiv (o.sampleCount.getD defaultCount) T ≤ rs.length) :
    let n := o.sampleCount.getD defaultCount
    let fin := run false o T prec rs
    calls T fin = s * T * ceilDiv n T ∧ fin.samples.length = T * ceilDiv n T ∧ fin.sizes.length = ceilDiv n T :=
  calls_eq o T prec s rs hT hs hmin hskip hmax hhas hall hlen

/-- `n` unset behaves as 100 -/
theorem default_sample_count : defaultCount = 100 := rfl

/-- `⌈n/T⌉` really is the ceiling -/
theorem ceilDiv_spec (n T : Nat) (hT : 0 < T) : T * ceilDiv n T ≥ n ∧ T * ceilDiv n T < n + T := by
  unfold ceilDiv
  have h1 := Nat.div_add_mod (n + T - 1) T
  have h2 := Nat.mod_lt (n + T - 1) hT
  constructor
  · have : T * ((n + T - 1) / T) = n + T - 1 - (n + T - 1) % T := by omega
    omega
  · have : T * ((n + T - 1) / T) ≤ n + T - 1 := by
      have := Nat.mul_div_le (n + T - 1) T; omega
    omega

/-- **zero cases**: with `sample_count = 0`, `sample_size = 0` or `max_time = 0` there is no call at
    all, in bench and in test mode -/
theorem zero_cases (isTest : Bool) (o : Opts) (T prec : Nat) (rs : List Round)
    (h : o.sampleCount = some 0 ∨ o.sampleSize = some 0 ∨ o.maxPicos = 0) :
    calls T (run isTest o T prec rs) = 0 := by
  simp [calls, zero_cases_no_calls isTest o T prec rs h]

/-- **test mode**: exactly one call per thread and no stored sample -/
theorem test_mode (o : Opts) (T prec : Nat) (r : Round) (rs : List Round)
    (hmax : 0 < o.maxPicos) (hhas : hasSamples o = true) :
    let fin := run true o T prec (r :: rs)
    fin.sizes = [1] ∧ fin.samples = [] ∧ calls T fin = T := test_mode_once o T prec r rs hmax hhas

/-! non-vacuity: n = 5, s = 2, T = 2 gives 3 rounds, 6 samples, 12 calls -/
example :
    let o : Opts := ⟨some 5, some 2, 0, 1000, false⟩
    let r : Round := ⟨[10, 10], 5⟩
    let fin := run false o 2 0 [r, r, r, r]
    calls 2 fin = 12 ∧ fin.samples.length = 6 := by decide

end RoundLoop
