import DivanModel.Model.EntryList
/-! C12, registration mechanism: under every interleaving of any number of threads pushing any
    number of entries each (spurious exchange failures included), the list reachable from the head
    is exactly the completed pushes, each once; when every thread is through, it is exactly the
    entries that were to be registered. "Nothing is lost, nothing is registered twice, whatever the
    constructor order or overlap." -/
namespace EList

/-- `l` is what following `next` from `h` yields, ending at null -/
inductive Chain (next : Nat → Option Nat) : Option Nat → List Nat → Prop
  | nil : Chain next none []
  | cons {n : Nat} {rest : List Nat} : Chain next (next n) rest → Chain next (some n) (n :: rest)

theorem Chain.frame {next : Nat → Option Nat} {h : Option Nat} {l : List Nat} (c : Chain next h l)
    (n : Nat) (v : Option Nat) (hn : n ∉ l) : Chain (upd next n v) h l := by
  induction c with
  | nil => exact .nil
  | @cons m rest _ ih =>
    have hm : m ≠ n := fun e => hn (by simp [e])
    have hr : n ∉ rest := fun e => hn (by simp [e])
    have := ih hr
    refine .cons ?_
    rw [upd_other _ _ _ _ hm]
    exact this

theorem Chain.walk {next : Nat → Option Nat} {h : Option Nat} {l : List Nat} (c : Chain next h l) :
    ∀ fuel, l.length < fuel → walk next fuel h = l := by
  induction c with
  | nil => intro fuel _; cases fuel <;> simp [EList.walk]
  | @cons m rest _ ih =>
    intro fuel hf
    cases fuel with
    | zero => simp at hf
    | succ f =>
      simp only [EList.walk]
      rw [ih f (by simp at hf; omega)]

structure Inv (s : St) : Prop where
  chain : Chain s.next s.head s.done
  nodup : s.done.Nodup
  fresh : ∀ t n, n ∈ s.todo t → n ∉ s.done
  own   : ∀ t t' n, n ∈ s.todo t → n ∈ s.todo t' → t = t'
  tnodup : ∀ t, (s.todo t).Nodup
  link  : ∀ t n rest old, s.todo t = n :: rest → s.pc t = .stored old → s.next n = old

/-- the work lists name every entry once -/
def Distinct (work : Nat → List Nat) : Prop :=
  (∀ t, (work t).Nodup) ∧ ∀ t t' n, n ∈ work t → n ∈ work t' → t = t'

theorem init_inv (work : Nat → List Nat) (h : Distinct work) : Inv (init work) := by
  refine ⟨.nil, by simp [init], by simp [init], h.2, h.1, ?_⟩
  intro t n rest old _ hpc
  simp [init] at hpc

theorem step_inv (s : St) (t : Nat) (spur : Bool) (h : Inv s) : Inv (step s t spur) := by
  unfold step
  cases htodo : s.todo t with
  | nil => simpa using h
  | cons n rest =>
    have hn_in : n ∈ s.todo t := by simp [htodo]
    cases hpc : s.pc t with
    | idle =>
      refine ⟨h.chain, h.nodup, h.fresh, h.own, h.tnodup, ?_⟩
      intro t' n' rest' old ht' hp
      by_cases e : t' = t
      · subst e; simp at hp
      · simp only [upd_other _ _ _ _ e] at hp
        exact h.link t' n' rest' old ht' hp
    | loaded old =>
      refine ⟨h.chain.frame n old (h.fresh t n hn_in), h.nodup, h.fresh, h.own, h.tnodup, ?_⟩
      intro t' n' rest' old' ht' hp
      by_cases e : t' = t
      · subst e
        simp only [upd_same] at hp
        simp only [htodo] at ht'
        cases ht'; cases hp
        simp
      · simp only [upd_other _ _ _ _ e] at hp
        have ht'' : s.todo t' = n' :: rest' := ht'
        have hne : n' ≠ n := by
          intro e2; subst e2
          exact e (h.own t' t n' (by rw [ht'']; simp) hn_in)
        simp only [upd_other _ _ _ _ hne]
        exact h.link t' n' rest' old' ht' hp
    | stored old =>
      by_cases hc : s.head = old ∧ spur = false
      · simp only [hc, and_self, if_true]
        have hnext : s.next n = old := h.link t n rest old htodo hpc
        have hfresh : n ∉ s.done := h.fresh t n hn_in
        have htn := h.tnodup t
        rw [htodo, List.nodup_cons] at htn
        refine ⟨?_, ?_, ?_, ?_, ?_, ?_⟩
        · refine .cons ?_
          rw [hnext, ← hc.1]; exact h.chain
        · exact List.nodup_cons.mpr ⟨hfresh, h.nodup⟩
        · intro t' n' hn'
          by_cases e : t' = t
          · subst e
            simp only [upd_same] at hn'
            simp only [List.mem_cons, not_or]
            exact ⟨fun e2 => htn.1 (e2 ▸ hn'), h.fresh t' n' (by simp [htodo, hn'])⟩
          · simp only [upd_other _ _ _ _ e] at hn'
            simp only [List.mem_cons, not_or]
            refine ⟨?_, h.fresh t' n' hn'⟩
            intro e2; subst e2
            exact e (h.own t' t n' hn' hn_in)
        · intro t1 t2 m h1 h2
          have g1 : m ∈ s.todo t1 := by
            by_cases e : t1 = t
            · subst e; simp only [upd_same] at h1; simp [htodo, h1]
            · simpa [upd_other _ _ _ _ e] using h1
          have g2 : m ∈ s.todo t2 := by
            by_cases e : t2 = t
            · subst e; simp only [upd_same] at h2; simp [htodo, h2]
            · simpa [upd_other _ _ _ _ e] using h2
          exact h.own t1 t2 m g1 g2
        · intro t'
          by_cases e : t' = t
          · subst e; simp only [upd_same]; exact htn.2
          · simp only [upd_other _ _ _ _ e]; exact h.tnodup t'
        · intro t' n' rest' old' ht' hp
          by_cases e : t' = t
          · subst e; simp at hp
          · simp only [upd_other _ _ _ _ e] at hp ht'
            exact h.link t' n' rest' old' ht' hp
      · simp only [hc, if_false]
        refine ⟨h.chain, h.nodup, h.fresh, h.own, h.tnodup, ?_⟩
        intro t' n' rest' old' ht' hp
        by_cases e : t' = t
        · subst e; simp at hp
        · simp only [upd_other _ _ _ _ e] at hp
          exact h.link t' n' rest' old' ht' hp

theorem run_inv (sched : List (Nat × Bool)) : ∀ s, Inv s → Inv (run s sched) := by
  induction sched with
  | nil => intro s h; simpa [run] using h
  | cons x xs ih =>
    intro s h
    simp only [run, List.foldl_cons]
    exact ih _ (step_inv s x.1 x.2 h)

/-- an entry is either registered or still to be pushed by someone: steps only move it from the second to the first -/
def Accounted (s : St) (n : Nat) : Prop := n ∈ s.done ∨ ∃ t, n ∈ s.todo t

theorem step_accounted (s : St) (t : Nat) (spur : Bool) (n : Nat) :
    Accounted (step s t spur) n ↔ Accounted s n := by
  unfold step
  cases htodo : s.todo t with
  | nil => simp
  | cons m rest =>
    cases hpc : s.pc t with
    | idle => simp [Accounted]
    | loaded old => simp [Accounted]
    | stored old =>
      by_cases hc : s.head = old ∧ spur = false
      · simp only [hc, and_self, if_true, Accounted, List.mem_cons]
        constructor
        · rintro ((e | h) | ⟨t', h⟩)
          · right; exact ⟨t, by simp [htodo, e]⟩
          · left; exact h
          · right
            by_cases e : t' = t
            · subst e; simp only [upd_same] at h; exact ⟨t', by simp [htodo, h]⟩
            · exact ⟨t', by simpa [upd_other _ _ _ _ e] using h⟩
        · rintro (h | ⟨t', h⟩)
          · left; right; exact h
          · by_cases e : t' = t
            · subst e
              rw [htodo, List.mem_cons] at h
              rcases h with h | h
              · left; left; exact h
              · right; exact ⟨t', by simp [h]⟩
            · right; exact ⟨t', by simpa [upd_other _ _ _ _ e] using h⟩
      · simp [hc, Accounted]

theorem run_accounted (sched : List (Nat × Bool)) : ∀ (s : St) (n : Nat),
    Accounted (run s sched) n ↔ Accounted s n := by
  induction sched with
  | nil => intro s n; simp [run]
  | cons x xs ih =>
    intro s n
    simp only [run, List.foldl_cons]
    exact (ih _ n).trans (step_accounted s x.1 x.2 n)

/-- **Every schedule.** After any interleaving of the threads' atomic steps, with any spurious
    exchange failures, what a reader walking from the head sees is exactly the completed pushes,
    each once, and no entry has disappeared: it is in the list or still in some thread's hands. -/
theorem registered_exactly_once (work : Nat → List Nat) (hw : Distinct work) (sched : List (Nat × Bool)) :
    let s := run (init work) sched
    (∀ fuel, s.done.length < fuel → walk s.next fuel s.head = s.done) ∧ s.done.Nodup ∧
    (∀ n, (n ∈ s.done ∨ ∃ t, n ∈ s.todo t) ↔ ∃ t, n ∈ work t) := by
  have hi := run_inv sched _ (init_inv work hw)
  refine ⟨hi.chain.walk, hi.nodup, fun n => ?_⟩
  have := run_accounted sched (init work) n
  simpa [Accounted, init] using this

/-- ... and once every thread is through, the list holds exactly the entries that were to be registered -/
theorem all_registered_when_quiet (work : Nat → List Nat) (hw : Distinct work) (sched : List (Nat × Bool))
    (hq : ∀ t, (run (init work) sched).todo t = []) (n : Nat) :
    n ∈ (run (init work) sched).done ↔ ∃ t, n ∈ work t := by
  have := (registered_exactly_once work hw sched).2.2 n
  simpa [hq] using this

/-! ### each thread's entries enter the list in the order it pushes them -/

/-- read oldest first, the completed pushes of thread `t` followed by what it still has to push are its work list -/
def InOrder (work : Nat → List Nat) (s : St) : Prop :=
  ∀ t, (s.done.reverse.filter fun n => decide (n ∈ work t)) ++ s.todo t = work t

theorem init_inOrder (work : Nat → List Nat) : InOrder work (init work) := by
  intro t; simp [init]

theorem step_inOrder (work : Nat → List Nat) (hw : Distinct work) (s : St) (t : Nat) (spur : Bool)
    (h : InOrder work s) : InOrder work (step s t spur) := by
  unfold step
  cases htodo : s.todo t with
  | nil => simpa using h
  | cons n rest =>
    cases hpc : s.pc t with
    | idle => exact h
    | loaded old => exact h
    | stored old =>
      by_cases hc : s.head = old ∧ spur = false
      · simp only [hc, and_self, if_true]
        have ht := h t
        rw [htodo] at ht
        have hn : n ∈ work t := by rw [← ht]; simp
        intro t'
        simp only [List.reverse_cons, List.filter_append]
        by_cases e : t' = t
        · subst e
          simp only [upd_same]
          have : (List.filter (fun n => decide (n ∈ work t')) [n]) = [n] := by simp [hn]
          rw [this, List.append_assoc]
          simpa using ht
        · have hn' : n ∉ work t' := fun h2 => e (hw.2 t' t n h2 hn)
          have : (List.filter (fun n => decide (n ∈ work t')) [n]) = [] := by simp [hn']
          rw [this, List.append_nil, upd_other _ _ _ _ e]
          exact h t'
      · simp only [hc, if_false]
        exact h

theorem run_inOrder (work : Nat → List Nat) (hw : Distinct work) (sched : List (Nat × Bool)) :
    ∀ s, InOrder work s → InOrder work (run s sched) := by
  induction sched with
  | nil => intro s h; simpa [run] using h
  | cons x xs ih =>
    intro s h
    simp only [run, List.foldl_cons]
    exact ih _ (step_inOrder work hw s x.1 x.2 h)

/-- under every schedule the list, read oldest first and restricted to one thread's entries, is a prefix of
    that thread's work list in its own order: the rest is exactly what the thread still holds (this is what
    lets the `elist` driver read the implementation's final list as a linearisation) -/
theorem per_thread_order (work : Nat → List Nat) (hw : Distinct work) (sched : List (Nat × Bool)) (t : Nat) :
    let s := run (init work) sched
    (s.done.reverse.filter fun n => decide (n ∈ work t)) ++ s.todo t = work t :=
  run_inOrder work hw sched _ (init_inOrder work) t

/-! ### non-vacuity, and the seeded defect -/

def exWork : Nat → List Nat := fun t => if t = 0 then [10, 11] else if t = 1 then [20] else []

theorem exWork_distinct : Distinct exWork := by
  refine ⟨fun t => ?_, fun t t' n h h' => ?_⟩
  · unfold exWork; split
    · decide
    · split <;> simp
  · unfold exWork at h h'
    by_cases a : t = 0 <;> by_cases b : t' = 0 <;> by_cases c : t = 1 <;> by_cases d : t' = 1 <;>
      simp_all <;> omega

/-- thread 1 loads and stores, thread 0 completes a push in between: thread 1's exchange fails, it retries -/
def exSched : List (Nat × Bool) :=
  [(1, false), (1, false), (0, false), (0, false), (0, false), (1, false), (1, false), (1, true), (1, false), (1, false),
   (0, false), (0, false), (0, false)]

example : (run (init exWork) exSched).done = [11, 20, 10] ∧
    walk (run (init exWork) exSched).next 5 (run (init exWork) exSched).head = [11, 20, 10] ∧
    (∀ t, t < 3 → (run (init exWork) exSched).todo t = []) := by decide

/-- with a plain store instead of the exchange (seed S4-C12) the same overlap loses entry 10 -/
example :
    let s := [1, 1, 0, 0, 0, 1].foldl stepLossy (init exWork)
    walk s.next 5 s.head = [20] ∧ s.done = [20, 10] := by decide

end EList
