import DivanModel.Model.RoundLoop
/-! # C04 — max_time, min_time and skip_ext_time bound sampling as documented -/
namespace RoundLoop

/-- the loop condition, literally: continue iff elapsed < max_time and (samples are missing or elapsed
    < min_time) - `max_time` has priority over both -/
theorem continues_spec (o : Opts) (st : St) :
    continues o st = true ↔ st.elapsed < o.maxPicos ∧ (0 < st.rem.getD 1 ∨ st.elapsed < o.minPicos) :=
  continues_iff o st

/-- once elapsed time has reached `max_time` the loop stops, whatever `min_time` and the sample
    counter say (also when `min_time > max_time`) -/
theorem max_time_has_priority (o : Opts) (st : St) (h : o.maxPicos ≤ st.elapsed) : continues o st = false := by
  cases hc : continues o st with
  | false => rfl
  | true => have := (continues_iff o st).1 hc; omega

/-- **the number of executed rounds is exactly the smallest number satisfying the rule**, for every
    history of clock readings (non-monotone ones, zero and huge durations included): `K` rounds are
    executed, the condition held before each of them and fails (or test mode stopped) at `K` -/
theorem rounds_are_least (o : Opts) (T prec : Nat) (rs : List Round) (st : St) :
    let K := execCount o T prec st rs
    runRounds o T prec st rs = after o T prec st rs K ∧
    (∀ k, k < K → (after o T prec st rs k).stopped = false ∧ continues o (after o T prec st rs k) = true) ∧
    (K < rs.length → (after o T prec st rs K).stopped = true ∨ continues o (after o T prec st rs K) = false) :=
  rounds_least o T prec rs st

/-- **what elapsed time is** after a round in bench mode: the latest end timestamp of the newest round
    measured from just before the first sample, or - with `skip_ext_time` - the running sum of the
    slowest thread's timed section, counted as at least 1 ns per round -/
theorem elapsed_after_round (o : Opts) (T prec : Nat) (st : St) (r : Round) (h : st.mode ≠ .test) :
    (stepRound o T prec st r).elapsed =
      if o.skipExt then st.elapsed + max (maxList r.durs) 1000 else r.endSinceStart := by
  unfold stepRound
  cases hm : st.mode with
  | test => exact absurd hm h
  | collect s => simp [minProgress]
  | tune s => simp [minProgress]

/-- `max_time = 0`: nothing runs -/
theorem max_zero_no_round (isTest : Bool) (o : Opts) (T prec : Nat) (rs : List Round) (h : o.maxPicos = 0) :
    (run isTest o T prec rs).sizes = [] := zero_cases_no_calls isTest o T prec rs (Or.inr (Or.inr h))

/-! non-vacuity: min_time > max_time, the run stops at max_time -/
example :
    let o : Opts := ⟨some 1, some 1, 5000, 300, false⟩
    let fin := run false o 1 0 [⟨[100], 100⟩, ⟨[100], 250⟩, ⟨[100], 400⟩, ⟨[100], 550⟩]
    fin.sizes.length = 3 := by decide

end RoundLoop
