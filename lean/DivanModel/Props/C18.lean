import DivanModel.Model.Fmt
/-! # C18 — printed durations, sizes and throughputs are truthful truncations -/
namespace Fmt

/-! ### digit-list lemmas -/

theorem stripZ_take (L : List Nat) : ∀ k,
    (if (stripZ L).length < k then stripZ L else stripZ ((stripZ L).take k)) = stripZ (L.take k) := by
  induction L with
  | nil => intro k; simp [stripZ]
  | cons x xs ih =>
    intro k
    cases k with
    | zero => simp [stripZ]
    | succ k' =>
      have ih' := ih k'
      simp only [List.take_succ_cons, stripZ]
      by_cases hz : stripZ xs = [] ∧ x = 0
      · -- everything from here on is zeros
        simp only [hz, and_self, if_true]
        have : stripZ (List.take k' xs) = [] := by
          rw [← ih', hz.1]; simp [stripZ]
        simp [this, stripZ]
      · simp only [hz, if_false]
        by_cases hl : (stripZ xs).length < k'
        · have e : stripZ (List.take k' xs) = stripZ xs := by rw [← ih']; simp [hl]
          have hl' : (x :: stripZ xs).length < k' + 1 := by simp; omega
          simp only [hl', if_true, e, hz, if_false]
        · have e : stripZ (List.take k' xs) = stripZ ((stripZ xs).take k') := by rw [← ih']; simp [hl]
          have hl' : ¬ (x :: stripZ xs).length < k' + 1 := by simp; omega
          simp only [hl', if_false, List.take_succ_cons, stripZ, e]

theorem digits4_take1 (x : Nat) (_h : x < 10000) : (digits4 x).take 1 = digitsK 1 (x / 1000) := by
  simp [digits4, digitsK]
theorem digits4_take2 (x : Nat) (_h : x < 10000) : (digits4 x).take 2 = digitsK 2 (x / 100) := by
  simp [digits4, digitsK]; omega
theorem digits4_take3 (x : Nat) (_h : x < 10000) : (digits4 x).take 3 = digitsK 3 (x / 10) := by
  simp [digits4, digitsK]; omega

/-! ### arithmetic: nested truncation -/
theorem ip_eq (p sc : Nat) (hsc : 0 < sc) : p * 10000 / sc / 10000 = p / sc := by
  rw [Nat.div_div_eq_div_mul, Nat.mul_comm sc 10000, Nat.mul_comm p 10000]
  exact Nat.mul_div_mul_left _ _ (by omega)

/-- ⌊⌊p·10^4/sc⌋ / j⌋ = ⌊p·k/sc⌋ when k·j = 10^4 -/
theorem trunc_eq (p sc k j : Nat) (hj : 0 < j) (hkj : k * j = 10000) :
    p * 10000 / sc / j = p * k / sc := by
  rw [Nat.div_div_eq_div_mul, ← hkj, ← Nat.mul_assoc]
  exact Nat.mul_div_mul_right _ _ hj

/-- fractional digits: (N / j) % k = (N % 10^4) / j when k·j = 10^4 -/
theorem frac_eq (N k j : Nat) (hkj : k * j = 10000) : N / j % k = N % 10000 / j := by
  rw [← hkj]; exact (Nat.mod_mul_left_div_self N j k).symm


/-- what `format_f64` leaves of the fractional digits = the first k digits without trailing zeros -/
theorem model_frac (L : List Nat) (k : Nat) :
    (if stripZ L = [] then ([] : List Nat) else if k = 0 then [] else
      if (stripZ L).length < k then stripZ L else stripZ ((stripZ L).take k)) = stripZ (L.take k) := by
  have h := stripZ_take L k
  by_cases hk : k = 0
  · subst hk; simp [stripZ]
  · by_cases he : stripZ L = []
    · simp only [he, if_true]
      rw [he] at h; simp at h
      have : 0 < k := by omega
      simp [this] at h; exact h.symm
    · simp only [he, hk, if_false]; exact h

/-- the spec's k fractional digits are the first k of the four digits the code computes -/
theorem spec_frac (p sc k : Nat) (hk : k = 1 ∨ k = 2 ∨ k = 3) :
    digitsK k (p * 10 ^ k / sc % 10 ^ k) = (digits4 (p * 10000 / sc % 10000)).take k := by
  have hlt : p * 10000 / sc % 10000 < 10000 := Nat.mod_lt _ (by omega)
  rcases hk with rfl | rfl | rfl
  · rw [digits4_take1 _ hlt, ← frac_eq (p * 10000 / sc) 10 1000 (by omega),
        trunc_eq p sc 10 1000 (by omega) (by omega)]
  · rw [digits4_take2 _ hlt, ← frac_eq (p * 10000 / sc) 100 100 (by omega),
        trunc_eq p sc 100 100 (by omega) (by omega)]
  · rw [digits4_take3 _ hlt, ← frac_eq (p * 10000 / sc) 1000 10 (by omega),
        trunc_eq p sc 1000 10 (by omega) (by omega)]

theorem numDigits_range (n : Nat) : 1 ≤ numDigits n ∧ numDigits n ≤ 5 := by
  unfold numDigits; repeat' (first | omega | split)

/-- core of the theorem, for a fixed unit/scale: model and spec agree on the float path -/
theorem core (p sc : Nat) (u : U) (hsc : 0 < sc) :
    (let N := p * 10000 / sc
     let ip := N / 10000
     let fs := stripZ (digits4 (N % 10000))
     if fs = [] then (⟨ip, [], u⟩ : Printed) else
     let k := 4 - numDigits ip
     if k = 0 then ⟨ip, [], u⟩ else
     if fs.length < k then ⟨ip, fs, u⟩ else ⟨ip, stripZ (fs.take k), u⟩)
    = ⟨p / sc, stripZ (digitsK (4 - numDigits (p / sc)) (p * 10 ^ (4 - numDigits (p / sc)) / sc % 10 ^ (4 - numDigits (p / sc)))), u⟩ := by
  simp only [ip_eq p sc hsc]
  have hr := numDigits_range (p / sc)
  have hm := model_frac (digits4 (p * 10000 / sc % 10000)) (4 - numDigits (p / sc))
  -- rewrite the right-hand side's digits
  have hrhs : stripZ (digitsK (4 - numDigits (p / sc)) (p * 10 ^ (4 - numDigits (p / sc)) / sc % 10 ^ (4 - numDigits (p / sc))))
      = stripZ ((digits4 (p * 10000 / sc % 10000)).take (4 - numDigits (p / sc))) := by
    by_cases hk0 : 4 - numDigits (p / sc) = 0
    · rw [hk0]; simp [digitsK, stripZ]
    · rw [spec_frac p sc _ (by omega)]
  rw [hrhs, ← hm]
  by_cases h1 : stripZ (digits4 (p * 10000 / sc % 10000)) = []
  · simp [h1]
  · by_cases h2 : 4 - numDigits (p / sc) = 0
    · simp [h1, h2]
    · by_cases h3 : (stripZ (digits4 (p * 10000 / sc % 10000))).length < 4 - numDigits (p / sc)
      · simp [h1, h2, h3]
      · simp [h1, h2, h3]

theorem unitOf_pos (p : Nat) : 0 < (unitOf p).2 := by
  unfold unitOf
  by_cases h1 : p < US
  · simp only [h1, if_true]; simp [NS]
  by_cases h2 : p < MS
  · simp only [h1, h2, if_true, if_false]; simp [US]
  by_cases h3 : p < SEC
  · simp only [h1, h2, h3, if_true, if_false]; simp [MS]
  by_cases h4 : p < MIN
  · simp only [h1, h2, h3, h4, if_true, if_false]; simp [SEC]
  by_cases h5 : p < HOUR
  · simp only [h1, h2, h3, h4, h5, if_true, if_false]; simp [MIN]
  by_cases h6 : p < DAY
  · simp only [h1, h2, h3, h4, h5, h6, if_true, if_false]; simp [HOUR]
  · simp only [h1, h2, h3, h4, h5, h6, if_false]; simp [DAY]

/-- C18: the unit is the largest one not exceeding the value (values below 1 ns are shown in ns). -/
theorem unit_is_largest (p : Nat) :
    (unitOf p).2 ≤ p ∨ (p < NS ∧ unitOf p = (.ns, NS)) := by
  unfold unitOf
  by_cases h1 : p < US
  · simp only [h1, if_true]
    by_cases h0 : p < NS
    · right; exact ⟨h0, trivial⟩
    · left; simp only [NS] at h0 ⊢; omega
  by_cases h2 : p < MS
  · left; simp only [h1, h2, if_true, if_false]; simp only [US] at h1 ⊢; omega
  by_cases h3 : p < SEC
  · left; simp only [h1, h2, h3, if_true, if_false]; simp only [MS] at h2 ⊢; omega
  by_cases h4 : p < MIN
  · left; simp only [h1, h2, h3, h4, if_true, if_false]; simp only [SEC] at h3 ⊢; omega
  by_cases h5 : p < HOUR
  · left; simp only [h1, h2, h3, h4, h5, if_true, if_false]; simp only [MIN] at h4 ⊢; omega
  by_cases h6 : p < DAY
  · left; simp only [h1, h2, h3, h4, h5, h6, if_true, if_false]; simp only [HOUR] at h5 ⊢; omega
  · left; simp only [h1, h2, h3, h4, h5, h6, if_false]; omega

/-- C18: for **every** picosecond value the printed duration is the truthful truncation. -/
theorem fmt_eq_spec (p : Nat) : fmt p = spec p := by
  unfold fmt spec
  by_cases hbig : p ≥ DAY * 10000
  · -- integer-days branch
    have hu : unitOf p = (.d, DAY) := by
      simp only [DAY] at hbig
      have h1 : ¬ p < US := by simp only [US]; omega
      have h2 : ¬ p < MS := by simp only [MS]; omega
      have h3 : ¬ p < SEC := by simp only [SEC]; omega
      have h4 : ¬ p < MIN := by simp only [MIN]; omega
      have h5 : ¬ p < HOUR := by simp only [HOUR]; omega
      have h6 : ¬ p < DAY := by simp only [DAY]; omega
      simp only [unitOf, h1, h2, h3, h4, h5, h6, if_false]
    have hip : 10000 ≤ p / DAY := by
      rw [Nat.le_div_iff_mul_le (by simp [DAY])]; rw [Nat.mul_comm]; exact hbig
    have hd : numDigits (p / DAY) = 5 := by
      unfold numDigits; repeat' (first | omega | split)
    simp only [hu, hbig, if_true, hd]
    simp [digitsK, stripZ]
  · simp only [hbig, if_false]
    -- float path: split on the unit
    have hsc : 0 < (unitOf p).2 := unitOf_pos p
    have := core p (unitOf p).2 (unitOf p).1 hsc
    cases hu : unitOf p with
    | mk u sc =>
      rw [hu] at this
      simpa using this


/-! ### `format_f64` on decimal strings -/
namespace Fmt

/-- remove trailing `'0'` characters -/
def dropTZ (l : List Char) : List Char := l.take (l.length - trailingZeros l)

theorem idxOfDot_append (ip fr : List Char) (h : '.' ∉ ip) : idxOfDot (ip ++ '.' :: fr) = some ip.length := by
  induction ip with
  | nil => simp [idxOfDot]
  | cons c cs ih =>
    have hc : c ≠ '.' := fun e => h (by simp [e])
    have hcs : '.' ∉ cs := fun e => h (by simp [e])
    simp [idxOfDot, hc, ih hcs]

theorem takeWhile_length_le {α} (p : α → Bool) (l : List α) : (l.takeWhile p).length ≤ l.length := by
  induction l with
  | nil => simp
  | cons x xs ih => simp only [List.takeWhile_cons]; split <;> simp <;> omega

theorem trailingZeros_le (l : List Char) : trailingZeros l ≤ l.length := by
  unfold trailingZeros
  have := takeWhile_length_le (· = '0') l.reverse
  simpa using this

theorem formatDecimal_is_truncation (ip fr : List Char) (sig : Nat) (h : '.' ∉ ip) :
    formatDecimal (ip ++ '.' :: fr) sig =
      (let k := sig - ip.length
       if k = 0 then ip
       else if fr.length < k then ip ++ '.' :: fr
       else if dropTZ (fr.take k) = [] then ip else ip ++ '.' :: dropTZ (fr.take k)) := by
  simp only [formatDecimal, idxOfDot_append ip fr h]
  generalize hkk : sig - ip.length = k
  by_cases hk : k = 0
  · simp [hk]
  · simp only [hk, if_false]
    have hlen : (ip ++ '.' :: fr).length = ip.length + 1 + fr.length := by simp; omega
    by_cases hshort : fr.length < k
    · have : ¬ (ip.length + 1 + k ≤ (ip ++ '.' :: fr).length) := by rw [hlen]; omega
      simp only [this, hshort, if_false, if_true]
    · have hfe : ip.length + 1 + k ≤ (ip ++ '.' :: fr).length := by rw [hlen]; omega
      simp only [hfe, hshort, if_true, if_false]
      have hdrop : List.drop (ip.length + 1) (ip ++ '.' :: fr) = fr := by
        rw [List.drop_append]; simp
      rw [hdrop]
      have htl : (fr.take k).length = k := by simp; omega
      have htz := trailingZeros_le (fr.take k)
      rw [htl] at htz
      generalize htzz : trailingZeros (List.take k fr) = tz at htz
      by_cases hall : tz = (List.take k fr).length
      · simp only [hall, if_true]
        have : dropTZ (List.take k fr) = [] := by
          unfold dropTZ; rw [htzz, hall]; simp
        simp [this]
      · simp only [hall, if_false]
        rw [htl] at hall
        have hne : dropTZ (List.take k fr) ≠ [] := by
          unfold dropTZ
          rw [htzz, htl]
          intro e
          have := congrArg List.length e
          simp only [List.length_take, List.length_nil] at this
          omega
        simp only [hne, if_false]
        unfold dropTZ
        rw [htzz, htl]
        have e1 : ip.length + 1 + k - tz = ip.length + ((k - tz) + 1) := by omega
        rw [e1, List.take_append, List.take_of_length_le (by omega)]
        simp only [Nat.add_sub_cancel_left, List.take_succ_cons]
        rw [List.take_take]
        have : min (k - tz) k = k - tz := by omega
        rw [this]

/-- text without a decimal point (integers, `inf`) is returned unchanged -/
theorem formatDecimal_no_point (s : List Char) (sig : Nat) (h : idxOfDot s = none) : formatDecimal s sig = s := by
  simp [formatDecimal, h]

theorem dropTZ_eq (l : List Char) : dropTZ l = (l.reverse.dropWhile (· = '0')).reverse := by
  unfold dropTZ trailingZeros
  have hsplit : l.reverse.takeWhile (· = '0') ++ l.reverse.dropWhile (· = '0') = l.reverse :=
    List.takeWhile_append_dropWhile
  have hl : l = (l.reverse.dropWhile (· = '0')).reverse ++ (l.reverse.takeWhile (· = '0')).reverse := by
    have := congrArg List.reverse hsplit
    rw [List.reverse_append, List.reverse_reverse] at this
    exact this.symm
  have hlen : l.length - (l.reverse.takeWhile (· = '0')).length = (l.reverse.dropWhile (· = '0')).reverse.length := by
    have := congrArg List.length hsplit
    simp only [List.length_append, List.length_reverse] at this ⊢
    omega
  rw [hlen]
  conv => lhs; rw [hl]
  simp

/-- what is kept after a point never ends in `'0'` -/
theorem dropTZ_no_trailing_zero (l : List Char) (c : Char) (hc : (dropTZ l).getLast? = some c) : c ≠ '0' := by
  rw [dropTZ_eq, List.getLast?_reverse] at hc
  cases hd : l.reverse.dropWhile (· = '0') with
  | nil => simp [hd] at hc
  | cons x xs =>
    rw [hd] at hc
    simp at hc
    subst hc
    have := List.head_dropWhile_not (· = '0') (l := l.reverse) (by rw [hd]; simp)
    simpa [hd] using this

/-! non-vacuity / examples from the repo's own unit tests -/
example : (fmt 1234567).render = "1.234 µs" := by decide
example : (fmt 59999000000000).render = "59.99 s" := by decide
example : String.ofList (formatDecimal "12.3456".toList 4) = "12.34" := by decide
example : String.ofList (formatDecimal "1.0001".toList 4) = "1" := by decide

end Fmt
