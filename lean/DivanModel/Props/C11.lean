import DivanModel.Model.Tsc
/-! # C11 — timestamp differences convert to picoseconds exactly, without overflow

Property theorems about `Model/Tsc.lean`. The model is tied to
`src/time/timestamp/tsc/mod.rs`, `src/time/fine_duration.rs` and `src/time/timer.rs`
by the `tsc` correspondence lab. -/
namespace Tsc

/-- The 128-bit intermediate product never overflows for 64-bit readings. -/
theorem durationSince_no_overflow (a b : Nat) (hb : b < 2^64) : (b - a) * PICOS < 2^128 := by
  have h1 : b - a < 2^64 := by omega
  have : (b - a) * PICOS < 2^64 * PICOS := Nat.mul_lt_mul_of_pos_right h1 (by decide)
  have h2 : (2:Nat)^64 * PICOS < 2^128 := by decide
  omega

/-- elapsed = ⌊(b−a)·10¹²/f⌋ for a ≤ b -/
theorem durationSince_eq_floor (a b f : Nat) (h : a ≤ b) :
    durationSince b a f = (b - a) * 1000000000000 / f := by
  simp [durationSince, h, PICOS]

/-- zero if the later reading is smaller -/
theorem durationSince_earlier_is_zero (a b f : Nat) (h : b < a) : durationSince b a f = 0 := by
  simp [durationSince]; omega

/-- monotone in the later reading -/
theorem durationSince_mono (a b b' f : Nat) (h : b ≤ b') : durationSince b a f ≤ durationSince b' a f := by
  unfold durationSince
  by_cases h1 : a ≤ b
  · have h2 : a ≤ b' := by omega
    simp only [h1, h2, if_true]
    exact Nat.div_le_div_right (Nat.mul_le_mul_right _ (by omega))
  · simp [h1]

/-- independent of the absolute counter value -/
theorem durationSince_shift (a b k f : Nat) : durationSince (b + k) (a + k) f = durationSince b a f := by
  unfold durationSince
  by_cases h : a ≤ b
  · have h' : a + k ≤ b + k := by omega
    have e : b + k - (a + k) = b - a := by omega
    simp [h, h', e]
  · have h' : ¬ (a + k ≤ b + k) := by omega
    simp [h, h']

theorem div_add_bounds (x y f : Nat) (hf : 0 < f) :
    x / f + y / f ≤ (x + y) / f ∧ (x + y) / f ≤ x / f + y / f + 1 := by
  rw [Nat.add_div hf]
  split <;> omega

/-- additive up to one picosecond of rounding per term -/
theorem durationSince_additive (a b c f : Nat) (hf : 0 < f) (h1 : a ≤ b) (h2 : b ≤ c) :
    durationSince b a f + durationSince c b f ≤ durationSince c a f ∧
    durationSince c a f ≤ durationSince b a f + durationSince c b f + 1 := by
  have h3 : a ≤ c := by omega
  simp only [durationSince, h1, h2, h3, if_true]
  have e : (c - a) * PICOS = (b - a) * PICOS + (c - b) * PICOS := by
    rw [← Nat.add_mul]; congr 1; omega
  rw [e]
  exact div_add_bounds _ _ f hf

/-- every `Duration` (u64 seconds, nanos < 10⁹) converts to exactly its nanoseconds × 1000; the
    `checked_mul` never takes its panic branch -/
theorem ofDuration_exact (secs nanos : Nat) (hs : secs < 2^64) (hn : nanos < 1000000000) :
    ofDuration secs nanos = some ((secs * 1000000000 + nanos) * 1000) := by
  have e64 : (2:Nat)^64 = 18446744073709551616 := rfl
  have e128 : (2:Nat)^128 = 340282366920938463463374607431768211456 := rfl
  unfold ofDuration
  rw [e64] at hs
  simp only [e128]
  split
  · rfl
  · omega

/-- a clock advancing in uniform steps: every sample equals `p > 0`; the answer is `p`, after 101 samples -/
theorem precision_uniform_step (p : Nat) (hp : 0 < p) : precision {} (List.replicate 101 p) = some p := by
  have hp0 : p ≠ 0 := by omega
  have key : ∀ (k : Nat) (st : PS), st.minS = some p → st.seen + k = 100 → 0 < k →
      precision st (List.replicate k p) = some p := by
    intro k
    induction k with
    | zero => intro st _ _ h; omega
    | succ k ih =>
      intro st hm hs _
      simp only [List.replicate_succ, precision, pstep, hp0, if_false, hm, Nat.lt_irrefl, if_true]
      by_cases hlast : st.seen + 1 ≥ 100
      · simp [hlast]
      · simp only [hlast, if_false]
        apply ih
        · split <;> simp [hm]
        · split <;> simp <;> omega
        · omega
  have e : List.replicate 101 p = p :: List.replicate 100 p := rfl
  rw [e]
  simp only [precision, pstep, hp0, if_false]
  apply key 100
  · split <;> simp
  · split <;> simp
  · omega

/-- The uniform-step precision stated on readings: a counter advancing `step` ticks per read at
    frequency `f` yields `⌊step·10¹²/f⌋` whenever that is non-zero. -/
theorem precision_uniform_readings (step f : Nat) (h : 0 < step * PICOS / f) :
    precision {} (List.replicate 101 (durationSince (step + step) step f)) = some (step * PICOS / f) := by
  have e : durationSince (step + step) step f = step * PICOS / f := by
    simp [durationSince]
  rw [e]; exact precision_uniform_step _ h

/-- the running minimum after one more sample -/
def minAfter (m : Option Nat) (x : Nat) : Option Nat :=
  if x = 0 then m else match m with
    | none => some x
    | some m => if x < m then some x else some m

theorem pstep_minS (st : PS) (x : Nat) : (pstep st x).1.minS = minAfter st.minS x := by
  unfold pstep minAfter
  by_cases hx : x = 0
  · simp only [hx, if_true]; split <;> rfl
  · simp only [hx, if_false]
    cases hm : st.minS with
    | none => simp only; split <;> rfl
    | some m =>
      simp only
      by_cases hgt : x > m
      · have : ¬ x < m := by omega
        simp only [hgt, this, if_true, if_false]
        split
        · first | exact hm | rfl
        · split <;> first | exact hm | rfl
      · simp only [hgt, if_false]
        by_cases heq : x = m
        · have : ¬ x < m := by omega
          simp only [heq, if_true, Nat.lt_irrefl, if_false]
          split
          · first | exact hm | rfl
          · split <;> first | exact hm | rfl
        · have : x < m := by omega
          simp only [heq, this, if_false, if_true]
          split <;> rfl

theorem pstep_ret (st : PS) (x p : Nat) (h : (pstep st x).2 = some p) :
    st.minS = some p ∧ x ≠ 0 ∧ p ≤ x := by
  unfold pstep at h
  by_cases hx : x = 0
  · simp [hx] at h
  · simp only [hx, if_false] at h
    cases hm : st.minS with
    | none => simp [hm] at h
    | some m =>
      simp only [hm] at h
      by_cases hgt : x > m
      · simp only [hgt, if_true] at h
        by_cases hd : st.delay > 100
        · simp [hd] at h; subst h; exact ⟨rfl, hx, by omega⟩
        · simp [hd] at h
      · simp only [hgt, if_false] at h
        by_cases heq : x = m
        · simp only [heq, if_true] at h
          by_cases hs : st.seen + 1 ≥ 100
          · simp [hs] at h; subst h; exact ⟨rfl, hx, by omega⟩
          · simp [hs] at h
        · simp [heq] at h

/-- Invariant of the precision loop: the running minimum is the least non-zero sample observed so far
    (and is unset exactly while only zero samples were observed). -/
def MinSeen (seen : List Nat) : Option Nat → Prop
  | none => ∀ x ∈ seen, x = 0
  | some m => m ≠ 0 ∧ m ∈ seen ∧ ∀ x ∈ seen, x ≠ 0 → m ≤ x

/-- what a returned precision is: the least non-zero sample among those observed -/
def IsMinNonzero (p : Nat) (seen : List Nat) : Prop :=
  p ≠ 0 ∧ p ∈ seen ∧ ∀ x ∈ seen, x ≠ 0 → p ≤ x

theorem minAfter_minSeen (seen : List Nat) (m : Option Nat) (x : Nat) (h : MinSeen seen m) :
    MinSeen (x :: seen) (minAfter m x) := by
  unfold minAfter
  by_cases hx : x = 0
  · subst hx; simp only [if_true]
    cases m with
    | none => intro y hy; rcases List.mem_cons.mp hy with rfl | hy; rfl; exact h y hy
    | some m =>
      obtain ⟨h1, h2, h3⟩ := h
      refine ⟨h1, List.mem_cons_of_mem _ h2, ?_⟩
      intro y hy hy0
      rcases List.mem_cons.mp hy with rfl | hy
      · exact absurd rfl hy0
      · exact h3 y hy hy0
  · simp only [hx, if_false]
    cases m with
    | none =>
      refine ⟨hx, List.mem_cons_self, ?_⟩
      intro y hy hy0
      rcases List.mem_cons.mp hy with rfl | hy
      · exact Nat.le_refl _
      · exact absurd (h y hy) hy0
    | some m =>
      obtain ⟨h1, h2, h3⟩ := h
      simp only
      by_cases hlt : x < m
      · simp only [hlt, if_true]
        refine ⟨hx, List.mem_cons_self, ?_⟩
        intro y hy hy0
        rcases List.mem_cons.mp hy with rfl | hy
        · exact Nat.le_refl _
        · have := h3 y hy hy0; omega
      · simp only [hlt, if_false]
        refine ⟨h1, List.mem_cons_of_mem _ h2, ?_⟩
        intro y hy hy0
        rcases List.mem_cons.mp hy with rfl | hy
        · omega
        · exact h3 y hy hy0

/-- `measure_precision` returns the least non-zero sample duration among those it observed
    (for every stream of samples; `none` = the stream ended before the loop decided). -/
theorem precision_is_min_seen (xs : List Nat) : ∀ (seen : List Nat) (st : PS), MinSeen seen st.minS →
    ∀ p, precision st xs = some p → ∃ k, k ≤ xs.length ∧ IsMinNonzero p ((xs.take k).reverse ++ seen) := by
  induction xs with
  | nil => intro seen st _ p hp; simp [precision] at hp
  | cons x xs ih =>
    intro seen st h p hp
    have hs := minAfter_minSeen seen st.minS x h
    rw [← pstep_minS] at hs
    have hret := pstep_ret st x
    simp only [precision] at hp
    cases hr : pstep st x with
    | mk st' r =>
      rw [hr] at hp hs hret
      cases r with
      | some q =>
        simp at hp; subst hp
        obtain ⟨hm, hx0, hle⟩ := hret q rfl
        rw [hm] at h
        obtain ⟨h1, h2, h3⟩ := h
        refine ⟨1, by simp, h1, by simp [h2], ?_⟩
        intro y hy hy0
        simp at hy
        rcases hy with rfl | hy
        · exact hle
        · exact h3 y hy hy0
      | none =>
        simp only at hp
        obtain ⟨k, hk, hmin⟩ := ih (x :: seen) st' hs p hp
        refine ⟨k + 1, by simp; omega, ?_⟩
        simpa [List.take_succ_cons, List.reverse_cons, List.append_assoc] using hmin

/-- on a clock quantised to `q` (every sample a multiple of `q`) on which `q` itself was observed,
    the result is `q` -/
theorem precision_quantised (xs : List Nat) (q p : Nat) (hq : 0 < q)
    (hall : ∀ x ∈ xs, ∃ k, x = k * q) (hp : precision {} xs = some p)
    (hobs : ∀ k, k ≤ xs.length → IsMinNonzero p ((xs.take k).reverse) → q ∈ xs.take k) : p = q := by
  obtain ⟨k, hk, hmin⟩ := precision_is_min_seen xs [] {} (by simp [MinSeen]) p hp
  simp only [List.append_nil] at hmin
  have hqin := hobs k hk hmin
  obtain ⟨hp0, hpin, hle⟩ := hmin
  have h1 : p ≤ q := hle q (by simpa using hqin) (by omega)
  have hpx : p ∈ xs := List.mem_of_mem_take (by simpa using hpin)
  obtain ⟨j, hj⟩ := hall p hpx
  have : 1 ≤ j := by
    rcases Nat.eq_zero_or_pos j with h | h
    · subst h; simp at hj; exact absurd hj hp0
    · exact h
  have : q ≤ j * q := Nat.le_mul_of_pos_left q (by omega)
  omega

/-- the counting variant used by the correspondence agrees with `precision` -/
theorem precisionCount_fst (xs : List Nat) : ∀ (st : PS) (k : Nat),
    (precisionCount st xs k).map (·.1) = precision st xs := by
  induction xs with
  | nil => intro st k; rfl
  | cons x xs ih =>
    intro st k
    simp only [precisionCount, precision]
    cases pstep st x with
    | mk st' r => cases r with
      | some q => rfl
      | none => exact ih st' (k + 1)

/-! non-vacuity: concrete instances of the hypotheses -/
example : durationSince 3000000000 0 3000000000 = 1000000000000 := by decide
example : ofDuration (2^64 - 1) 999999999 = some 18446744073709551615999999999000 := by decide
example : precision {} (List.replicate 101 250) = some 250 := precision_uniform_step 250 (by decide)

end Tsc
