import DivanModel.Model.SampleLoop
/-! # C02 — only the benchmarked calls happen inside a sample's timed section -/
namespace SampleLoop

/-- with the calls removed, the start and end timestamps are adjacent: between them a thread executes
    nothing but the sample's calls; generation/counting precede, snapshot and drops follow -/
theorem only_calls_are_timed (sh : Shape) (e : Entry) (cs : List Nat) (s : Nat) :
    (trace sh e cs s).filter (fun ev => !isCall ev) =
      genPart cs s ++ [.syncStart, .tsStart] ++ [.tsEnd, .syncEnd, .snapshot] ++ (List.range s).flatMap (dropsOf sh e) :=
  timed_section_only_calls sh e cs s

/-- the shape of a sample, for every size: generation, [clear + sync], start, calls, end, [sync],
    snapshot, drops -/
theorem trace_shape (sh : Shape) (e : Entry) (cs : List Nat) (s : Nat) :
    trace sh e cs s =
      genPart cs s ++ [.syncStart] ++ ([.tsStart] ++ callPart s ++ [.tsEnd] ++ [.syncEnd]) ++ [.snapshot] ++ dropPart sh e s := by
  simp [trace]

/-- which events can allocate on behalf of the user: generation, calls and destructors (barrier waits,
    timestamp reads and the snapshot do not) -/
def mayAlloc : Ev → Bool
  | .gen _ | .count _ _ | .call _ | .dropOut _ | .dropIn _ => true
  | _ => false

/-- **the allocation window equals the timed window**: the tally is cleared in `syncStart` and copied
    at `snapshot`; the allocating events between those two points are exactly the sample's calls -
    the same events that lie between the two timestamps. Allocations made while generating inputs or
    dropping values fall outside. -/
theorem alloc_window_eq_timed_window (s : Nat) :
    ([Ev.tsStart] ++ callPart s ++ [Ev.tsEnd] ++ [Ev.syncEnd]).filter mayAlloc = callPart s ∧
    (callPart s).filter mayAlloc = callPart s := by
  have h : (callPart s).filter mayAlloc = callPart s := by
    rw [List.filter_eq_self]; intro a ha
    simp [callPart] at ha
    obtain ⟨i, _, rfl⟩ := ha; rfl
  refine ⟨?_, h⟩
  simp [List.filter_append, h, mayAlloc]

example : (trace ⟨false, false, false, true⟩ .values [] 1) =
    [.gen 0, .syncStart, .tsStart, .call 0, .tsEnd, .syncEnd, .snapshot, .dropOut 0] := by decide

end SampleLoop
