import DivanModel.Model.Counters
/-! # C05, counter figures — which count a sample's figure is, for every way of configuring counters

"Counter figures shown under fastest/slowest/median are those of the very samples that supplied the
corresponding time ... a per-input counter's per-iteration value is the sum over the sample's inputs
divided by the sample size." `compute_stats` finds a sample's count through `CounterCollection`; what it
finds depends on how the kind was configured (`Bencher::counter`, `input_counter` / `count_inputs_as`,
constants from options - in any order, any number of times) and on the history of recorded samples and
discarded tuning rounds. The theorem covers every such configuration and history. Finding F10 is the
reason the model has two `set_counter`s: the pinned one keeps the input closure and puts the constant in
front of the per-sample counts. -/
namespace Counters

def infoOf : Cfg → Info
  | .counter _ v => { counts := [v], byInput := false }
  | .input _ => { counts := [], byInput := true }

theorem applyCfg_at (c : Coll) (x : Cfg) (k : Nat) :
    applyCfg c x k = if x.kind = k then infoOf x else c k := by
  cases x <;> simp [applyCfg, setCounter, setInputCounter, upd, Cfg.kind, infoOf, eq_comm]

/-- **the last configuration call of a kind decides**, whatever came before it (constants from options
    included) -/
theorem cfg_last_wins (cfgs : List Cfg) : ∀ (c : Coll) (k : Nat),
    (cfgs.foldl applyCfg c) k =
      match (cfgs.filter (fun x => x.kind == k)).getLast? with
      | some x => infoOf x
      | none => c k := by
  induction cfgs with
  | nil => intro c k; simp
  | cons x r ih =>
    intro c k
    simp only [List.foldl_cons]
    rw [ih (applyCfg c x) k, applyCfg_at]
    by_cases hx : x.kind = k
    · simp only [List.filter_cons, hx, beq_self_eq_true, if_true]
      cases hr : (r.filter fun y => y.kind == k) with
      | nil => simp
      | cons y ys => rw [List.getLast?_cons_cons, List.getLast?_eq_getLast (l := y :: ys) (by simp)]
    · have : (x.kind == k) = false := by simpa using hx
      simp [List.filter_cons, this, hx]

theorem applyEv_byInput (kinds : Nat) (c : Coll) (e : Ev) (k : Nat) :
    (applyEv kinds c e k).byInput = (c k).byInput := by
  cases e <;> simp only [applyEv, recordSample, clearInputCounts] <;> split <;> rfl

/-- the recording invariant: an input-counted kind holds exactly the counts of the samples kept since
    the last clear; a constant is never touched -/
theorem run_counts (kinds : Nat) (evs : List Ev) : ∀ (c : Coll) (acc : List (Nat → Nat)) (k : Nat), k < kinds →
    ((c k).byInput = true → (c k).counts = acc.map (· k)) →
    ((evs.foldl (applyEv kinds) c) k).byInput = (c k).byInput ∧
    ((c k).byInput = true → ((evs.foldl (applyEv kinds) c) k).counts = (evs.foldl keptStep acc).map (· k)) ∧
    ((c k).byInput = false → ((evs.foldl (applyEv kinds) c) k).counts = (c k).counts) := by
  induction evs with
  | nil => intro c acc k _ h; exact ⟨rfl, h, fun _ => rfl⟩
  | cons e r ih =>
    intro c acc k hk h
    simp only [List.foldl_cons]
    have hb := applyEv_byInput kinds c e k
    have hstep : (applyEv kinds c e k).byInput = true → (applyEv kinds c e k).counts = (keptStep acc e).map (· k) := by
      intro hbi
      rw [hb] at hbi
      cases e with
      | sample f => simp [applyEv, recordSample, keptStep, hk, hbi, h hbi]
      | clear => simp [applyEv, clearInputCounts, keptStep, hbi]
    obtain ⟨i1, i2, i3⟩ := ih (applyEv kinds c e) (keptStep acc e) k hk hstep
    refine ⟨i1.trans hb, fun hbi => i2 (hb.trans hbi), fun hbi => ?_⟩
    rw [i3 (hb.trans hbi)]
    cases e with
    | sample f => simp [applyEv, recordSample, hbi]
    | clear => simp [applyEv, clearInputCounts, hbi]

/-- **C05, counter figures**: for every list of constants from options, every sequence of configuration
    calls on the `Bencher` and every history of recorded samples and discarded tuning rounds, the count
    found for the sample at index `j` of kind `k` is
    * its own per-iteration count - and nothing beyond the kept samples, nothing of a discarded round -
      when the last call for `k` was `input_counter` / `count_inputs_as`;
    * the constant `v` when the last call for `k` was `counter(v)`;
    * the option's constant (if any) when the `Bencher` was not told anything about `k`. -/
theorem figures_of_configured_counter (kinds : Nat) (opt : Nat → Option Nat) (cfgs : List Cfg) (evs : List Ev)
    (k : Nat) (hk : k < kinds) :
    let c := evs.foldl (applyEv kinds) (cfgs.foldl applyCfg (ofOptions opt))
    match (cfgs.filter (fun x => x.kind == k)).getLast? with
    | some (.input _) => ∀ j, countForSample c k j = ((kept evs)[j]?).map (· k)
    | some (.counter _ v) => ∀ j, countForSample c k j = some v
    | none => ∀ j, countForSample c k j = opt k := by
  intro c
  have h0 := cfg_last_wins cfgs (ofOptions opt) k
  cases hl : (cfgs.filter (fun x => x.kind == k)).getLast? with
  | none =>
    rw [hl] at h0
    have hb : ((cfgs.foldl applyCfg (ofOptions opt)) k).byInput = false := by rw [h0]; rfl
    obtain ⟨i1, _, i3⟩ := run_counts kinds evs (cfgs.foldl applyCfg (ofOptions opt)) [] k hk (by rw [hb]; intro h; cases h)
    intro j
    show countForSample c k j = _
    simp only [countForSample, c, i1, hb, i3 hb, h0, ofOptions]
    cases opt k <;> simp
  | some x =>
    rw [hl] at h0
    cases x with
    | counter k' v =>
      have hb : ((cfgs.foldl applyCfg (ofOptions opt)) k).byInput = false := by rw [h0]; rfl
      obtain ⟨i1, _, i3⟩ := run_counts kinds evs (cfgs.foldl applyCfg (ofOptions opt)) [] k hk (by rw [hb]; intro h; cases h)
      intro j
      show countForSample c k j = _
      simp [countForSample, c, i1, hb, i3 hb, h0, infoOf]
    | input k' =>
      have hb : ((cfgs.foldl applyCfg (ofOptions opt)) k).byInput = true := by rw [h0]; rfl
      obtain ⟨i1, i2, _⟩ := run_counts kinds evs (cfgs.foldl applyCfg (ofOptions opt)) [] k hk (by intro _; rw [h0]; rfl)
      intro j
      show countForSample c k j = _
      simp [countForSample, c, i1, hb, i2 hb, kept]

/-- the mean of an input-counted kind is taken over the kept samples, all of them and nothing else -/
theorem mean_of_input_counter (kinds : Nat) (opt : Nat → Option Nat) (cfgs : List Cfg) (evs : List Ev)
    (k k' : Nat) (hk : k < kinds) (hl : (cfgs.filter (fun x => x.kind == k)).getLast? = some (.input k')) :
    meanCount (evs.foldl (applyEv kinds) (cfgs.foldl applyCfg (ofOptions opt))) k =
      ((kept evs).map (· k)).sum / (kept evs).length := by
  have h0 := cfg_last_wins cfgs (ofOptions opt) k
  rw [hl] at h0
  have hb : ((cfgs.foldl applyCfg (ofOptions opt)) k).byInput = true := by rw [h0]; rfl
  obtain ⟨_, i2, _⟩ := run_counts kinds evs (cfgs.foldl applyCfg (ofOptions opt)) [] k hk (by intro _; rw [h0]; rfl)
  simp [meanCount, i2 hb, kept]

/-- **F10 (pinned code)**: `input_counter` followed by `counter` of the same kind, explicit sample size
    (no discarded round): the constant sits in front of the per-sample counts, every sample shows the
    count of the sample before it, and the mean is taken over one value too many -/
theorem f10_pinned_shift :
    let c := [Ev.sample fun _ => 5, Ev.sample fun _ => 7].foldl (applyEv 4)
      ([Cfg.input 3, Cfg.counter 3 1000].foldl applyCfgPinned (ofOptions fun _ => none))
    countForSample c 3 0 = some 1000 ∧ countForSample c 3 1 = some 5 ∧ meanCount c 3 = (1000 + 5 + 7) / 3 := by
  decide

/-- the same program on the repaired code: the constant has replaced the input counter -/
example :
    let c := [Ev.sample fun _ => 5, Ev.sample fun _ => 7].foldl (applyEv 4)
      ([Cfg.input 3, Cfg.counter 3 1000].foldl applyCfg (ofOptions fun _ => none))
    countForSample c 3 0 = some 1000 ∧ countForSample c 3 1 = some 1000 ∧ meanCount c 3 = 1000 := by
  decide

/-- non-vacuity of the input-counted case, with a discarded tuning round in the history -/
example :
    let c := [Ev.sample fun _ => 9, Ev.clear, Ev.sample fun _ => 5, Ev.sample fun _ => 7].foldl (applyEv 4)
      ([Cfg.counter 3 1000, Cfg.input 3].foldl applyCfg (ofOptions fun k => if k = 3 then some 1 else none))
    countForSample c 3 0 = some 5 ∧ countForSample c 3 1 = some 7 ∧ countForSample c 3 2 = none ∧ meanCount c 3 = 6 := by
  decide

end Counters
