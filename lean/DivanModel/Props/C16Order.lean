import DivanModel.Model.TreeOrder
import DivanModel.Model.SortLaws
/-! # C16 (tree level) — the sibling comparator is a consistent total preorder, siblings come out in
    its ascending order, and `--sortr` is the exact reverse

`Prog.sibOk` is the decidable well-formedness of a sibling set (see `Model/TreeOrder.lean`); the
registry / macro lab drivers evaluate it on every level of every tree they build and report the
outcome in the branch tag, so the hypothesis is validated on each run rather than assumed. -/
namespace C16Order
open Prog NatCmp

/-- **antisymmetry, all nodes, all three attributes**: `cmp(b, a)` is the reverse of `cmp(a, b)` -/
theorem comparator_antisymmetric (attr : Nat) (a b : Tree) : cmpByAttr attr b a = (cmpByAttr attr a b).swap :=
  cmpByAttr_swap attr a b

/-- **the three keys form a consistent total preorder** on every well-formed sibling set: the
    comparator is antisymmetric, transitive, and nodes comparing `Equal` are interchangeable -/
theorem comparator_lawful (S : List Tree) (h : sibOk S = true) (attr : Nat) :
    IsCmp (fun t => t ∈ S) (cmpByAttr attr) := cmpByAttr_isCmp S (sibOk_spec S h) attr

/-- in particular: transitive -/
theorem comparator_transitive (S : List Tree) (h : sibOk S = true) (attr : Nat) (a b c : Tree)
    (ha : a ∈ S) (hb : b ∈ S) (hc : c ∈ S) (h1 : cmpByAttr attr a b ≠ .gt) (h2 : cmpByAttr attr b c ≠ .gt) :
    cmpByAttr attr a c ≠ .gt := (comparator_lawful S h attr).trans a b c ha hb hc h1 h2

/-- **`--sort`: siblings are shown in ascending order of the chosen attribute with the other two as
    tie-breakers** - every pair of the sorted sibling list is in non-descending comparator order -/
theorem siblings_ascending (attr : Nat) (fb : String → Option Nat) (ts : List Tree)
    (h : sibOk (sortEach attr false fb ts) = true) :
    (sortList attr false fb ts).Pairwise (fun a b => cmpByAttr attr a b ≠ .gt) := by
  rw [sortList.eq_def]
  exact pairwise_mergeSort_of_isCmp _ (comparator_lawful _ h attr)

/-- **`--sortr`: descending** -/
theorem siblings_descending (attr : Nat) (fb : String → Option Nat) (ts : List Tree)
    (h : sibOk (sortEach attr true fb ts) = true) :
    (sortList attr true fb ts).Pairwise (fun a b => cmpByAttr attr b a ≠ .gt) := by
  rw [sortList.eq_def]
  have hf := (comparator_lawful _ h attr).flip
  have := pairwise_mergeSort_of_isCmp _ hf
  refine this.imp ?_
  intro a b hab
  rw [cmpByAttr_swap attr a b]
  exact hab

/-- sorting one level only permutes it -/
theorem siblings_perm (attr : Nat) (rev : Bool) (fb : String → Option Nat) (ts : List Tree) :
    (sortList attr rev fb ts).Perm (sortEach attr rev fb ts) := by
  rw [sortList.eq_def]; exact List.mergeSort_perm _ _

/-- **`--sortr` shows exactly the reverse of `--sort`** whenever no two different siblings compare
    `Equal` (otherwise `sort_unstable_by` may order them either way in both directions) -/
theorem sortr_exact_reverse (attr : Nat) (S : List Tree) (h : sibOk S = true)
    (strict : ∀ a b, a ∈ S → b ∈ S → cmpByAttr attr a b = .eq → a = b) :
    S.mergeSort (fun a b => applyRev true (cmpByAttr attr a b) != .gt) =
    (S.mergeSort (fun a b => applyRev false (cmpByAttr attr a b) != .gt)).reverse := by
  have hc := comparator_lawful S h attr
  have sL : (S.mergeSort (fun a b => applyRev false (cmpByAttr attr a b) != .gt)).Pairwise (SortLaws.le (cmpByAttr attr)) :=
    pairwise_mergeSort_of_isCmp S hc
  have sR : (S.mergeSort (fun a b => applyRev true (cmpByAttr attr a b) != .gt)).Pairwise (SortLaws.rle (cmpByAttr attr)) :=
    pairwise_mergeSort_of_isCmp S hc.flip
  exact SortLaws.sortr_is_reverse (cmpByAttr attr) (cmpByAttr_swap attr) S _ _ strict
    (List.mergeSort_perm _ _) (List.mergeSort_perm _ _) sL sR

/-! non-vacuity: a concrete sibling set meets the hypothesis, and the order is not trivial -/
def leafN (slot : Nat) (name : String) (line : Nat) : Tree :=
  .leaf { slot := slot, gmeta := { modPath := ["c"], raw := name, disp := name, loc := ⟨"src/main.rs", line, 1⟩, opts := none },
          generic := false, ty := none, const := none, args := none } none

/-- two benchmarks of one module: the hypothesis of the theorems above holds ... -/
example : SibOk [leafN 0 "b10" 3, leafN 1 "b9" 7] := by
  have loc_refl : ∀ t : Tree, optLocCmp t.location t.location = .eq :=
    fun t => optLocCmp_isCmp.refl _ trivial
  refine ⟨Or.inl ?_, ?_, ?_⟩
  · intro t ht
    simp only [List.mem_cons, List.not_mem_nil, or_false] at ht
    rcases ht with rfl | rfl <;> rfl
  · intro a ha b hb _
    simp only [List.mem_cons, List.not_mem_nil, or_false] at ha hb
    rcases ha with rfl | rfl <;> rcases hb with rfl | rfl <;> rfl
  · intro a ha b hb he
    simp only [List.mem_cons, List.not_mem_nil, or_false] at ha hb
    rcases ha with rfl | rfl <;> rcases hb with rfl | rfl
    · exact ⟨rfl, rfl, loc_refl _, rfl⟩
    · simp [addrOrd, leafN, Tree.addr?] at he
    · simp [addrOrd, leafN, Tree.addr?] at he
    · exact ⟨rfl, rfl, loc_refl _, rfl⟩

/-- ... and the location order between them is not trivial: line 3 before line 7 -/
example : attrCmp (leafN 0 "b10" 3) (leafN 1 "b9" 7) 2 = .lt := by
  have : strCmp "src/main.rs" "src/main.rs" = .eq := strCmp_isCmp.refl _ trivial
  have h37 : compare 3 7 = Ordering.lt := by decide
  simp [attrCmp, optLocCmp, Tree.location, leafN, Loc.cmp, this, thenCmp, h37]

end C16Order
