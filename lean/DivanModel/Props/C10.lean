import DivanModel.Model.Tally
/-! # C10 — allocation tallies are exact, per thread, and track the true peak
 -/
namespace Tally

theorem foldl_add_nat (l : List Nat) (a : Nat) : l.foldl (· + ·) a = a + l.foldl (· + ·) 0 := by
  induction l generalizing a with
  | nil => simp
  | cons x xs ih => simp only [List.foldl_cons]; rw [ih, ih (0 + x)]; omega

theorem foldl_add_int (l : List Int) (a : Int) : l.foldl (· + ·) a = a + l.foldl (· + ·) 0 := by
  induction l generalizing a with
  | nil => simp
  | cons x xs ih => simp only [List.foldl_cons]; rw [ih, ih (0 + x)]; omega

theorem total_cons (f : Op → Nat) (op : Op) (ops : List Op) : total f (op :: ops) = f op + total f ops := by
  simp only [total, List.map_cons, List.foldl_cons]; rw [foldl_add_nat]; omega

theorem liveC_cons (op : Op) (ops : List Op) : liveC (op :: ops) = dC op + liveC ops := by
  simp only [liveC, List.map_cons, List.foldl_cons]; rw [foldl_add_int]; omega
theorem liveS_cons (op : Op) (ops : List Op) : liveS (op :: ops) = dS op + liveS ops := by
  simp only [liveS, List.map_cons, List.foldl_cons]; rw [foldl_add_int]; omega

/-- what one step does to the ten additive fields, in terms of the per-operation deltas -/
theorem step_fields (t : T) (op : Op) :
    (step t op).allocC = t.allocC + nAlloc op ∧ (step t op).allocS = t.allocS + sAlloc op ∧
    (step t op).deallocC = t.deallocC + nDealloc op ∧ (step t op).deallocS = t.deallocS + sDealloc op ∧
    (step t op).growC = t.growC + nGrow op ∧ (step t op).growS = t.growS + sGrow op ∧
    (step t op).shrinkC = t.shrinkC + nShrink op ∧ (step t op).shrinkS = t.shrinkS + sShrink op ∧
    (step t op).curC = t.curC + dC op ∧ (step t op).curS = t.curS + dS op := by
  cases op with
  | alloc sz => simp [step, nAlloc, sAlloc, nDealloc, sDealloc, nGrow, sGrow, nShrink, sShrink, dC, dS]
  | dealloc sz =>
    simp [step, nAlloc, sAlloc, nDealloc, sDealloc, nGrow, sGrow, nShrink, sShrink, dC, dS]; omega
  | realloc o n =>
    by_cases hlt : n < o <;>
      simp [step, hlt, nAlloc, sAlloc, nDealloc, sDealloc, nGrow, sGrow, nShrink, sShrink, dC, dS]

/-- C10: counts and byte sums per operation kind are exact, from any starting tally. -/
theorem counts_exact (ops : List Op) : ∀ t : T,
    let r := run t ops
    r.allocC = t.allocC + total nAlloc ops ∧ r.allocS = t.allocS + total sAlloc ops ∧
    r.deallocC = t.deallocC + total nDealloc ops ∧ r.deallocS = t.deallocS + total sDealloc ops ∧
    r.growC = t.growC + total nGrow ops ∧ r.growS = t.growS + total sGrow ops ∧
    r.shrinkC = t.shrinkC + total nShrink ops ∧ r.shrinkS = t.shrinkS + total sShrink ops ∧
    r.curC = t.curC + liveC ops ∧ r.curS = t.curS + liveS ops := by
  induction ops with
  | nil => intro t; simp [run, total, liveC, liveS]
  | cons op ops ih =>
    intro t
    have h := ih (step t op)
    simp only [run, List.foldl_cons] at h ⊢
    simp only [total_cons, liveC_cons, liveS_cons]
    obtain ⟨h1, h2, h3, h4, h5, h6, h7, h8, h9, h10⟩ := h
    obtain ⟨f1, f2, f3, f4, f5, f6, f7, f8, f9, f10⟩ := step_fields t op
    rw [f1] at h1; rw [f2] at h2; rw [f3] at h3; rw [f4] at h4; rw [f5] at h5
    rw [f6] at h6; rw [f7] at h7; rw [f8] at h8; rw [f9] at h9; rw [f10] at h10
    refine ⟨?_, ?_, ?_, ?_, ?_, ?_, ?_, ?_, ?_, ?_⟩ <;> omega

/-- C10: `max_count` / `max_size` are the true peaks over all prefixes of the sequence
    (relative to the starting point, the empty prefix included). -/
theorem peaks (ops : List Op) : ∀ t : T, t.curC ≤ t.maxC → t.curS ≤ t.maxS →
    let r := run t ops
    -- upper bound for every prefix
    (t.maxC ≤ r.maxC ∧ ∀ k, k ≤ ops.length → t.curC + liveC (ops.take k) ≤ r.maxC) ∧
    -- attained: either the old maximum or some prefix
    (r.maxC = t.maxC ∨ ∃ k, k ≤ ops.length ∧ r.maxC = t.curC + liveC (ops.take k)) ∧
    (t.maxS ≤ r.maxS ∧ ∀ k, k ≤ ops.length → t.curS + liveS (ops.take k) ≤ r.maxS) ∧
    (r.maxS = t.maxS ∨ ∃ k, k ≤ ops.length ∧ r.maxS = t.curS + liveS (ops.take k)) ∧
    r.curC ≤ r.maxC ∧ r.curS ≤ r.maxS := by
  induction ops with
  | nil =>
    intro t hc hs
    simp [run, liveC, liveS]
    exact ⟨hc, hs, hc, hs⟩
  | cons op ops ih =>
    intro t hc hs
    -- one step keeps `cur ≤ max` and relates the new fields to the old ones
    have stepC : (step t op).curC = t.curC + dC op ∧ (step t op).maxC = max t.maxC (t.curC + dC op) := by
      cases op with
      | alloc sz => simp [step, dC]
      | dealloc sz => simp [step, dC]; omega
      | realloc o n => by_cases hlt : n < o <;> simp [step, dC, hlt] <;> omega
    have stepS : (step t op).curS = t.curS + dS op ∧ (step t op).maxS = max t.maxS (t.curS + dS op) := by
      cases op with
      | alloc sz => simp [step, dS]
      | dealloc sz => simp [step, dS]; omega
      | realloc o n => by_cases hlt : n < o <;> simp [step, dS, hlt]
    have h := ih (step t op) (by rw [stepC.1, stepC.2]; omega) (by rw [stepS.1, stepS.2]; omega)
    simp only [run, List.foldl_cons] at h ⊢
    obtain ⟨⟨a1, a2⟩, a3, ⟨b1, b2⟩, b3, c1, c2⟩ := h
    simp only [stepC.1, stepC.2] at a1 a2 a3
    simp only [stepS.1, stepS.2] at b1 b2 b3
    have m1 : t.maxC ≤ (List.foldl step (step t op) ops).maxC := by clear a3 b3; omega
    have m2 : t.maxS ≤ (List.foldl step (step t op) ops).maxS := by clear a3 b3; omega
    refine ⟨⟨m1, ?_⟩, ?_, ⟨m2, ?_⟩, ?_, c1, c2⟩
    · intro k hk
      clear a3 b3
      cases k with
      | zero => simp [liveC]; omega
      | succ k =>
        simp only [List.take_succ_cons, liveC_cons]
        have := a2 k (by simp at hk; omega); omega
    · clear b3
      rcases a3 with h | ⟨k, hk, h⟩
      · by_cases hm : t.maxC ≤ t.curC + dC op
        · right; refine ⟨1, by simp, ?_⟩
          simp [liveC_cons, liveC]; omega
        · left; omega
      · right; refine ⟨k + 1, by simp; omega, ?_⟩
        simp only [List.take_succ_cons, liveC_cons]; omega
    · intro k hk
      clear a3 b3
      cases k with
      | zero => simp [liveS]; omega
      | succ k =>
        simp only [List.take_succ_cons, liveS_cons]
        have := b2 k (by simp at hk; omega); omega
    · clear a3
      rcases b3 with h | ⟨k, hk, h⟩
      · by_cases hm : t.maxS ≤ t.curS + dS op
        · right; refine ⟨1, by simp, ?_⟩
          simp [liveS_cons, liveS]; omega
        · left; omega
      · right; refine ⟨k + 1, by simp; omega, ?_⟩
        simp only [List.take_succ_cons, liveS_cons]; omega

/-- the statement for a freshly cleared tally -/
theorem maxCount_is_peak (ops : List Op) :
    (∀ k, k ≤ ops.length → liveC (ops.take k) ≤ (run {} ops).maxC) ∧
    (∃ k, k ≤ ops.length ∧ (run {} ops).maxC = liveC (ops.take k)) := by
  have h := peaks ops {} (by simp) (by simp)
  simp only [] at h
  obtain ⟨⟨_, a2⟩, a3, _⟩ := h
  refine ⟨fun k hk => by simpa using a2 k hk, ?_⟩
  rcases a3 with h | ⟨k, hk, h⟩
  · exact ⟨0, by omega, by simp [liveC, h]⟩
  · exact ⟨k, hk, by simpa using h⟩




/-- the statement for a freshly cleared tally, live bytes -/
theorem maxSize_is_peak (ops : List Op) :
    (∀ k, k ≤ ops.length → liveS (ops.take k) ≤ (run {} ops).maxS) ∧
    (∃ k, k ≤ ops.length ∧ (run {} ops).maxS = liveS (ops.take k)) := by
  have h := peaks ops {} (by simp) (by simp)
  simp only [] at h
  obtain ⟨_, _, ⟨_, b2⟩, b3, _⟩ := h
  refine ⟨fun k hk => by simpa using b2 k hk, ?_⟩
  rcases b3 with h | ⟨k, hk, h⟩
  · exact ⟨0, by omega, by simp [liveS, h]⟩
  · exact ⟨k, hk, by simpa using h⟩

/-- counts and sizes from a cleared tally, in the property's words -/
theorem counts_exact_cleared (ops : List Op) :
    (run {} ops).allocC = total nAlloc ops ∧ (run {} ops).allocS = total sAlloc ops ∧
    (run {} ops).deallocC = total nDealloc ops ∧ (run {} ops).deallocS = total sDealloc ops ∧
    (run {} ops).growC = total nGrow ops ∧ (run {} ops).growS = total sGrow ops ∧
    (run {} ops).shrinkC = total nShrink ops ∧ (run {} ops).shrinkS = total sShrink ops := by
  have h := counts_exact ops {}
  simp only [] at h
  obtain ⟨h1, h2, h3, h4, h5, h6, h7, h8, _, _⟩ := h
  simp at h1 h2 h3 h4 h5 h6 h7 h8
  exact ⟨h1, h2, h3, h4, h5, h6, h7, h8⟩

/-- an equal-size reallocation is a grow of 0 bytes -/
theorem realloc_equal_is_zero_grow (n : Nat) : nGrow (.realloc n n) = 1 ∧ sGrow (.realloc n n) = 0 ∧
    nShrink (.realloc n n) = 0 ∧ sShrink (.realloc n n) = 0 := by
  simp [nGrow, sGrow, nShrink, sShrink]

/-- operations on another thread never change a thread's tally -/
theorem other_threads_untouched (m : Nat → T) (tid j : Nat) (op : Op) (h : j ≠ tid) : stepAt m tid op j = m j := by
  simp [stepAt, h]

/-- any sequence of operations on other threads leaves thread `j` untouched -/
theorem other_threads_untouched_seq (ops : List (Nat × Op)) (m : Nat → T) (j : Nat)
    (h : ∀ p ∈ ops, p.1 ≠ j) : (ops.foldl (fun m p => stepAt m p.1 p.2) m) j = m j := by
  induction ops generalizing m with
  | nil => rfl
  | cons p ps ih =>
    simp only [List.foldl_cons]
    rw [ih]
    · exact other_threads_untouched m p.1 j p.2 (fun e => h p List.mem_cons_self e.symm)
    · intro q hq; exact h q (List.mem_cons_of_mem _ hq)

/-- non-vacuity: a concrete sequence with a shrink to zero and more deallocs than allocs -/
example : (run {} [.alloc 8, .realloc 8 0, .dealloc 0, .dealloc 4]).maxS = 8 ∧
          (run {} [.alloc 8, .realloc 8 0, .dealloc 0, .dealloc 4]).curC = -1 := by decide

end Tally
