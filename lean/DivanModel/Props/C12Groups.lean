import DivanModel.Model.Prog
/-! # C12 (tree level, third part) — every `#[divan::bench_group]` reaches the node of its module

"... and every #[divan::bench_group] module contributes its name and options to the benchmarks
below it": after `from_benches` and all `insert_group`s, the node reached by following the raw names
`q` carries exactly the group entry whose module path + raw name is `q` (the last registered one,
should several claim the same node - the name clash of finding F7), and no group if there is none;
attaching groups never changes which nodes exist. Together with `Props/C12Uniq` (one node per module
path) and `Props/C15` (options descend through the slots on the way to a leaf) this is the tree half
of the clause. -/
namespace Prog
open List

mutual
/-- the group slot of the node reached by following raw names (first matching parent at each level,
    exactly like `insert_group` and `insert_entry` descend) -/
def slotAt : List Tree → List String → Option Group
  | _, [] => none
  | tree, m :: rest => slotIn tree m rest
def slotIn : List Tree → String → List String → Option Group
  | [], _, _ => none
  | (.parent raw g ch) :: ts, m, rest =>
    if raw = m then (match rest with | [] => g | _ :: _ => slotAt ch rest) else slotIn ts m rest
  | (.leaf ..) :: ts, m, rest => slotIn ts m rest
end

mutual
/-- is there a chain of parent nodes with these raw names? -/
def hasNode : List Tree → List String → Bool
  | _, [] => false
  | tree, m :: rest => hasIn tree m rest
def hasIn : List Tree → String → List String → Bool
  | [], _, _ => false
  | (.parent raw _ ch) :: ts, m, rest =>
    if raw = m then (match rest with | [] => true | _ :: _ => hasNode ch rest) else hasIn ts m rest
  | (.leaf ..) :: ts, m, rest => hasIn ts m rest
end

/-- the node a group entry is meant for -/
def Group.node (g : Group) : List String := g.gmeta.modPath ++ [g.gmeta.raw]

/-! ### `set_slot` / `insert_group` against `slotAt` -/

theorem slotIn_parent (raw : String) (g : Option Group) (ch ts : List Tree) (m : String) (rest : List String) :
    slotIn ((.parent raw g ch) :: ts) m rest =
      if raw = m then (match rest with | [] => g | _ :: _ => slotAt ch rest) else slotIn ts m rest := by
  rw [slotIn.eq_def]
theorem slotIn_leaf (e : Bench) (a : Option (List Nat)) (ts : List Tree) (m : String) (rest : List String) :
    slotIn ((.leaf e a) :: ts) m rest = slotIn ts m rest := by
  rw [slotIn.eq_def]
theorem hasIn_parent (raw : String) (g : Option Group) (ch ts : List Tree) (m : String) (rest : List String) :
    hasIn ((.parent raw g ch) :: ts) m rest =
      if raw = m then (match rest with | [] => true | _ :: _ => hasNode ch rest) else hasIn ts m rest := by
  rw [hasIn.eq_def]
theorem hasIn_leaf (e : Bench) (a : Option (List Nat)) (ts : List Tree) (m : String) (rest : List String) :
    hasIn ((.leaf e a) :: ts) m rest = hasIn ts m rest := by
  rw [hasIn.eq_def]

theorem slotIn_setSlot (g : Group) : ∀ (ts : List Tree) (m : String) (rest : List String),
    slotIn (setSlot ts g) m rest =
      if m = g.gmeta.raw ∧ rest = [] ∧ hasIn ts m [] = true then some g else slotIn ts m rest
  | [], m, rest => by simp [setSlot, slotIn, hasIn]
  | (.parent raw gr ch) :: ts, m, rest => by
    rw [setSlot]
    by_cases hr : raw = g.gmeta.raw
    · simp only [hr, if_true]
      rw [slotIn_parent, slotIn_parent, hasIn_parent]
      by_cases hm : g.gmeta.raw = m
      · subst hm
        cases rest with
        | nil => simp
        | cons r rs => simp
      · have hm' : ¬ m = g.gmeta.raw := fun h => hm h.symm
        simp [hm, hm']
    · simp only [hr, if_false]
      rw [slotIn_parent, slotIn_parent, hasIn_parent]
      by_cases hm : raw = m
      · have : ¬ m = g.gmeta.raw := fun h => hr (hm.trans h)
        simp [hm, this]
      · have ih := slotIn_setSlot g ts m rest
        simp only [hm, if_false, ih]
  | (.leaf e a) :: ts, m, rest => by
    rw [setSlot]
    · have ih := slotIn_setSlot g ts m rest
      rw [slotIn_leaf, slotIn_leaf, hasIn_leaf, ih]
    · intro _ _ _ h; cases h

theorem hasIn_setSlot (g : Group) : ∀ (ts : List Tree) (m : String) (rest : List String),
    hasIn (setSlot ts g) m rest = hasIn ts m rest
  | [], m, rest => by simp [setSlot]
  | (.parent raw gr ch) :: ts, m, rest => by
    rw [setSlot]
    by_cases hr : raw = g.gmeta.raw
    · simp only [hr, if_true]; rw [hasIn_parent, hasIn_parent]
    · simp only [hr, if_false]; rw [hasIn_parent, hasIn_parent, hasIn_setSlot g ts m rest]
  | (.leaf e a) :: ts, m, rest => by
    rw [setSlot]
    · rw [hasIn_leaf, hasIn_leaf, hasIn_setSlot g ts m rest]
    · intro _ _ _ h; cases h

theorem slotAt_cons (tree : List Tree) (m : String) (rest : List String) : slotAt tree (m :: rest) = slotIn tree m rest := by
  rw [slotAt.eq_def]
theorem slotAt_nil (tree : List Tree) : slotAt tree [] = none := by
  rw [slotAt.eq_def]
theorem hasNode_cons (tree : List Tree) (m : String) (rest : List String) : hasNode tree (m :: rest) = hasIn tree m rest := by
  rw [hasNode.eq_def]
theorem hasNode_nil (tree : List Tree) : hasNode tree [] = false := by
  rw [hasNode.eq_def]

mutual
/-- **`insert_group` sets the slot of exactly the node `path ++ [raw]`, if it exists, and no other** -/
theorem slotAt_insertGroup (g : Group) : ∀ (path : List String) (tree : List Tree) (q : List String),
    slotAt (insertGroup tree g path) q =
      if q = path ++ [g.gmeta.raw] ∧ hasNode tree q = true then some g else slotAt tree q
  | [], tree, q => by
    rw [insertGroup]
    cases q with
    | nil => simp [slotAt_nil]
    | cons m rest =>
      rw [slotAt_cons, slotAt_cons, hasNode_cons, slotIn_setSlot]
      by_cases h1 : m = g.gmeta.raw
      · by_cases h2 : rest = []
        · subst h2; simp [h1]
        · simp [h1, h2]
      · simp [h1]
  | p :: ps, tree, q => by
    rw [insertGroup]
    cases q with
    | nil => simp [slotAt_nil]
    | cons m rest =>
      rw [slotAt_cons, slotAt_cons, hasNode_cons]
      exact slotIn_descend g p ps tree m rest
theorem slotIn_descend (g : Group) (p : String) (ps : List String) : ∀ (ts : List Tree) (m : String) (rest : List String),
    slotIn (descend ts g p ps) m rest =
      if m :: rest = (p :: ps) ++ [g.gmeta.raw] ∧ hasIn ts m rest = true then some g else slotIn ts m rest
  | [], m, rest => by simp [descend, slotIn, hasIn]
  | (.parent raw gr ch) :: ts, m, rest => by
    rw [descend]
    by_cases hr : raw = p
    · simp only [hr, if_true]
      rw [slotIn_parent, slotIn_parent, hasIn_parent]
      by_cases hm : p = m
      · subst hm
        cases rest with
        | nil => simp
        | cons r rs =>
          have ih := slotAt_insertGroup g ps ch (r :: rs)
          simp only [if_true, ih]
          simp
      · simp [hm]
        intro h; exact absurd h.symm hm
    · simp only [hr, if_false]
      rw [slotIn_parent, slotIn_parent, hasIn_parent]
      by_cases hm : raw = m
      · simp [hm]
        intro h; exact absurd (hm.trans h) hr
      · have ih := slotIn_descend g p ps ts m rest
        simp only [hm, if_false, ih]
  | (.leaf e a) :: ts, m, rest => by
    rw [descend]
    · have ih := slotIn_descend g p ps ts m rest
      rw [slotIn_leaf, slotIn_leaf, hasIn_leaf, ih]
    · intro _ _ _ h; cases h
end

mutual
/-- attaching a group changes no node -/
theorem hasNode_insertGroup (g : Group) : ∀ (path : List String) (tree : List Tree) (q : List String),
    hasNode (insertGroup tree g path) q = hasNode tree q
  | [], tree, q => by
    rw [insertGroup]
    cases q with
    | nil => simp [hasNode_nil]
    | cons m rest => rw [hasNode_cons, hasNode_cons, hasIn_setSlot]
  | p :: ps, tree, q => by
    rw [insertGroup]
    cases q with
    | nil => simp [hasNode_nil]
    | cons m rest => rw [hasNode_cons, hasNode_cons]; exact hasIn_descend g p ps tree m rest
theorem hasIn_descend (g : Group) (p : String) (ps : List String) : ∀ (ts : List Tree) (m : String) (rest : List String),
    hasIn (descend ts g p ps) m rest = hasIn ts m rest
  | [], m, rest => by simp [descend]
  | (.parent raw gr ch) :: ts, m, rest => by
    rw [descend]
    by_cases hr : raw = p
    · simp only [hr, if_true]
      rw [hasIn_parent, hasIn_parent]
      by_cases hm : p = m
      · cases rest with
        | nil => simp [hm]
        | cons r rs => simp only [hm, if_true]; exact hasNode_insertGroup g ps ch (r :: rs)
      · simp [hm]
    · simp only [hr, if_false]
      rw [hasIn_parent, hasIn_parent, hasIn_descend g p ps ts m rest]
  | (.leaf e a) :: ts, m, rest => by
    rw [descend]
    · rw [hasIn_leaf, hasIn_leaf, hasIn_descend g p ps ts m rest]
    · intro _ _ _ h; cases h
end

/-! ### all groups -/

def insertAll (gs : List Group) (t : List Tree) : List Tree := gs.foldl (fun t g => insertGroup t g g.gmeta.modPath) t

theorem hasNode_insertAll (gs : List Group) : ∀ (t : List Tree) (q : List String), hasNode (insertAll gs t) q = hasNode t q := by
  induction gs with
  | nil => intro t q; rfl
  | cons g gs ih =>
    intro t q
    show hasNode (insertAll gs (insertGroup t g g.gmeta.modPath)) q = _
    rw [ih, hasNode_insertGroup]

/-- after all `insert_group`s: the node `q`, if it exists, carries the last registered group meant
    for it, and keeps its slot if no group is meant for it -/
theorem slotAt_insertAll (gs : List Group) : ∀ (t : List Tree) (q : List String),
    slotAt (insertAll gs t) q =
      match gs.reverse.find? (fun g => g.node = q) with
      | some g => if hasNode t q = true then some g else slotAt t q
      | none => slotAt t q := by
  induction gs with
  | nil => intro t q; simp [insertAll]
  | cons g gs ih =>
    intro t q
    show slotAt (insertAll gs (insertGroup t g g.gmeta.modPath)) q = _
    rw [ih, hasNode_insertGroup, slotAt_insertGroup, List.reverse_cons, List.find?_append]
    cases hfind : gs.reverse.find? (fun g => g.node = q) with
    | some g' => simp
                 by_cases hn : hasNode t q = true
                 · simp [hn]
                 · simp [hn]
    | none =>
      simp only [Option.none_or, List.find?_cons, List.find?_nil]
      by_cases hq : g.node = q
      · have : q = g.gmeta.modPath ++ [g.gmeta.raw] := hq.symm
        simp [hq, this, Group.node]
      · have : ¬ q = g.gmeta.modPath ++ [g.gmeta.raw] := fun h => hq h.symm
        simp [hq, this]

/-! ### before any group is attached every slot is empty -/

mutual
def NoSlotsL : List Tree → Prop
  | [] => True
  | t :: ts => NoSlotsT t ∧ NoSlotsL ts
def NoSlotsT : Tree → Prop
  | .parent _ g ch => g = none ∧ NoSlotsL ch
  | .leaf .. => True
end

theorem fromPath_noSlots (e : Bench) : ∀ path, NoSlotsT (fromPath e path)
  | [] => by simp [fromPath, NoSlotsT]
  | m :: rest => by
    rw [fromPath, NoSlotsT, NoSlotsL]
    exact ⟨rfl, fromPath_noSlots e rest, by simp [NoSlotsL]⟩

theorem noSlots_append (a b : List Tree) (ha : NoSlotsL a) (hb : NoSlotsL b) : NoSlotsL (a ++ b) := by
  induction a with
  | nil => simpa using hb
  | cons t ts ih =>
    rw [NoSlotsL] at ha
    show NoSlotsL (t :: (ts ++ b))
    rw [NoSlotsL]
    exact ⟨ha.1, ih ha.2⟩

mutual
theorem insertEntry_noSlots (e : Bench) : ∀ (path : List String) (tree : List Tree), NoSlotsL tree → NoSlotsL (insertEntry tree e path)
  | [], tree, h => by
    rw [insertEntry]
    exact noSlots_append _ _ h (by simp [NoSlotsL, NoSlotsT])
  | m :: rest, tree, h => by rw [insertEntry]; exact insertInto_noSlots e m rest tree h
theorem insertInto_noSlots (e : Bench) (m : String) (rest : List String) : ∀ (tree : List Tree), NoSlotsL tree → NoSlotsL (insertInto tree e m rest)
  | [], _ => by
    rw [insertInto, NoSlotsL]
    exact ⟨fromPath_noSlots e (m :: rest), by simp [NoSlotsL]⟩
  | (.parent raw g ch) :: ts, h => by
    rw [NoSlotsL, NoSlotsT] at h
    obtain ⟨⟨hg, hch⟩, hts⟩ := h
    rw [insertInto]
    by_cases hr : raw = m
    · simp only [hr, if_true]
      rw [NoSlotsL, NoSlotsT]
      exact ⟨⟨hg, insertEntry_noSlots e rest ch hch⟩, hts⟩
    · simp only [hr, if_false]
      rw [NoSlotsL, NoSlotsT]
      exact ⟨⟨hg, hch⟩, insertInto_noSlots e m rest ts hts⟩
  | (.leaf e' a) :: ts, h => by
    rw [NoSlotsL] at h
    rw [insertInto]
    · rw [NoSlotsL]
      exact ⟨h.1, insertInto_noSlots e m rest ts h.2⟩
    · intro _ _ _ h; cases h
end

theorem fromBenches_noSlots (bs : List Bench) : NoSlotsL (fromBenches bs) := by
  unfold fromBenches
  suffices h : ∀ (t : List Tree), NoSlotsL t → NoSlotsL (bs.foldl (fun t b => insertEntry t b b.path) t) from h [] (by simp [NoSlotsL])
  induction bs with
  | nil => intro t ht; exact ht
  | cons b bs ih => intro t ht; exact ih _ (insertEntry_noSlots b b.path t ht)

mutual
theorem slotAt_noSlots : ∀ (tree : List Tree) (q : List String), NoSlotsL tree → slotAt tree q = none
  | _, [], _ => slotAt_nil _
  | tree, m :: rest, h => by rw [slotAt_cons]; exact slotIn_noSlots tree m rest h
theorem slotIn_noSlots : ∀ (ts : List Tree) (m : String) (rest : List String), NoSlotsL ts → slotIn ts m rest = none
  | [], m, rest, _ => by simp [slotIn]
  | (.parent raw g ch) :: ts, m, rest, h => by
    rw [NoSlotsL, NoSlotsT] at h
    obtain ⟨⟨hg, hch⟩, hts⟩ := h
    rw [slotIn_parent]
    by_cases hr : raw = m
    · simp only [hr, if_true]
      cases rest with
      | nil => exact hg
      | cons r rs => exact slotAt_noSlots ch (r :: rs) hch
    · simp only [hr, if_false]; exact slotIn_noSlots ts m rest hts
  | (.leaf e a) :: ts, m, rest, h => by
    rw [NoSlotsL] at h
    rw [slotIn_leaf]; exact slotIn_noSlots ts m rest h.2
end

/-- **every `bench_group` reaches the node of its module**: in the tree `run_action` builds, a node
    `q` that exists carries exactly the (last registered) group entry whose module path and raw name
    spell `q`, and none if no group entry is meant for it - for every program and registration order -/
theorem group_reaches_its_node (pr : Program) (q : List String) :
    slotAt (buildTree pr) q =
      match pr.groups.reverse.find? (fun g => g.node = q) with
      | some g => if hasNode (fromBenches (pr.benches ++ pr.groups.flatMap (·.benches))) q = true then some g else none
      | none => none := by
  have h0 := slotAt_noSlots _ q (fromBenches_noSlots (pr.benches ++ pr.groups.flatMap (·.benches)))
  have := slotAt_insertAll pr.groups (fromBenches (pr.benches ++ pr.groups.flatMap (·.benches))) q
  unfold buildTree
  simp only [insertAll] at this
  rw [this, h0]

/-- if only one group entry is meant for a node (no name clash, finding F7), it is that one -/
theorem group_unique_reaches (pr : Program) (g : Group) (hg : g ∈ pr.groups)
    (huniq : ∀ g' ∈ pr.groups, g'.node = g.node → g' = g)
    (hnode : hasNode (fromBenches (pr.benches ++ pr.groups.flatMap (·.benches))) g.node = true) :
    slotAt (buildTree pr) g.node = some g := by
  rw [group_reaches_its_node]
  cases hf : pr.groups.reverse.find? (fun g' => g'.node = g.node) with
  | none =>
    have := List.find?_eq_none.1 hf g (by simpa using hg)
    simp at this
  | some g' =>
    have hmem : g' ∈ pr.groups := by
      have := List.mem_of_find?_eq_some hf
      simpa using this
    have hp : g'.node = g.node := by
      have := List.find?_some hf
      simpa using this
    simp [hnode, huniq g' hmem hp]

/-! ### which nodes exist: the non-empty prefixes of the registered entries' paths -/

/-- `q` is a non-empty prefix of `p` -/
def nePrefix : List String → List String → Bool
  | [], _ => false
  | _ :: _, [] => false
  | a :: as, b :: bs => decide (a = b) && (as.isEmpty || nePrefix as bs)

theorem nePrefix_cons (a b : String) (as bs : List String) :
    nePrefix (a :: as) (b :: bs) = (decide (a = b) && (match as with | [] => true | _ :: _ => nePrefix as bs)) := by
  cases as <;> simp [nePrefix]

theorem hasIn_fromPath (e : Bench) : ∀ (p : List String) (m : String) (rest : List String),
    hasIn [fromPath e p] m rest = nePrefix (m :: rest) p
  | [], m, rest => by simp [fromPath, hasIn_leaf, hasIn, nePrefix]
  | b :: bs, m, rest => by
    rw [fromPath, hasIn_parent, nePrefix_cons]
    by_cases h : b = m
    · subst h
      cases rest with
      | nil => simp
      | cons r rs =>
        simp only [if_true, decide_true, Bool.true_and]
        rw [hasNode_cons]; exact hasIn_fromPath e bs r rs
    · have : ¬ m = b := fun x => h x.symm
      simp [h, this, hasIn]

theorem hasIn_append_leaf (e : Bench) (a : Option (List Nat)) : ∀ (ts : List Tree) (m : String) (rest : List String),
    hasIn (ts ++ [Tree.leaf e a]) m rest = hasIn ts m rest
  | [], m, rest => by simp [hasIn_leaf, hasIn]
  | (.parent raw g ch) :: ts, m, rest => by
    show hasIn (Tree.parent raw g ch :: (ts ++ _)) m rest = _
    rw [hasIn_parent, hasIn_parent, hasIn_append_leaf e a ts m rest]
  | (.leaf e' a') :: ts, m, rest => by
    show hasIn (Tree.leaf e' a' :: (ts ++ _)) m rest = _
    rw [hasIn_leaf, hasIn_leaf, hasIn_append_leaf e a ts m rest]

mutual
theorem hasNode_insertEntry (e : Bench) : ∀ (p : List String) (tree : List Tree) (q : List String),
    hasNode (insertEntry tree e p) q = (hasNode tree q || nePrefix q p)
  | [], tree, q => by
    rw [insertEntry]
    cases q with
    | nil => simp [hasNode_nil, nePrefix]
    | cons m rest => rw [hasNode_cons, hasNode_cons, hasIn_append_leaf]; simp [nePrefix]
  | b :: bs, tree, q => by
    rw [insertEntry]
    cases q with
    | nil => simp [hasNode_nil, nePrefix]
    | cons m rest => rw [hasNode_cons, hasNode_cons]; exact hasIn_insertInto e b bs tree m rest
theorem hasIn_insertInto (e : Bench) (b : String) (bs : List String) : ∀ (ts : List Tree) (m : String) (rest : List String),
    hasIn (insertInto ts e b bs) m rest = (hasIn ts m rest || nePrefix (m :: rest) (b :: bs))
  | [], m, rest => by
    rw [insertInto, hasIn_fromPath]; simp [hasIn]
  | (.parent raw g ch) :: ts, m, rest => by
    rw [insertInto]
    by_cases hr : raw = b
    · simp only [hr, if_true]
      rw [hasIn_parent, hasIn_parent, nePrefix_cons]
      by_cases hm : b = m
      · subst hm
        cases rest with
        | nil => simp
        | cons r rs =>
          simp only [if_true, decide_true, Bool.true_and]
          exact hasNode_insertEntry e bs ch (r :: rs)
      · have : ¬ m = b := fun x => hm x.symm
        simp [hm, this]
    · simp only [hr, if_false]
      rw [hasIn_parent, hasIn_parent, nePrefix_cons]
      by_cases hm : raw = m
      · have : ¬ m = b := fun x => hr (hm.trans x)
        simp [hm, this]
      · have ih := hasIn_insertInto e b bs ts m rest
        rw [nePrefix_cons] at ih
        simp only [hm, if_false, ih]
  | (.leaf e' a) :: ts, m, rest => by
    rw [insertInto]
    · rw [hasIn_leaf, hasIn_leaf]; exact hasIn_insertInto e b bs ts m rest
    · intro _ _ _ h; cases h
end

/-- the nodes of the tree are exactly the non-empty prefixes of the entries' paths -/
theorem hasNode_fromBenches (bs : List Bench) (q : List String) :
    hasNode (fromBenches bs) q = bs.any (fun b => nePrefix q b.path) := by
  unfold fromBenches
  suffices h : ∀ (t : List Tree), hasNode (bs.foldl (fun t b => insertEntry t b b.path) t) q = (hasNode t q || bs.any (fun b => nePrefix q b.path)) by
    rw [h []]
    cases q <;> simp [hasNode_nil, hasNode_cons, hasIn]
  induction bs with
  | nil => intro t; simp
  | cons b bs ih =>
    intro t
    simp only [List.foldl_cons, List.any_cons]
    rw [ih, hasNode_insertEntry, Bool.or_assoc]

/-- **a `bench_group` module with a benchmark below it always gets its node**: if exactly one group
    entry is meant for the module `g.node` and some registered benchmark (plain or generic instance)
    lies at or below it, the node of that module in the final tree carries `g` - so the walk shows
    `g`'s display name there and hands `g`'s options down to everything below (Props/C15) -/
theorem group_reaches_benchmarks_below (pr : Program) (g : Group) (hg : g ∈ pr.groups)
    (huniq : ∀ g' ∈ pr.groups, g'.node = g.node → g' = g)
    (b : Bench) (hb : b ∈ pr.benches ++ pr.groups.flatMap (·.benches)) (hbelow : nePrefix g.node b.path = true) :
    slotAt (buildTree pr) g.node = some g := by
  apply group_unique_reaches pr g hg huniq
  rw [hasNode_fromBenches, List.any_eq_true]
  exact ⟨b, hb, hbelow⟩

end Prog
