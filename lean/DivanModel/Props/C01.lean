import DivanModel.Model.SampleLoop
/-! # C01 — each generated input is benchmarked once; each value is dropped once

Theorems about `Model/SampleLoop.lean`: the per-thread event trace of one sample (`trace`, replayed by
the bench lab's driver against the real code's event log for all six entry points and all 16 type
shapes) and the life cycle of one slot of the deferred store (the protocol of reads, borrows and
drops the unsafe code performs). -/
namespace SampleLoop

/-- every input is passed to exactly one call, in generation order: the calls of a sample are exactly
    `call 0, …, call (s−1)`, for every sample size, shape, entry point and counter list -/
theorem each_input_called_once (sh : Shape) (e : Entry) (cs : List Nat) (s : Nat) :
    (trace sh e cs s).filter isCall = (List.range s).map Ev.call := calls_exactly sh e cs s

/-- generation and counting come before the start timestamp, and every generated value is shown
    once to every input counter directly after it was generated -/
theorem gen_and_count_before_start (sh : Shape) (e : Entry) (cs : List Nat) (s : Nat) :
    (trace sh e cs s).filter (fun ev => isPre ev || isTs ev) =
      ((List.range s).flatMap fun i => Ev.gen i :: cs.map fun k => Ev.count k i) ++ [.tsStart, .tsEnd] :=
  gen_before_start sh e cs s

/-- every output, and every input that was only lent, is dropped exactly once, after the end timestamp,
    output `i` directly before input `i`; the three code paths (ZST fast path, deferred slots, inputs
    only) behave identically -/
theorem dropped_exactly_once (sh : Shape) (e : Entry) (cs : List Nat) (s : Nat) :
    (trace sh e cs s).filter (fun ev => isDrop ev || isTs ev) =
      [.tsStart, .tsEnd] ++ (List.range s).flatMap fun i =>
        (if sh.oDrop then [Ev.dropOut i] else []) ++ (if sh.iDrop && e == .refs then [Ev.dropIn i] else []) := by
  rw [drops_after_end]; rfl

/-- the three code paths emit the same drop sequence -/
theorem drop_paths_agree (sh : Shape) (e : Entry) (s : Nat) :
    dropPart sh e s = (List.range s).flatMap (dropsOf sh e) := dropPart_eq sh e s

/-- the slot protocol is free of undefined behaviour for all 32 shape × ownership combinations:
    write once, then read (by value) or borrow (by reference), then at most one drop in place -/
theorem no_ub (sh : Shape) (e : Entry) : (runCell .uninit (inputOps sh e)).isSome = true :=
  input_lifecycle_ok sh e

/-- final state of an input slot: moved out (by value), dropped (lent, has drop glue), or left alone
    (lent, nothing to drop) -/
theorem input_final_state (sh : Shape) (e : Entry) :
    runCell .uninit (inputOps sh e) =
      some (match e with | .values => .moved | .refs => if sh.iDrop then .dropped else .init) := input_final sh e

/-- an output slot is written once and dropped once -/
theorem output_written_then_dropped : runCell .uninit outputOps = some .dropped := output_lifecycle

/-- **panics**: a panic truncates the operation sequence; every prefix of a UB-free sequence is
    UB-free, so values may leak but nothing is dropped twice or read after it was dropped/moved -/
theorem panic_at_most_once (c : Cell) (ops : List CellOp) (k : Nat) (h : (runCell c ops).isSome = true) :
    (runCell c (ops.take k)).isSome = true := prefix_ok c ops k h

/-- ZST fast path: values are forgotten after generation and conjured again later; the balance per
    input is zero unless a lent input without drop glue is simply left alone -/
theorem zst_values_balance (sh : Shape) (e : Entry) :
    zstBalance sh e = if (e == .refs && !sh.iDrop) then 1 else 0 := zst_balance sh e

/-- a double drop *is* undefined behaviour in this model (the statement above is not vacuous) -/
example : runCell .uninit [.write, .dropInPlace, .dropInPlace] = none := by decide
example : (trace ⟨false, true, false, true⟩ .refs [3] 2).length = 2 * 2 + 2 + 2 + 3 + 4 := by decide

end SampleLoop
