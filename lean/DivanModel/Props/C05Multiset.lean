import DivanModel.Model.Stats
/-! # C05, multiset level — the figures depend on the *multiset* of recorded samples only

`Props/C05.lean` states the order statistics for a list that is already sorted. `compute_stats` sorts
the recorded samples itself (`sort_unstable_by_key` on the duration). Here the sort is inside the
statement: for any list of recorded durations in any order, whatever correct sorting algorithm is used,
the four time figures are those of the multiset - smallest, largest, middle of the ascending
arrangement, total over total iterations. -/
namespace Stats
open List

theorem ascending_perm (samples : List Nat) : (ascending samples).Perm samples := mergeSort_perm _ _

theorem ascending_sorted (samples : List Nat) : (ascending samples).Pairwise (· ≤ ·) := by
  have := pairwise_mergeSort (le := fun a b : Nat => decide (a ≤ b))
    (by intro a b c h1 h2; simp at *; omega) (by intro a b; simp; omega) samples
  exact this.imp (by intro a b h; simpa using h)

/-- **whatever sorting algorithm is used**: two ascending arrangements of the same samples are the
    same list (`sort_unstable_by_key` vs. merge sort; ties are equal numbers) -/
theorem ascending_unique (samples L : List Nat) (hL : L.Perm samples) (sL : L.Pairwise (· ≤ ·)) :
    L = ascending samples := by
  apply Perm.eq_of_pairwise (le := (· ≤ ·)) _ sL (ascending_sorted samples)
    (hL.trans (ascending_perm samples).symm)
  intro a b _ _ hab hba
  omega

/-- **the time figures are a function of the multiset**: recording the same durations in another order
    (other thread interleaving, other round structure) gives the same four figures -/
theorem stats_of_multiset (s : Nat) (a b : List Nat) (h : a.Perm b) :
    timeStats s (ascending a) = timeStats s (ascending b) := by
  have : ascending a = ascending b :=
    ascending_unique b (ascending a) ((ascending_perm a).trans h) (ascending_sorted a)
  rw [this]

theorem sum_perm (a b : List Nat) (h : a.Perm b) : sum a = sum b := by
  induction h with
  | nil => rfl
  | cons x _ ih => simp [sum_cons, ih]
  | swap x y l => simp only [sum_cons]; omega
  | trans _ _ ih1 ih2 => exact ih1.trans ih2

/-- **C05, headline**: for every non-empty list of recorded durations, in whatever order they were
    recorded, and every positive sample size: `fastest` is the smallest duration divided by the sample
    size, `slowest` the largest, `mean` the total duration over the total iteration count, `median`
    lies between, and all of it is what any correct ascending sort would have produced. -/
theorem order_statistics_of_any_samples (s : Nat) (hs : 0 < s) (samples : List Nat) (hne : samples ≠ []) :
    let st := timeStats s (ascending samples)
    (∃ mn ∈ samples, (∀ x ∈ samples, mn ≤ x) ∧ st.fastest = mn / s) ∧
    (∃ mx ∈ samples, (∀ x ∈ samples, x ≤ mx) ∧ st.slowest = mx / s) ∧
    st.mean = sum samples / (s * samples.length) ∧
    st.fastest ≤ st.median ∧ st.median ≤ st.slowest ∧ st.fastest ≤ st.mean ∧ st.mean ≤ st.slowest := by
  intro st
  have hp := ascending_perm samples
  have hne' : ascending samples ≠ [] := by
    intro h; rw [h] at hp; exact hne hp.symm.eq_nil
  obtain ⟨⟨mn, hmn, hmnle, hf⟩, ⟨mx, hmx, hmxle, hsl⟩, h1, h2, h3, h4⟩ :=
    time_order s hs (ascending samples) hne' (ascending_sorted samples)
  refine ⟨⟨mn, ?_, fun x hx => hmnle x (hp.mem_iff.mpr hx), hf⟩,
          ⟨mx, ?_, fun x hx => hmxle x (hp.mem_iff.mpr hx), hsl⟩, ?_, h1, h2, h3, h4⟩
  · exact hp.mem_iff.mp (mem_of_mem_head? hmn)
  · exact hp.mem_iff.mp (mem_of_getLast? hmx)
  · have hl : 0 < (ascending samples).length := length_pos_iff.mpr hne'
    have hz : ¬ (s * (ascending samples).length = 0) := by
      have := Nat.mul_pos hs hl; omega
    show (timeStats s (ascending samples)).mean = _
    simp only [timeStats, hz, if_false]
    rw [sum_perm _ _ hp, hp.length_eq]

/-- non-vacuity and a concrete reading: four samples recorded out of order, two iterations each -/
example : timeStats 2 (ascending [40, 10, 31, 20]) = ⟨5, 20, 12, 12⟩ := by
  have : ascending [40, 10, 31, 20] = [10, 20, 31, 40] :=
    (ascending_unique [40, 10, 31, 20] [10, 20, 31, 40] (by decide) (by decide)).symm
  rw [this]; decide

end Stats
