import DivanModel.Model.Prog
/-! # C13, the regular-expression side — "filters match by regular-expression search"

`regex-lite` itself is a dependency and is not modelled; the generator of the registry / macro labs emits
filters from a small grammar (alternatives of optionally anchored sequences of literal characters and
`.`), and the driver decides them with `Prog.regexSearch`. Until round 5 that function was a trusted
re-implementation. Here it is proved against the declarative reading of such a pattern: an alternative
matches a path iff some substring *fits* its atoms character by character - at the very start if the
alternative begins with `^`, up to the very end if it ends with `$` - and a pattern matches iff one of
its alternatives does. -/
namespace Prog

/-- `mid` fits the atom sequence: same length, a literal equals its character, `.` is any character
    but a line feed -/
inductive Fits : List Atom → List Char → Prop
  | nil : Fits [] []
  | lit (c : Char) (as : List Atom) (xs : List Char) : Fits as xs → Fits (.lit c :: as) (c :: xs)
  | any (x : Char) (as : List Atom) (xs : List Char) : x ≠ '\n' → Fits as xs → Fits (.any :: as) (x :: xs)

/-- the atom matcher consumes exactly a prefix that fits -/
theorem matchAtoms_iff (as : List Atom) : ∀ (s rest : List Char),
    matchAtoms as s = some rest ↔ ∃ mid, s = mid ++ rest ∧ Fits as mid := by
  induction as with
  | nil =>
    intro s rest
    simp only [matchAtoms, Option.some.injEq]
    constructor
    · intro h; exact ⟨[], by simp [h], .nil⟩
    · rintro ⟨mid, hs, hf⟩; cases hf; simpa using hs
  | cons a as ih =>
    intro s rest
    cases s with
    | nil =>
      have hnone : matchAtoms (a :: as) [] = none := by cases a <;> rfl
      rw [hnone]
      constructor
      · intro h; cases h
      · rintro ⟨mid, hs, hf⟩
        cases hf <;> simp at hs
    | cons x xs =>
      cases a with
      | lit c =>
        simp only [matchAtoms]
        by_cases hc : c = x
        · subst hc
          simp only [if_true]
          rw [ih xs rest]
          constructor
          · rintro ⟨mid, hs, hf⟩; exact ⟨c :: mid, by simp [hs], .lit c as mid hf⟩
          · rintro ⟨mid, hs, hf⟩
            cases hf with
            | lit _ _ ys hf' => exact ⟨ys, by simpa using hs, hf'⟩
        · simp only [hc, if_false]
          constructor
          · intro h; cases h
          · rintro ⟨mid, hs, hf⟩
            cases hf with
            | lit _ _ ys hf' => simp at hs; exact absurd hs.1.symm hc
      | any =>
        simp only [matchAtoms]
        by_cases hx : x = '\n'
        · simp only [hx, if_true]
          constructor
          · intro h; cases h
          · rintro ⟨mid, hs, hf⟩
            cases hf with
            | any y _ ys hy hf' =>
              simp at hs
              exact absurd hs.1.symm hy
        · simp only [hx, if_false]
          rw [ih xs rest]
          constructor
          · rintro ⟨mid, hs, hf⟩; exact ⟨x :: mid, by simp [hs], .any x as mid hx hf⟩
          · rintro ⟨mid, hs, hf⟩
            cases hf with
            | any y _ ys hy hf' => exact ⟨ys, by simp at hs; exact hs.2, hf'⟩

/-- one attempt at a fixed position -/
def tryAt (a : Alt) (t : List Char) : Bool :=
  match matchAtoms a.atoms t with
  | some rest => !a.anchorEnd || rest.isEmpty
  | none => false

theorem tryAt_iff (a : Alt) (t : List Char) :
    tryAt a t = true ↔ ∃ mid post, t = mid ++ post ∧ Fits a.atoms mid ∧ (a.anchorEnd = true → post = []) := by
  unfold tryAt
  cases h : matchAtoms a.atoms t with
  | none =>
    simp only [Bool.false_eq_true, false_iff]
    rintro ⟨mid, post, ht, hf, _⟩
    have := (matchAtoms_iff a.atoms t post).2 ⟨mid, ht, hf⟩
    rw [h] at this; cases this
  | some rest =>
    obtain ⟨mid, ht, hf⟩ := (matchAtoms_iff a.atoms t rest).1 h
    constructor
    · intro hb
      refine ⟨mid, rest, ht, hf, fun he => ?_⟩
      simp [he] at hb; exact hb
    · rintro ⟨mid', post, ht', hf', he⟩
      have h2 := (matchAtoms_iff a.atoms t post).2 ⟨mid', ht', hf'⟩
      rw [h] at h2
      cases h2
      cases hae : a.anchorEnd with
      | false => simp
      | true => simp [he hae]

/-- the unanchored search tries every position, the end of the string included -/
def searchFrom (a : Alt) : List Char → Bool
  | [] => tryAt a []
  | c :: cs => tryAt a (c :: cs) || searchFrom a cs

theorem searchFrom_iff (a : Alt) : ∀ (s : List Char),
    searchFrom a s = true ↔ ∃ pre t, s = pre ++ t ∧ tryAt a t = true := by
  intro s
  induction s with
  | nil =>
    simp only [searchFrom]
    constructor
    · intro h; exact ⟨[], [], rfl, h⟩
    · rintro ⟨pre, t, hs, ht⟩
      have : t = [] := by
        cases pre <;> simp at hs
        exact hs.symm ▸ rfl
      rw [this] at ht; exact ht
  | cons c cs ih =>
    simp only [searchFrom, Bool.or_eq_true, ih]
    constructor
    · rintro (h | ⟨pre, t, hs, ht⟩)
      · exact ⟨[], c :: cs, rfl, h⟩
      · exact ⟨c :: pre, t, by simp [hs], ht⟩
    · rintro ⟨pre, t, hs, ht⟩
      cases pre with
      | nil => left; simp at hs; rw [hs]; exact ht
      | cons p pre' =>
        right
        simp at hs
        exact ⟨pre', t, hs.2, ht⟩

theorem altMatches_eq (a : Alt) (s : List Char) :
    altMatches a s = if a.anchorStart then tryAt a s else searchFrom a s := by
  unfold altMatches
  split
  · rfl
  · induction s with
    | nil => rfl
    | cons c cs ih =>
      simp only [altMatches.search, searchFrom]
      rw [ih]; rfl

/-- **an alternative matches iff a substring fits it**, anchored where it says -/
theorem altMatches_iff (a : Alt) (s : List Char) :
    altMatches a s = true ↔
      ∃ pre mid post, s = pre ++ mid ++ post ∧ Fits a.atoms mid ∧
        (a.anchorStart = true → pre = []) ∧ (a.anchorEnd = true → post = []) := by
  rw [altMatches_eq]
  cases hs : a.anchorStart with
  | true =>
    simp only [if_true, tryAt_iff]
    constructor
    · rintro ⟨mid, post, ht, hf, he⟩; exact ⟨[], mid, post, by simpa using ht, hf, fun _ => rfl, he⟩
    · rintro ⟨pre, mid, post, ht, hf, hp, he⟩
      have hpre : pre = [] := hp trivial
      subst hpre
      exact ⟨mid, post, by simpa using ht, hf, he⟩
  | false =>
    simp only [Bool.false_eq_true, if_false, searchFrom_iff]
    constructor
    · rintro ⟨pre, t, hst, ht⟩
      obtain ⟨mid, post, ht', hf, he⟩ := (tryAt_iff a t).1 ht
      exact ⟨pre, mid, post, by rw [hst, ht']; simp, hf, fun h => absurd h (by simp), he⟩
    · rintro ⟨pre, mid, post, ht, hf, _, he⟩
      exact ⟨pre, mid ++ post, by rw [ht]; simp, (tryAt_iff a _).2 ⟨mid, post, rfl, hf, he⟩⟩

/-- **regular-expression search over a pattern with alternatives**: the pattern matches the path iff one
    of its alternatives has a fitting substring -/
theorem regexSearch_iff (pat s : String) :
    regexSearch pat s = true ↔ ∃ alt ∈ splitAlts pat.toList,
      ∃ pre mid post, s.toList = pre ++ mid ++ post ∧ Fits (parseAlt alt).atoms mid ∧
        ((parseAlt alt).anchorStart = true → pre = []) ∧ ((parseAlt alt).anchorEnd = true → post = []) := by
  unfold regexSearch
  simp only [List.any_eq_true, altMatches_iff]

/-- a literal pattern is a substring test; anchored at both ends it is equality -/
example : regexSearch "m::b" "bc::m::b1" = true ∧ regexSearch "^m::b" "bc::m::b1" = false ∧
    regexSearch "^bc::m::b1$" "bc::m::b1" = true ∧ regexSearch "b.$|^x" "bc::m::b1" = true ∧
    regexSearch "a\\.b" "a.b" = true ∧ regexSearch "a\\.b" "axb" = false := by decide

end Prog
