import DivanModel.Model.LineCodec
import DivanModel.Model.Tree
/-! # C20, character level — a printed row can be read back, and so can the whole tree

`Props/C20.lean` stops at abstract lines (prefix glyphs, branch, name). The registry driver judges the
implementation's *text* with `LineCodec.parseRow` (through `Driver/Reg.parseTLine` / `treeGlyphsOk`).
Here: that decoder inverts the painter's rendering for every prefix, every position and every clean
name, whatever follows the name on the row; hence the printed rows of any tree determine the tree. -/
namespace C20Codec
open LineCodec Painter

theorem splitPrefix_branch (last : Bool) (rest : List Char) :
    splitPrefix (branchChars last ++ rest) = some ([], last, rest) := by
  cases last <;> simp [branchChars, splitPrefix]

/-- **the glyph decoder inverts the painter's prefix**, for every stack of open ancestors, both
    positions and any remainder of the row (no condition on the name at all below the top level) -/
theorem splitPrefix_render (pre : List Glyph) (last : Bool) (rest : List Char) :
    splitPrefix (renderRow pre last rest) = some (pre, last, rest) := by
  induction pre with
  | nil => simpa [renderRow, prefixChars] using splitPrefix_branch last rest
  | cons g gs ih =>
    unfold renderRow at ih ⊢
    cases g
    · simp [prefixChars, glyphChars, splitPrefix, ih]
    · simp [prefixChars, glyphChars, splitPrefix, ih]

/-- the cutter returns a clean name unchanged when the row ends after it -/
theorem cutLabel_clean_end : ∀ (l : List Char), cleanLabel l = true → cutLabel l = l
  | [], _ => rfl
  | c :: r, h => by
    simp only [cleanLabel, Bool.and_eq_true, Bool.not_eq_true'] at h
    simp [cutLabel, h.1.1, cutLabel_clean_end r h.2]

/-- padding after a clean name starts no cut pattern before the name is over -/
theorem cutsHere_pad (c : Char) (r x : List Char) (h1 : cutsHere (c :: r) = false)
    (h2 : (!r.isEmpty || c != ' ') = true) : cutsHere (c :: (r ++ ' ' :: ' ' :: x)) = false := by
  match r with
  | [] => simp at h2; simp [cutsHere, h2]
  | [d] => simp [cutsHere] at h1 ⊢; grind
  | [d, e] => simp [cutsHere] at h1 ⊢; grind
  | d :: e :: f :: r' => simpa [cutsHere] using h1

/-- ... and when padding (two blanks or more) follows it -/
theorem cutLabel_clean_pad : ∀ (l x : List Char), cleanLabel l = true →
    cutLabel (l ++ ' ' :: ' ' :: x) = l
  | [], x, _ => by simp [cutLabel, cutsHere]
  | c :: r, x, h => by
    simp only [cleanLabel, Bool.and_eq_true, Bool.not_eq_true'] at h
    have := cutsHere_pad c r x h.1.1 h.1.2
    simp [cutLabel, this, cutLabel_clean_pad r x h.2]

/-- what follows a name on a row: nothing (parents, `--list`) or padding and cells -/
inductive Tail : List Char → Prop
  | none : Tail []
  | pad (r : List Char) : Tail (' ' :: ' ' :: r)

theorem cutLabel_clean (l tl : List Char) (h : cleanLabel l = true) (ht : Tail tl) :
    cutLabel (l ++ tl) = l := by
  cases ht with
  | none => simpa using cutLabel_clean_end l h
  | pad r => exact cutLabel_clean_pad l r h

/-- **a row below the top level reads back as its depth, position, bars and name** -/
theorem parseRow_render (pre : List Glyph) (last : Bool) (l tl : List Char)
    (h : cleanLabel l = true) (ht : Tail tl) :
    parseRow (renderRow pre last (l ++ tl)) =
      some ⟨pre.length + 1, last, pre.map (· == Glyph.bar), l⟩ := by
  have hne : (renderRow pre last (l ++ tl)).isEmpty = false := by
    cases pre with
    | nil => cases last <;> simp [renderRow, prefixChars, branchChars]
    | cons g gs => cases g <;> simp [renderRow, prefixChars, glyphChars]
  unfold parseRow
  rw [hne, splitPrefix_render]
  simp [cutLabel_clean l tl h ht]

theorem splitPrefix_cleanTop (cs : List Char) (h : cleanTop cs = true) : splitPrefix cs = none := by
  match cs with
  | [] => simp [cleanTop] at h
  | [a] => simp [splitPrefix]
  | [a, b] => simp [splitPrefix]
  | a :: b :: c :: r =>
    simp [cleanTop] at h
    simp [splitPrefix, h]

/-- **a top-level row reads back as depth 0 and its name** -/
theorem parseRow_top (l tl : List Char) (hc : cleanLabel l = true) (ht : cleanTop l = true) (htl : Tail tl) :
    parseRow (l ++ tl) = some ⟨0, true, [], l⟩ := by
  match l, ht with
  | a :: r, ht =>
    have h1 : cleanTop ((a :: r) ++ tl) = true := by simpa [cleanTop] using ht
    have h2 : startsBlank ((a :: r) ++ tl) = false := by
      simp [cleanTop] at ht
      simp [startsBlank, ht]
    have h3 := cutLabel_clean (a :: r) tl hc htl
    unfold parseRow
    rw [splitPrefix_cleanTop _ h1, h2, h3]
    simp

/-- a continuation row (what `finish_leaf` prints under a leaf for allocations and counters starts
    with the prefix and a bar or blanks, never with a branch glyph) opens no node -/
theorem parseRow_continuation (cs : List Char) (h1 : splitPrefix cs = none) (h2 : startsBlank cs = true) :
    parseRow cs = none := by
  unfold parseRow
  split
  · rfl
  · simp [h1, h2]

/-! ## From rows to the tree -/

/-- the text of an abstract line: the name is rendered by `nm`, `tl` says what follows it -/
def rowText (nm : Nat → List Char) (tl : Nat → List Char) (l : Line) : List Char :=
  match l.branch with
  | none => nm l.name ++ tl l.name
  | some b => renderRow l.pre b (nm l.name ++ tl l.name)

def rowOf (nm : Nat → List Char) (l : Line) : Row :=
  match l.branch with
  | none => ⟨0, true, [], nm l.name⟩
  | some b => ⟨l.pre.length + 1, b, l.pre.map (· == Glyph.bar), nm l.name⟩

/-- every name is clean; names shown at the top level (crate / binary names) do not start with a glyph -/
structure CleanNames (nm tl : Nat → List Char) : Prop where
  label : ∀ n, cleanLabel (nm n) = true
  top : ∀ n, cleanTop (nm n) = true
  tail : ∀ n, Tail (tl n)

/-- **every painted line reads back**: for each line the painter emits, the decoder returns exactly
    the line's depth, position, continuation bars and name -/
theorem line_reads_back (nm tl : Nat → List Char) (h : CleanNames nm tl) (l : Line) :
    parseRow (rowText nm tl l) = some (rowOf nm l) := by
  unfold rowText rowOf
  cases hb : l.branch with
  | none => simpa using parseRow_top _ _ (h.label _) (h.top _) (h.tail _)
  | some b => simpa using parseRow_render l.pre b _ _ (h.label _) (h.tail _)

def conv : Painter.Tree → TreeRT.Tree
  | .leaf n => .node n []
  | .parent n cs => .node n (convF cs)
where convF : List Painter.Tree → List TreeRT.Tree
  | [] => []
  | t :: ts => conv t :: convF ts

def depthName (l : Line) : Nat × Nat :=
  (match l.branch with | none => 0 | some _ => l.pre.length + 1, l.name)

mutual
  theorem lines_depths_T (t : Painter.Tree) : ∀ (pre : List Glyph) (isLast : Bool),
      (linesT pre false isLast t).map depthName = TreeRT.toPre (pre.length + 1) (conv t) := by
    cases t with
    | leaf n =>
      intro pre isLast
      simp [linesT, depthName, conv, TreeRT.toPre, TreeRT.toPreF]
    | parent n cs =>
      intro pre isLast
      have := lines_depths_F cs (pre ++ [glyphOf isLast])
      simp [linesT, depthName, conv, TreeRT.toPre, this]
  theorem lines_depths_F (ts : List Painter.Tree) : ∀ (pre : List Glyph),
      (linesF pre ts).map depthName = TreeRT.toPreF (pre.length + 1) (conv.convF ts) := by
    cases ts with
    | nil => intro pre; simp [linesF, conv.convF, TreeRT.toPreF]
    | cons t ts =>
      intro pre
      have h1 := lines_depths_T t pre ts.isEmpty
      have h2 := lines_depths_F ts pre
      simp [linesF, conv.convF, TreeRT.toPreF, h1, h2]
end

/-- the lines painted for a top-level node (a crate: always a parent) carry the depth-annotated
    preorder of its tree -/
theorem lines_depths_top (n : Nat) (cs : List Painter.Tree) :
    (linesT [] true true (.parent n cs)).map depthName = TreeRT.toPre 0 (conv (.parent n cs)) := by
  have := lines_depths_F cs []
  simp [linesT, depthName, conv, TreeRT.toPre] at this ⊢
  exact this

/-- the rows of a painted tree, as text -/
def textRows (nm tl : Nat → List Char) (t : Painter.Tree) : List (List Char) :=
  (linesT [] true true t).map (rowText nm tl)

/-- **every row of a painted tree reads back** as the line the painter emitted -/
theorem rows_read_back (nm tl : Nat → List Char) (h : CleanNames nm tl) (t : Painter.Tree) :
    (textRows nm tl t).filterMap parseRow = (linesT [] true true t).map (rowOf nm) := by
  unfold textRows
  generalize linesT [] true true t = ls
  induction ls with
  | nil => rfl
  | cons l ls ih => simp [List.filterMap_cons, line_reads_back nm tl h l, ih]

theorem rowOf_depthName (nm : Nat → List Char) (un : List Char → Nat) (hun : ∀ n, un (nm n) = n) (l : Line) :
    ((rowOf nm l).depth, un (rowOf nm l).label) = depthName l := by
  unfold rowOf depthName
  cases l.branch <;> simp [hun]

/-- **the printed tree can be parsed back from its characters**: take the text rows `TreePainter`
    prints for any tree below a top-level node (each node once, depth first - `C20.each_node_once`),
    with any clean, distinguishable names and anything after the names; decode every row with the
    driver's `parseRow`; rebuild a forest from the (depth, name) sequence: the result is the tree that was
    painted, and nothing is left over. Interleaved continuation rows change nothing
    (`parseRow_continuation`: they decode to `none` and are dropped by `filterMap`). -/
theorem printed_tree_reads_back (nm tl : Nat → List Char) (h : CleanNames nm tl)
    (un : List Char → Nat) (hun : ∀ n, un (nm n) = n) (n : Nat) (cs : List Painter.Tree) :
    let rows := (textRows nm tl (.parent n cs)).filterMap parseRow
    let pre := rows.map fun r => (r.depth, un r.label)
    TreeRT.parseF pre.length 0 pre = ([conv (.parent n cs)], []) := by
  intro rows pre
  have hpre : pre = TreeRT.toPreF 0 [conv (.parent n cs)] := by
    show (List.filterMap parseRow (textRows nm tl (.parent n cs))).map _ = _
    rw [rows_read_back nm tl h, List.map_map]
    have : ((fun r : Row => (r.depth, un r.label)) ∘ rowOf nm) = depthName := by
      funext l; exact rowOf_depthName nm un hun l
    rw [this, lines_depths_top]
    simp [TreeRT.toPreF]
  rw [hpre]
  exact TreeRT.parse_render _

/-! Non-vacuity: names `x`, `xx`, `xxx`, ... are clean and distinguishable, with or without padding. -/
def xs (n : Nat) : List Char := List.replicate (n + 1) 'x'

theorem cleanLabel_xs (n : Nat) : cleanLabel (xs n) = true := by
  induction n with
  | zero => decide
  | succ n ih =>
    have : xs (n + 1) = 'x' :: xs n := by simp [xs, List.replicate_succ]
    rw [this]
    simp only [cleanLabel, ih, Bool.and_true]
    simp [cutsHere, xs, List.replicate_succ]

example : CleanNames xs (fun n => if n % 2 = 0 then [] else ' ' :: ' ' :: ['1', ' ', '│']) where
  label := cleanLabel_xs
  top := fun n => by simp [xs, List.replicate_succ, cleanTop]
  tail := fun n => by split; exact .none; exact .pad _

example : ∀ n, (fun l : List Char => l.length - 1) (xs n) = n := by intro n; simp [xs]

/-- a concrete row: two open ancestors (one with later siblings), a last child, name and cells -/
example : parseRow "│     ╰─ t=4     1.2 ns │ 3 ns".toList =
    some ⟨3, true, [true, false], "t=4".toList⟩ := by decide

/-! ## The cells of a row -/

/-- scanning over a cell without a bar, followed by nothing or by something that starts with a blank,
    finds no separator inside it -/
theorem splitCellsGo_cell (c : List Char) : ∀ (cur rest : List Char), '│' ∉ c →
    (rest = [] ∨ ∃ r, rest = ' ' :: r) →
    splitCellsGo cur (c ++ rest) = splitCellsGo (c.reverse ++ cur) rest := by
  induction c with
  | nil => intro cur rest _ _; simp
  | cons x xs ih =>
    intro cur rest hx hr
    have hx1 : x ≠ '│' := fun h => hx (by simp [h])
    have hx2 : '│' ∉ xs := fun h => hx (by simp [h])
    have step : splitCellsGo cur (x :: (xs ++ rest)) = splitCellsGo (x :: cur) (xs ++ rest) := by
      cases xs with
      | nil =>
        rcases hr with h | ⟨r, h⟩
        · subst h; simp [splitCellsGo]
        · subst h
          by_cases hsp : x = ' '
          · subst hsp
            cases r with
            | nil => simp [splitCellsGo]
            | cons r0 r1 => simp [splitCellsGo]
          · simp [splitCellsGo]
      | cons y ys =>
        have hy : y ≠ '│' := fun h => hx2 (by simp [h])
        by_cases hsp : x = ' '
        · subst hsp
          simp only [List.cons_append]
          rw [splitCellsGo]
          · intro a b h1; exact hy (List.cons.inj h1).1
        · simp only [List.cons_append]
          rw [splitCellsGo]
          · intro r h _; exact hsp h
    simp only [List.cons_append]
    rw [step, ih (x :: cur) rest hx2 hr]
    simp

/-- **the cells of a row read back**: joining any non-empty list of cells none of which contains a bar
    (numbers, units, blanks) with ` │ ` and splitting at ` │ ` gives the cells back -/
theorem splitCells_joinCells : ∀ (cells : List (List Char)), cells ≠ [] → (∀ c ∈ cells, '│' ∉ c) →
    ∀ cur, splitCellsGo cur (joinCells cells) =
      ((cur.reverse ++ cells.headD []) :: cells.tail)
  | [], h, _ => absurd rfl h
  | [c], _, hc => by
    intro cur
    have := splitCellsGo_cell c cur [] (hc c (by simp)) (Or.inl rfl)
    simp only [List.append_nil] at this
    simp [joinCells, this, splitCellsGo]
  | c :: d :: ds, _, hc => by
    intro cur
    have h1 := splitCellsGo_cell c cur (cellSep ++ joinCells (d :: ds)) (hc c (by simp))
      (Or.inr ⟨'│' :: ' ' :: joinCells (d :: ds), rfl⟩)
    have ih := splitCells_joinCells (d :: ds) (List.cons_ne_nil _ _) (fun x hx => hc x (by simp [hx])) []
    rw [joinCells, h1]
    case x_1 => intro h; cases h
    simp only [cellSep, List.cons_append, List.nil_append, splitCellsGo, ih]
    simp

theorem cells_read_back (cells : List (List Char)) (h : cells ≠ []) (hc : ∀ c ∈ cells, '│' ∉ c) :
    splitCells (joinCells cells) = cells := by
  have := splitCells_joinCells cells h hc []
  unfold splitCells
  rw [this]
  cases cells with
  | nil => exact absurd rfl h
  | cons c cs => simp

example : splitCells "1.2 ns │ 3 ns │ 2 ns │ 2.1 ns │ 100 │ 200".toList =
    ["1.2 ns".toList, "3 ns".toList, "2 ns".toList, "2.1 ns".toList, "100".toList, "200".toList] := by decide

end C20Codec
