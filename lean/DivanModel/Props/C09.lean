import DivanModel.Model.Tally
/-! # C09 — AllocProfiler is a transparent wrapper around the wrapped allocator

The model (`Tally.profile`) is deliberately tiny: the wrapper is "tally, then forward". What the
theorems add over the correspondence lab is the quantifier: for *every* request, *every* answer of
the wrapped allocator (null included), *every* tally state and availability of the thread slot. The
weight of C09 is in the `alloc` lab (mock allocator that logs what reaches it). -/
namespace Tally

/-! ### C09 on the model -/

/-- the forwarded request is exactly the incoming one -/
theorem forward_identity (slot : Bool) (t : T) (r : Req) (inner : Req → Nat) :
    (profile slot t r inner).2.1 = r := rfl

/-- the returned value is exactly the wrapped allocator's answer to that request (null included) -/
theorem return_identity (slot : Bool) (t : T) (r : Req) (inner : Req → Nat) :
    (profile slot t r inner).2.2 = inner r := rfl

/-- for every request sequence: one forwarded request per incoming request, same order, same
    arguments, whether or not the thread slot is available at each point -/
theorem forward_seq_identity (rs : List (Bool × Req)) (inner : Req → Nat) (t : T) :
    (rs.map fun p => (profile p.1 t p.2 inner).2) = rs.map fun p => (p.2, inner p.2) := rfl


/-- tallying cannot fail or change the request: the forwarded request and the returned value do not
    depend on the tally state or on whether the thread's slot is available -/
theorem tally_is_transparent (s1 s2 : Bool) (t1 t2 : T) (r : Req) (inner : Req → Nat) :
    (profile s1 t1 r inner).2 = (profile s2 t2 r inner).2 := rfl

/-- without a slot the tally is left alone (no lazily created state) -/
theorem no_slot_no_tally (t : T) (r : Req) (inner : Req → Nat) : (profile false t r inner).1 = t := rfl

/-- non-vacuity: a null answer is passed through -/
example : (profile true {} (.alloc 16 8) (fun _ => 0)).2 = (.alloc 16 8, 0) := rfl

end Tally
