import DivanModel.Driver.Reg
import DivanModel.Props.C13
import DivanModel.Props.C15
/-! # The executable specifications used by the labs are the models' functions

The registry / macro lab drivers judge the implementation's observation with small specification
functions written from the property texts (`Driver.Reg.specSelected`, `Driver.Reg.resolve`). These
theorems show that two of them compute exactly what the front-end model computes - the functions the
theorems of C13 and C15 are about - so a verdict of the spec is a verdict of the proved model. -/
namespace SpecLinks
open Prog Driver.Reg

/-- C13: the lab's selection rule is `FilterSet::is_match` of the model, for the filters in the order
    the command line adds them (positional filters, then `--skip`s) -/
theorem specSelected_is_model (pos neg : List FilterSpec) (p : String) :
    specSelected pos neg p = isSelected (filterSet (pos.map (·, true) ++ neg.map (·, false))) p := by
  rw [Bool.eq_iff_iff, isSelected_iff]
  simp only [specSelected, Bool.and_eq_true, Bool.not_eq_true', Bool.or_eq_true, List.any_eq_false,
    List.any_eq_true, List.isEmpty_iff, List.mem_append, List.mem_map, Prod.mk.injEq]
  constructor
  · rintro ⟨hn, hp⟩
    refine ⟨?_, ?_⟩
    · intro f hf
      rcases hf with ⟨g, _, _, hb⟩ | ⟨g, hg, rfl, _⟩
      · cases hb
      · simpa using hn g hg
    · rcases hp with hp | ⟨f, hf, hm⟩
      · left; intro f hf
        rcases hf with ⟨g, hg, _, _⟩ | ⟨g, _, _, hb⟩
        · rw [hp] at hg; cases hg
        · cases hb
      · right; exact ⟨f, Or.inl ⟨f, hf, rfl, trivial⟩, hm⟩
  · rintro ⟨hn, hp⟩
    refine ⟨?_, ?_⟩
    · intro f hf
      have := hn f (Or.inr ⟨f, hf, rfl, trivial⟩)
      simpa using this
    · rcases hp with hp | ⟨f, hf, hm⟩
      · left
        cases hpos : pos with
        | nil => rfl
        | cons a as => exact absurd (Or.inl ⟨a, by simp [hpos], rfl, trivial⟩) (hp a)
      · right
        rcases hf with ⟨g, hg, rfl, _⟩ | ⟨g, _, _, hb⟩
        · exact ⟨g, hg, hm⟩
        · cases hb

theorem firstSome_eq_findSome {α} (f : Field α) (chain : List (Option Opts)) :
    firstSome f chain = chain.findSome? fun o => o.bind f.get := by
  induction chain with
  | nil => rfl
  | cons o rest ih =>
    simp only [firstSome, List.findSome?_cons, ih]
    cases o.bind f.get <;> rfl

/-- C15: the lab's per-field resolution ("run time first, then the benchmark, then the enclosing
    groups innermost first") is the model's `effOpts` over the option descent of `run_tree` -/
theorem resolve_is_model {α} (f : Field α) (cfg : Cfg) (chain : List (Option Opts)) :
    resolve f.get cfg.runtime chain = f.get (effOpts cfg (descendAll chain.reverse)) := by
  rw [resolve_first_some, List.reverse_reverse, firstSome_eq_findSome]
  rfl

/-- C15/C14: the lab's ignore rule is the model's: a case runs iff it is not "to be ignored" under
    the flag (0 none, 1 `--include-ignored`, 2 `--ignored`) -/
theorem specShouldRun_is_model (flag : Nat) (hf : flag ≤ 2) (ign : Bool) :
    specShouldRun flag ign = !(shouldIgnore flag ign) := by
  unfold specShouldRun shouldIgnore
  match flag, hf with
  | 0, _ => cases ign <;> rfl
  | 1, _ => cases ign <;> rfl
  | 2, _ => cases ign <;> rfl

/-! ### thread counts: `eraseDups` of the spec = the adjacent dedup of the code, on a sorted list -/

theorem filter_ne_of_lt (x : Nat) : ∀ (l : List Nat), (∀ z ∈ l, x < z) → l.filter (fun b => !b == x) = l
  | [], _ => rfl
  | z :: zs, h => by
    have hz : x < z := h z (by simp)
    have : (z == x) = false := by simp; omega
    simp only [List.filter_cons, this, Bool.not_false, if_true]
    rw [filter_ne_of_lt x zs (fun w hw => h w (by simp [hw]))]

theorem dedupAdj_eq_eraseDups : ∀ (n : Nat) (l : List Nat), l.length ≤ n → l.Pairwise (· ≤ ·) → dedupAdj l = l.eraseDups
  | _, [], _, _ => by simp [dedupAdj]
  | _, [x], _, _ => by simp [dedupAdj, List.eraseDups_cons]
  | 0, _ :: _ :: _, h, _ => by simp at h
  | n + 1, x :: y :: r, hlen, hs => by
    have hs' : (y :: r).Pairwise (· ≤ ·) := (List.pairwise_cons.1 hs).2
    have hxy : x ≤ y := (List.pairwise_cons.1 hs).1 y (by simp)
    have hyr : ∀ z ∈ r, y ≤ z := (List.pairwise_cons.1 hs').1
    have ih := dedupAdj_eq_eraseDups n (y :: r) (by simp at hlen ⊢; omega) hs'
    rw [dedupAdj]
    by_cases he : x = y
    · subst he
      simp only [if_true]
      rw [ih, List.eraseDups_cons, List.eraseDups_cons]
      simp
    · simp only [he, if_false]
      rw [ih, List.eraseDups_cons (a := x)]
      have hall : ∀ z ∈ y :: r, x < z := by
        intro z hz
        simp at hz
        rcases hz with rfl | hz
        · omega
        · have := hyr z hz; omega
      rw [filter_ne_of_lt x (y :: r) hall]

/-- C15: the lab's thread-count rule ("0 means the available parallelism, duplicates collapse, sorted,
    one thread if empty") is the model's `threadCounts` -/
theorem specThreads_is_model (th : Option (List Nat)) (par : Nat) : specThreads th par = threadCounts th par := by
  unfold specThreads threadCounts
  have hs : (((th.getD []).map fun n => if n = 0 then par else n).mergeSort (· ≤ ·)).Pairwise (· ≤ ·) := by
    have := List.pairwise_mergeSort (le := fun a b : Nat => decide (a ≤ b))
      (fun a b c h1 h2 => by simp at h1 h2 ⊢; omega) (fun a b => by simp; omega)
      ((th.getD []).map fun n => if n = 0 then par else n)
    simpa using this
  simp only
  rw [dedupAdj_eq_eraseDups _ _ (Nat.le_refl _) hs]

end SpecLinks
