import DivanModel.Model.Prog
/-! # C12 (tree level, second part) — one node per module path

"Found at its module path": in the tree built by `EntryTree::from_benches` + `insert_group`, at every
level no two parent nodes carry the same raw name, for every set of entries and every registration
order. Hence all benchmarks of one module hang under one and the same node, and a `bench_group` is
attached to *the* node of its module (there is no second copy that could miss its name and options).
A function and a module of the same name are a leaf and a parent: they do not interfere. -/
namespace Prog
open List

def parentNames : List Tree → List String
  | [] => []
  | .parent raw _ _ :: ts => raw :: parentNames ts
  | .leaf .. :: ts => parentNames ts

mutual
/-- no two parent siblings share a raw name, at every level -/
def UniqL : List Tree → Prop
  | [] => True
  | t :: ts => UniqT t ∧ UniqL ts ∧ (∀ raw g ch, t = .parent raw g ch → raw ∉ parentNames ts)
def UniqT : Tree → Prop
  | .parent _ _ ch => UniqL ch
  | .leaf .. => True
end

theorem fromPath_uniq (e : Bench) : ∀ path, UniqT (fromPath e path)
  | [] => by simp [fromPath, UniqT]
  | m :: rest => by
    rw [fromPath, UniqT, UniqL]
    exact ⟨fromPath_uniq e rest, by simp [UniqL], by intro raw g ch _; simp [parentNames]⟩

theorem parentNames_insertInto (e : Bench) (m : String) (rest : List String) :
    ∀ ts, parentNames (insertInto ts e m rest) = if m ∈ parentNames ts then parentNames ts else parentNames ts ++ [m]
  | [] => by simp [insertInto, fromPath, parentNames]
  | (.parent raw g ch) :: ts => by
    rw [insertInto]
    by_cases h : raw = m
    · simp [h, parentNames]
    · have ih := parentNames_insertInto e m rest ts
      simp only [h, if_false, parentNames, ih, mem_cons]
      have hm : ¬ m = raw := fun x => h x.symm
      by_cases hin : m ∈ parentNames ts <;> simp [hin, hm]
  | (.leaf e' a) :: ts => by
    rw [insertInto]
    · have ih := parentNames_insertInto e m rest ts
      rw [parentNames, ih, parentNames]
    · intro _ _ _ h; cases h

mutual
theorem insertEntry_uniq (e : Bench) : ∀ (path : List String) (tree : List Tree), UniqL tree → UniqL (insertEntry tree e path)
  | [], tree, h => by
    rw [insertEntry]
    -- appending a leaf
    induction tree with
    | nil => simp [UniqL, UniqT]
    | cons t ts ih =>
      rw [UniqL] at h
      obtain ⟨h1, h2, h3⟩ := h
      show UniqL (t :: (ts ++ _))
      rw [UniqL]
      refine ⟨h1, ih h2, ?_⟩
      intro raw g ch ht
      have := h3 raw g ch ht
      have pn : ∀ l : List Tree, parentNames (l ++ [Tree.leaf e (e.args.map fun ns => List.range ns.length)]) = parentNames l := by
        intro l; induction l with
        | nil => simp [parentNames]
        | cons x xs ihx => cases x <;> simp [parentNames, ihx]
      rw [pn]; exact this
  | m :: rest, tree, h => by
    rw [insertEntry]; exact insertInto_uniq e m rest tree h
theorem insertInto_uniq (e : Bench) (m : String) (rest : List String) : ∀ (tree : List Tree), UniqL tree → UniqL (insertInto tree e m rest)
  | [], _ => by
    rw [insertInto, UniqL]
    exact ⟨fromPath_uniq e (m :: rest), by simp [UniqL], by intro raw g ch _; simp [parentNames]⟩
  | (.parent raw g ch) :: ts, h => by
    rw [UniqL] at h
    obtain ⟨h1, h2, h3⟩ := h
    rw [insertInto]
    by_cases hr : raw = m
    · simp only [hr, if_true]
      rw [UniqL]
      refine ⟨?_, h2, ?_⟩
      · rw [UniqT] at h1 ⊢
        exact insertEntry_uniq e rest ch h1
      · intro raw' g' ch' ht
        injection ht with e1 _ _
        have := h3 raw g ch rfl
        rw [← e1, ← hr]; exact this
    · simp only [hr, if_false]
      rw [UniqL]
      refine ⟨h1, insertInto_uniq e m rest ts h2, ?_⟩
      intro raw' g' ch' ht
      injection ht with e1 _ _
      rw [parentNames_insertInto]
      have hnot := h3 raw g ch rfl
      subst e1
      by_cases hin : m ∈ parentNames ts
      · simp [hin]; exact hnot
      · simp only [hin, if_false, mem_append, mem_singleton]
        intro hc
        rcases hc with hc | hc
        · exact hnot hc
        · exact hr hc
  | (.leaf e' a) :: ts, h => by
    rw [UniqL] at h
    obtain ⟨h1, h2, _⟩ := h
    rw [insertInto]
    · rw [UniqL]
      exact ⟨h1, insertInto_uniq e m rest ts h2, by intro raw g ch ht; cases ht⟩
    · intro _ _ _ h; cases h
end

theorem fromBenches_uniq (bs : List Bench) : UniqL (fromBenches bs) := by
  unfold fromBenches
  suffices h : ∀ (t : List Tree), UniqL t → UniqL (bs.foldl (fun t b => insertEntry t b b.path) t) from h [] (by simp [UniqL])
  induction bs with
  | nil => intro t ht; exact ht
  | cons b bs ih => intro t ht; exact ih _ (insertEntry_uniq b b.path t ht)

/-! ### attaching groups changes no name -/

theorem parentNames_setSlot (g : Group) : ∀ ts, parentNames (setSlot ts g) = parentNames ts
  | [] => by simp [setSlot]
  | (.parent raw gr ch) :: ts => by
    rw [setSlot]
    by_cases h : raw = g.gmeta.raw
    · simp [h, parentNames]
    · simp only [h, if_false, parentNames, parentNames_setSlot g ts]
  | (.leaf e a) :: ts => by
    rw [setSlot]
    · rw [parentNames, parentNames, parentNames_setSlot g ts]
    · intro _ _ _ h; cases h

theorem parentNames_descend (g : Group) (m : String) (rest : List String) :
    ∀ ts, parentNames (descend ts g m rest) = parentNames ts
  | [] => by simp [descend]
  | (.parent raw gr ch) :: ts => by
    rw [descend]
    by_cases h : raw = m
    · simp [h, parentNames]
    · simp only [h, if_false, parentNames, parentNames_descend g m rest ts]
  | (.leaf e a) :: ts => by
    rw [descend]
    · rw [parentNames, parentNames, parentNames_descend g m rest ts]
    · intro _ _ _ h; cases h

theorem setSlot_uniq (g : Group) : ∀ ts, UniqL ts → UniqL (setSlot ts g)
  | [], _ => by simp [setSlot, UniqL]
  | (.parent raw gr ch) :: ts, h => by
    rw [UniqL] at h
    obtain ⟨h1, h2, h3⟩ := h
    rw [setSlot]
    by_cases hr : raw = g.gmeta.raw
    · simp only [hr, if_true]
      rw [UniqL]
      refine ⟨by rw [UniqT] at h1 ⊢; exact h1, h2, ?_⟩
      intro raw' g' ch' ht
      injection ht with e1 _ _
      rw [← e1, ← hr]; exact h3 raw gr ch rfl
    · simp only [hr, if_false]
      rw [UniqL]
      refine ⟨h1, setSlot_uniq g ts h2, ?_⟩
      intro raw' g' ch' ht
      injection ht with e1 _ _
      rw [parentNames_setSlot, ← e1]; exact h3 raw gr ch rfl
  | (.leaf e a) :: ts, h => by
    rw [UniqL] at h
    obtain ⟨h1, h2, _⟩ := h
    rw [setSlot]
    · rw [UniqL]
      exact ⟨h1, setSlot_uniq g ts h2, by intro raw g ch ht; cases ht⟩
    · intro _ _ _ h; cases h

mutual
theorem insertGroup_uniq (g : Group) : ∀ (path : List String) (tree : List Tree), UniqL tree → UniqL (insertGroup tree g path)
  | [], tree, h => by rw [insertGroup]; exact setSlot_uniq g tree h
  | m :: rest, tree, h => by rw [insertGroup]; exact descend_uniq g m rest tree h
theorem descend_uniq (g : Group) (m : String) (rest : List String) : ∀ (tree : List Tree), UniqL tree → UniqL (descend tree g m rest)
  | [], _ => by simp [descend, UniqL]
  | (.parent raw gr ch) :: ts, h => by
    rw [UniqL] at h
    obtain ⟨h1, h2, h3⟩ := h
    rw [descend]
    by_cases hr : raw = m
    · simp only [hr, if_true]
      rw [UniqL]
      refine ⟨?_, h2, ?_⟩
      · rw [UniqT] at h1 ⊢
        exact insertGroup_uniq g rest ch h1
      · intro raw' g' ch' ht
        injection ht with e1 _ _
        rw [← e1, ← hr]; exact h3 raw gr ch rfl
    · simp only [hr, if_false]
      rw [UniqL]
      refine ⟨h1, descend_uniq g m rest ts h2, ?_⟩
      intro raw' g' ch' ht
      injection ht with e1 _ _
      rw [parentNames_descend, ← e1]; exact h3 raw gr ch rfl
  | (.leaf e a) :: ts, h => by
    rw [UniqL] at h
    obtain ⟨h1, h2, _⟩ := h
    rw [descend]
    · rw [UniqL]
      exact ⟨h1, descend_uniq g m rest ts h2, by intro raw g ch ht; cases ht⟩
    · intro _ _ _ h; cases h
end

/-- **one node per module path**: whatever was registered, in whatever order, the built tree has at
    every level at most one parent node of each raw name -/
theorem buildTree_uniq (pr : Program) : UniqL (buildTree pr) := by
  unfold buildTree
  suffices h : ∀ (gs : List Group) (t : List Tree), UniqL t → UniqL (gs.foldl (fun t g => insertGroup t g g.gmeta.modPath) t) from
    h _ _ (fromBenches_uniq _)
  intro gs
  induction gs with
  | nil => intro t ht; exact ht
  | cons g gs ih => intro t ht; exact ih _ (insertGroup_uniq g g.gmeta.modPath t ht)

/-- what uniqueness buys: two parent siblings of the same raw name are the same node -/
theorem uniq_same_node : ∀ (ts : List Tree), UniqL ts → ∀ (i j : Nat) (raw : String) (g1 g2 : Option Group) (c1 c2 : List Tree),
    ts[i]? = some (.parent raw g1 c1) → ts[j]? = some (.parent raw g2 c2) → i = j := by
  intro ts
  induction ts with
  | nil => intro _ i j raw g1 g2 c1 c2 h1 _; simp at h1
  | cons t ts ih =>
    intro h i j raw g1 g2 c1 c2 h1 h2
    rw [UniqL] at h
    obtain ⟨_, hts, hnot⟩ := h
    have mem_names : ∀ (l : List Tree) (k : Nat) (g : Option Group) (c : List Tree), l[k]? = some (.parent raw g c) → raw ∈ parentNames l := by
      intro l
      induction l with
      | nil => intro k g c hk; simp at hk
      | cons x xs ihx =>
        intro k g c hk
        cases k with
        | zero => simp at hk; subst hk; simp [parentNames]
        | succ k =>
          have := ihx k g c (by simpa using hk)
          cases x <;> simp [parentNames, this]
    cases i with
    | zero =>
      cases j with
      | zero => rfl
      | succ j =>
        simp at h1; subst h1
        exact absurd (mem_names ts j g2 c2 (by simpa using h2)) (hnot raw g1 c1 rfl)
    | succ i =>
      cases j with
      | zero =>
        simp at h2; subst h2
        exact absurd (mem_names ts i g1 c1 (by simpa using h1)) (hnot raw g2 c2 rfl)
      | succ j =>
        have := ih hts i j raw g1 g2 c1 c2 (by simpa using h1) (by simpa using h2)
        omega

/-! non-vacuity: the predicate does exclude a split module -/
example : ¬ UniqL [.parent "m" none [], .leaf default none, .parent "m" none []] := by
  simp [UniqL, parentNames]
example : UniqL [.leaf default none, .parent "m" none [.parent "x" none []], .parent "n" none []] := by
  simp [UniqL, UniqT, parentNames]

end Prog
