import DivanModel.Model.Prog
import DivanModel.Model.ArgIndex
/-! # C17 — each row is measured with the argument, constant and type it names

Three layers:
* `ArgIndex`: the pointer arithmetic `slice_ptr_index` recovers the index of a name pointer, and the
  names/args slices are parallel, so a surviving pointer yields the argument that renders to its label;
* `Prog`: in the run walk the label printed for an argument case and the value handed to the function
  are the same `names[i]`, for whatever index list survives `retain` and `sort_by_attr`, and those two
  only filter / permute the index list;
* the registry lab checks on the real code that the label printed on the line of each executed case is
  the value the function received. -/
namespace Prog
open List

/-- (slot, argument) of every `Bencher` invocation, oldest first -/
def W.calls (w : W) : List (Nat × Option String) := w.execs.reverse.map fun e => (e.slot, e.arg)

theorem runThreads_calls (cfg : Cfg) (o : Opts) (slot : Nat) (arg : Option String) (br il : Bool) :
    ∀ (ts : List Nat) (p : Paint.P) (ex : List Exec),
      ((runThreads cfg o slot arg br il ts p ex).2.reverse.map fun e => (e.slot, e.arg)) =
        (ex.reverse.map fun e => (e.slot, e.arg)) ++ replicate ts.length (slot, arg)
  | [], p, ex => by simp [runThreads]
  | t :: ts, p, ex => by
    rw [runThreads]
    simp only
    rw [runThreads_calls cfg o slot arg br il ts]
    simp [replicate_succ]

/-- one `run_bench`: one invocation per thread count, all with the given slot and argument -/
theorem runBench_calls (cfg : Cfg) (o : Opts) (w : W) (slot : Nat) (arg : Option String) (name : String)
    (isLast : Bool) (path : String) :
    (runBench cfg o w slot arg name isLast path).calls =
      w.calls ++ replicate (threadCounts o.th cfg.parallelism).length (slot, arg) := by
  unfold runBench W.calls
  simp only
  exact runThreads_calls cfg o slot arg _ isLast _ _ _

theorem runArgs_calls (cfg : Cfg) (o : Opts) (slot : Nat) (names : List String) (full : String) :
    ∀ (is : List Nat) (w : W), (runArgs cfg o slot names full is w).calls =
      w.calls ++ is.flatMap fun i => replicate (threadCounts o.th cfg.parallelism).length (slot, some (names.getD i ""))
  | [], w => by simp [runArgs]
  | i :: rest, w => by
    rw [runArgs, runArgs_calls cfg o slot names full rest, runBench_calls]
    simp

/-- **label = value**: for a benchmark with `args`, whatever index list `is` survived filtering and
    sorting, the function is invoked, in the order the labels are printed, with exactly
    `names[i]` for `i ∈ is` - once per thread count - and with nothing else. In `runArgs` the same
    `names[i]` is the label passed to the painter. -/
theorem label_is_value (cfg : Cfg) (w : W) (e : Bench) (is : List Nat) (names : List String) (eo : Option Opts)
    (isLast : Bool) (full : String) (hargs : e.args = some names) (hl : cfg.action ≠ .list)
    (hi : shouldIgnore cfg.runIgnored ((effOpts cfg eo).ig.getD false) = false) :
    (runBenchEntry cfg w e (some is) eo isLast full).calls =
      w.calls ++ is.flatMap fun i =>
        replicate (threadCounts (effOpts cfg eo).th cfg.parallelism).length (e.slot, some (names.getD i "")) := by
  unfold runBenchEntry
  simp only [hi, hl, hargs, Bool.false_eq_true, if_false]
  have := runArgs_calls cfg (effOpts cfg eo) e.slot names full is
    { p := w.p.startParent e.dispName isLast, execs := w.execs, labels := w.labels, cases := w.cases }
  simpa [W.calls] using this

/-- `retain` only filters the index list of a benchmark with arguments -/
theorem retain_args_sublist (f : String → Bool) (pp : String) (e : Bench) (is : List Nat) :
    ∀ t', retainTree f pp (.leaf e (some is)) = some t' → ∃ is', t' = .leaf e (some is') ∧ is'.Sublist is := by
  intro t' h
  rw [retainTree] at h
  split at h
  · cases h
  · cases h; exact ⟨_, rfl, filter_sublist⟩

/-- `sort_by_attr` only permutes the index list of a benchmark with arguments -/
theorem sort_args_perm (attr : Nat) (rev : Bool) (fb : String → Option Nat) (e : Bench) (is : List Nat) :
    ∃ is', sortTree attr rev fb (.leaf e (some is)) = .leaf e (some is') ∧ is'.Perm is := by
  rw [sortTree]
  exact ⟨_, rfl, mergeSort_perm _ _⟩

/-- the tree starts from the identity index list: one pointer per name, in order -/
theorem initial_args (e : Bench) (names : List String) (h : e.args = some names) :
    fromPath e [] = .leaf e (some (range names.length)) := by
  simp [fromPath, h]

/-- pointer arithmetic: `slice_ptr_index(slice, &slice[i]) = i` for any element size > 0 -/
theorem index_roundtrip (base size i : Nat) (hs : 0 < size) :
    ArgIndex.slicePtrIndex base size (ArgIndex.addrOf base size i) = i := ArgIndex.index_roundtrip base size i hs

/-- with parallel `names`/`args` slices (built once, element by element), the case shown under a label
    runs with the argument that renders to that label, for any surviving subset / permutation -/
theorem label_names_value {A} (t : ArgIndex.ArgTable A) (base size : Nat) (hs : 0 < size) (kept : List Nat)
    (hk : ∀ i ∈ kept, i < t.args.length) :
    ∀ i ∈ kept, ∃ a, ArgIndex.caseOf t base size (ArgIndex.addrOf base size i) = some (t.render a, a) ∧
      t.args[i]? = some a := ArgIndex.label_names_value t base size hs kept hk

end Prog
