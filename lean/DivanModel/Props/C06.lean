import DivanModel.Model.PoolFull
/-! # C06 — pool broadcast runs the task once per index and publishes its effects

`Model/PoolFull.lean`: the protocol of `util/thread/pool.rs` as a transition system, parametric in
every count: caller pc × worker pcs × `ref_count` × park token (initial value arbitrary: a stale token
may be pending) × spawned threads × task-block validity × the history of broadcasts still to run ×
pool drop. Ghost state: per-index run counters and release/acquire publication sets. The pool lab runs
the real `ThreadPool` under a linearising instrumented `std` and replays every event log through
`stepFn`, the executable acceptor proved sound below. -/
namespace PoolFull

/-- what the trace acceptor accepts is a step of the relation the theorems are about -/
theorem acceptor_sound (s s' : Sys) (a : Act) (h : stepFn s a = some s') : Step s s' := stepFn_sound s s' a h

/-- every accepted trace from the initial state stays inside both invariants -/
theorem accepted_traces_satisfy_invariants (todo : List Nat) (tok r a : Bool) (as : List Act) (s' : Sys)
    (h : replay (init todo tok r a) as = some s') : Inv s' ∧ GInv s' :=
  replay_inv _ as s' (inv_init todo tok r a) (ginv_init todo tok r a) h

/-- the invariant holds in every reachable state, for every history, every interleaving -/
theorem invariant (todo : List Nat) (tok r a : Bool) (s : Sys) (h : Reach todo tok r a s) : Inv s :=
  reach_inv todo tok r a s h

theorem ghost_invariant (todo : List Nat) (tok r a : Bool) (s : Sys) (h : Reach todo tok r a s) : GInv s := by
  induction h with
  | init => exact ginv_init todo tok r a
  | step s s' hr hs ih => exact ginv_step s s' (reach_inv todo tok r a s hr) ih hs

/-- **the broadcast returns only after all calls returned or panicked**: when the caller reads the
    count as zero, every worker that was handed the task has finished its call and decremented, and no
    worker is still inside the task block -/
theorem returns_after_all (todo : List Nat) (tok r a : Bool) (s : Sys) (h : Reach todo tok r a s)
    (hc : s.c = .check) (hz : s.rc = 0) : ∀ j, j < s.n → notDec (s.w j) = false ∧ busy (s.w j) = false :=
  returns_after_all_calls s (reach_inv todo tok r a s h) hc hz

/-- **exactly once per index**: at that moment every worker index of the broadcast has executed the
    task exactly once (index 0 is the caller's own `crun` step) -/
theorem exactly_once (todo : List Nat) (tok r a : Bool) (s : Sys) (h : Reach todo tok r a s)
    (hc : s.c = .check) (hz : s.rc = 0) : ∀ j, j < s.n → s.runs j = 1 :=
  once_per_index s (reach_inv todo tok r a s h) (ghost_invariant todo tok r a s h) hc hz

/-- **the return happens-after every call**: if the decrement is a Release RMW and the caller's load
    an Acquire load (the two parameters the lab compares with the `Ordering` values the code passes),
    the end of every call is in the caller's view after the load that reads zero -/
theorem effects_visible (todo : List Nat) (tok : Bool) (s s' : Sys) (h : Reach todo tok true true s)
    (hr : s.relOk = true) (ha : s.acqOk = true) (hc : s.c = .check) (hz : s.rc = 0)
    (hs' : s' = { s with c := .idle, valid := false, done := s.done + 1,
                         seen := if s.acqOk then (fun j => s.seen j || s.pub j) else s.seen }) :
    ∀ j, j < s.n → s'.seen j = true :=
  visible_after_return s s' (reach_inv todo tok true true s h) (ghost_invariant todo tok true true s h) hr ha hc hz hs'

/-- **no worker touches the shared state once the caller may have resumed**: the block is valid exactly
    while a broadcast is in progress, and between broadcasts no worker is in a state that reads it -/
theorem block_valid_iff_active (todo : List Nat) (tok r a : Bool) (s : Sys) (h : Reach todo tok r a s) :
    (s.valid = true ↔ s.c ≠ .idle) ∧ (s.c = .idle → ∀ j, busy (s.w j) = false) :=
  ⟨(reach_inv todo tok r a s h).validB, (reach_inv todo tok r a s h).quiet⟩

/-- the only steps that read the task block (`wclone`, `wdec`, `wdecLast`) are guarded by its validity -/
theorem block_reads_need_valid (s : Sys) (i : Nat) (s' : Sys)
    (h : stepFn s (.worker i) = some s') (hw : s.w i = .clone ∨ s.w i = .dec) : s.valid = true := by
  rcases hw with hw | hw <;> simp only [stepFn, hw] at h <;> (split at h <;> simp_all)

/-- **threads are created only when a broadcast needs more than exist, and are reused**: `begin`
    raises the number of spawned threads to `max m n` and never lowers it -/
theorem spawn_only_missing (s : Sys) (s' : Sys) (h : stepFn s .begin = some s') :
    ∃ n' rest, s.todo = n' :: rest ∧ s'.m = max s.m n' ∧ s'.n = n' := by
  simp only [stepFn] at h
  split at h
  · rename_i n' rest _ ht _
    simp at h; subst h
    exact ⟨n', rest, ht, rfl, rfl⟩
  · simp at h

end PoolFull
