import DivanModel.Props.C12
/-! # C16 (tree level) — sorting only permutes -/
namespace Prog
open List

theorem leaves_perm (pre : List String) {a b : List Tree} (h : a.Perm b) : (leaves pre a).Perm (leaves pre b) := by
  induction h with
  | nil => exact Perm.refl _
  | cons x _ ih => rw [leaves, leaves]; exact Perm.append_left _ ih
  | swap x y l =>
    rw [leaves, leaves, leaves, leaves]
    simp only [← append_assoc]
    exact Perm.append_right _ perm_append_comm
  | trans _ _ ih1 ih2 => exact ih1.trans ih2

mutual
theorem sortTree_leaves (attr : Nat) (rev : Bool) (fb : String → Option Nat) (pre : List String) :
    (t : Tree) → (nodeLeaves pre (sortTree attr rev fb t)).Perm (nodeLeaves pre t)
  | .parent raw g ch => by
    rw [sortTree, nodeLeaves, nodeLeaves]
    exact sortList_leaves attr rev fb (pre ++ [raw]) ch
  | .leaf e none => by rw [sortTree]
  | .leaf e (some args) => by rw [sortTree, nodeLeaves, nodeLeaves]
theorem sortEach_leaves (attr : Nat) (rev : Bool) (fb : String → Option Nat) (pre : List String) :
    (ts : List Tree) → (leaves pre (sortEach attr rev fb ts)).Perm (leaves pre ts)
  | [] => by rw [sortEach]
  | t :: ts => by
    rw [sortEach, leaves, leaves]
    exact (sortTree_leaves attr rev fb pre t).append (sortEach_leaves attr rev fb pre ts)
theorem sortList_leaves (attr : Nat) (rev : Bool) (fb : String → Option Nat) (pre : List String) :
    (ts : List Tree) → (leaves pre (sortList attr rev fb ts)).Perm (leaves pre ts)
  | ts => by
    rw [sortList]
    exact (leaves_perm pre (mergeSort_perm _ _)).trans (sortEach_leaves attr rev fb pre ts)
end

end Prog
