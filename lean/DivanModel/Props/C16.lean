import DivanModel.Model.ArgName
import DivanModel.Model.SortLaws
/-! # C16 — output order is the documented total order for each --sort attribute

Comparator level (this file): `natural_cmp` on all byte strings, `cmp_int` on digit runs, the
argument-name comparator, uniqueness of the sorted permutation and `--sortr` = reverse.
The sibling comparator of the entry tree is in `Props/C16Tree.lean`. -/
namespace C16
open NatCmp ArgCmp ArgName

/-- digit runs compare by numeric value (leading zeros ignored) -/
theorem cmpInt_eq_numeric (a b : List Nat) (ha : AllDigits a) (hb : AllDigits b) :
    cmpInt a b = compare (val a) (val b) := NatCmp.cmpInt_eq_numeric a b ha hb

/-- `natural_cmp` is antisymmetric on all byte strings: cmp(b,a) is the reverse of cmp(a,b) -/
theorem naturalCmp_swap (a b : List Nat) : naturalCmp b a = (naturalCmp a b).swap := NatCmp.naturalCmp_swap a b

/-- `natural_cmp` is transitive on all byte strings -/
theorem naturalCmp_trans (a b c : List Nat) (h1 : naturalCmp a b ≠ .gt) (h2 : naturalCmp b c ≠ .gt) :
    naturalCmp a c ≠ .gt := NatCmp.naturalCmp_trans a b c h1 h2

/-- `natural_cmp` is reflexive -/
theorem naturalCmp_refl (a : List Nat) : naturalCmp a a = .eq := NatCmp.naturalCmp_isCmp.refl a trivial

/-- a strict comparator admits exactly one sorted permutation: Rust's choice of sorting algorithm
    (and its stability) cannot influence the shown order -/
theorem sorted_unique {α : Type} (cmp : α → α → Ordering) (swap : ∀ a b, cmp b a = (cmp a b).swap)
    (l L L' : List α) (strict : ∀ a b, a ∈ l → b ∈ l → cmp a b = .eq → a = b)
    (hL : L.Perm l) (hL' : L'.Perm l) (sL : L.Pairwise (SortLaws.le cmp)) (sL' : L'.Pairwise (SortLaws.le cmp)) :
    L = L' := SortLaws.sorted_unique cmp swap l L L' strict hL hL' sL sL'

/-- `--sortr` shows exactly the reverse of `--sort` -/
theorem sortr_is_reverse {α : Type} (cmp : α → α → Ordering) (swap : ∀ a b, cmp b a = (cmp a b).swap)
    (l L R : List α) (strict : ∀ a b, a ∈ l → b ∈ l → cmp a b = .eq → a = b)
    (hL : L.Perm l) (hR : R.Perm l) (sL : L.Pairwise (SortLaws.le cmp)) (sR : R.Pairwise (SortLaws.rle cmp)) :
    R = L.reverse := SortLaws.sortr_is_reverse cmp swap l L R strict hL hR sL sR

/-- sorting argument names only permutes: no argument is lost, duplicated or invented -/
theorem sort_permutes (attr : Nat) (rev : Bool) (names : List Name) :
    (sortArgs attr rev names).Perm (List.range names.length) := List.mergeSort_perm _ _

/-- F8 (known finding): on mixed lists the name comparator has a cycle `2x > 1e3 > 5 > 2x`,
    so it is not a total order there -/
theorem f8_cycle :
    let cf : Nat → Nat → Option Ordering := fun x y => some (compare x y)
    let p2x : Parsed Nat := ⟨none, none, none⟩
    let p1e3 : Parsed Nat := ⟨none, none, some 1000⟩
    let p5 : Parsed Nat := ⟨some 5, some 5, some 5⟩
    cmpName cf p2x p1e3 .gt = .gt ∧ cmpName cf p1e3 p5 .lt = .gt ∧ cmpName cf p5 p2x .gt = .gt := ArgCmp.f8_cycle

/-! ### parsing: what Rust's integer parsers return for canonical decimal renderings -/

/-- F1 (pinned code): `10` and `9` compare `Equal` on the name attribute although 10 > 9; the
    repaired operands give `Greater` -/
theorem f1_witness :
    let p10 : Parsed Nat := ⟨some 10, some 10, some 10⟩
    let p9 : Parsed Nat := ⟨some 9, some 9, some 9⟩
    cmpNameCurrent (fun x y => some (compare x y)) p10 p9 .gt = .eq ∧
    cmpName (fun x y => some (compare x y)) p10 p9 .gt = .gt := ArgCmp.f1_witness

/-- **numeric argument names are ordered by value** (repaired code): whenever Rust's parsers return,
    for two names, what they return for canonical decimal renderings of the integers `va`, `vb`
    (`IntLike`), the name arm of the comparator is `compare va vb` - negatives included -/
theorem args_numeric_order (a b : Name) (va vb : Int)
    (ha : IntLike a.parsed va) (hb : IntLike b.parsed vb) : cmpNameArm a b = compare va vb :=
  ints_by_value f64cmp a.parsed b.parsed va vb _ ha hb

/-- under `--sort name` two integer-named arguments compare by value, ties by declaration order -/
theorem cmpArgs_name_ints (names : List Name) (i j : Nat) (a b : Name) (va vb : Int)
    (hi : names[i]? = some a) (hj : names[j]? = some b)
    (ha : IntLike a.parsed va) (hb : IntLike b.parsed vb) :
    cmpArgs 1 names i j = thenCmp (compare va vb) (compare i j) := by
  simp only [cmpArgs, tieBreakers, List.foldl, hi, hj, args_numeric_order a b va vb ha hb, thenCmp]
  cases compare va vb <;> cases compare i j <;> rfl

/-- under `--sort location` arguments keep their declaration order -/
theorem cmpArgs_location (names : List Name) (i j : Nat) (h : i ≠ j) :
    cmpArgs 2 names i j = compare i j := by
  simp only [cmpArgs, tieBreakers, List.foldl, thenCmp]
  have : compare i j ≠ .eq := by
    intro e; exact h (Nat.compare_eq_eq.mp e)
  cases hc : compare i j <;> simp_all

/-- the parsers do return `IntLike` results on concrete renderings (non-vacuity of the hypothesis) -/
example : IntLike (Name.parsed ⟨[45, 51], none⟩) (-3) ∧ IntLike (Name.parsed ⟨[49, 48, 48], none⟩) 100 := by
  refine ⟨⟨fun h => absurd h (by decide), fun _ => by decide⟩, ⟨fun _ => by decide, fun h => absurd h (by decide)⟩⟩

/-! non-vacuity -/
example : naturalCmp [65, 60, 52, 62] [65, 60, 49, 54, 62] = .lt := by decide   -- "A<4>" < "A<16>"
example : parseI128 [45, 51] = some (-3) ∧ parseU128 [45, 51] = none := by decide

end C16
