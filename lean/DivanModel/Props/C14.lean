import DivanModel.Model.Prog
/-! # C14 — listing runs nothing and agrees exactly with what a run would execute -/
namespace Prog

theorem runBenchEntry_list (cfg : Cfg) (h : cfg.action = .list) (w : W) (e : Bench) (args) (eo) (isLast) (full) :
    (runBenchEntry cfg w e args eo isLast full).execs = w.execs := by
  unfold runBenchEntry
  simp only [h]
  split <;> rfl

mutual
theorem runTree_list (cfg : Cfg) (h : cfg.action = .list) (w : W) (po : Option Opts) (pp : String) :
    (ts : List Tree) → (runTree cfg w po pp ts).execs = w.execs
  | [] => by simp [runTree]
  | t :: ts => by
    rw [runTree, runTree_list cfg h _ po pp ts, runNode_list cfg h w po pp t ts.isEmpty]
theorem runNode_list (cfg : Cfg) (h : cfg.action = .list) (w : W) (po : Option Opts) (pp : String) :
    (t : Tree) → (isLast : Bool) → (runNode cfg w po pp t isLast).execs = w.execs
  | .leaf e args, isLast => by
    rw [runNode.eq_def]; exact runBenchEntry_list cfg h w e args _ isLast _
  | .parent raw g ch, isLast => by
    rw [runNode.eq_def]; simp only; rw [runTree_list cfg h _ _ _ ch]
end

/-- the `--list` walk (`Action::List`) invokes no benchmarked function, for every tree -/
theorem list_action_executes_nothing (cfg : Cfg) (h : cfg.action = .list) (p : Paint.P) (ts : List Tree) :
    (runTree cfg { p := p } none "" ts).execs = [] := runTree_list cfg h _ none "" ts

/-! ### the terse listing is exactly what a run executes -/

@[simp] theorem runBench_cases (cfg o w slot arg name isLast path) :
    (runBench cfg o w slot arg name isLast path).cases = path :: w.cases := by
  unfold runBench; simp only

theorem runArgs_cases (cfg : Cfg) (o : Opts) (slot : Nat) (names : List String) (full : String) :
    ∀ (is : List Nat) (w : W), (runArgs cfg o slot names full is w).cases
      = (is.map fun i => full ++ "::" ++ names.getD i "").reverse ++ w.cases
  | [], w => by simp [runArgs]
  | i :: rest, w => by rw [runArgs, runArgs_cases cfg o slot names full rest]; simp

/-- what the leaf step of the terse walk prints -/
def terseLeaf (cfg : Cfg) (e : Bench) (args : Option (List Nat)) (o : Option Opts) (full : String) : List String :=
  if shouldIgnore cfg.runIgnored ((effOpts cfg o).ig.getD false) then [] else
  match e.args with
  | none => [full ++ ": benchmark"]
  | some names => (args.getD []).map fun i => full ++ "::" ++ names.getD i "" ++ ": benchmark"

def line (s : String) : String := s ++ ": benchmark"

theorem runBenchEntry_cases (cfg : Cfg) (hl : cfg.action ≠ .list) (w : W) (e : Bench) (args) (eo : Option Opts) (isLast)
    (full : String) :
    (runBenchEntry cfg w e args eo isLast full).cases.reverse.map line =
      w.cases.reverse.map line ++ terseLeaf cfg e args eo full := by
  unfold runBenchEntry terseLeaf
  simp only
  by_cases hi : shouldIgnore cfg.runIgnored ((effOpts cfg eo).ig.getD false) = true
  · simp [hi]
  · simp only [hi, hl, if_false]
    cases hn : e.args with
    | none => simp [line]
    | some names =>
      simp only [runArgs_cases]
      simp [line, Function.comp_def]

mutual
theorem runTree_cases (cfg : Cfg) (hl : cfg.action ≠ .list) (po : Option Opts) (pp : String) :
    (ts : List Tree) → (w : W) → (runTree cfg w po pp ts).cases.reverse.map line =
      w.cases.reverse.map line ++ terseList cfg po pp ts
  | [], w => by simp [runTree, terseList]
  | t :: ts, w => by
    rw [runTree, terseList, runTree_cases cfg hl po pp ts, runNode_cases cfg hl po pp t ts.isEmpty w]
    simp
theorem runNode_cases (cfg : Cfg) (hl : cfg.action ≠ .list) (po : Option Opts) (pp : String) :
    (t : Tree) → (isLast : Bool) → (w : W) → (runNode cfg w po pp t isLast).cases.reverse.map line =
      w.cases.reverse.map line ++ terseNode cfg po pp t
  | .leaf e args, isLast, w => by
    rw [runNode.eq_def, terseNode.eq_def]
    simp only
    rw [runBenchEntry_cases cfg hl]
    rfl
  | .parent raw g ch, isLast, w => by
    rw [runNode.eq_def, terseNode.eq_def]
    simp only
    rw [runTree_cases cfg hl _ _ ch]
end


/-- **C14**: for every tree, filter result and ignore flag, the terse listing prints exactly one line
    `path: benchmark` for every case the run walk hands to a `Bencher` (same order, same multiplicity),
    and nothing else. `cases` is the ghost record of the full display path of each executed case. -/
theorem terse_eq_executed (cfg : Cfg) (hl : cfg.action ≠ .list) (p : Paint.P) (ts : List Tree) :
    terseList cfg none "" ts = (runTree cfg { p := p } none "" ts).cases.reverse.map line := by
  have := runTree_cases cfg hl none "" ts { p := p }
  simpa using this.symm

mutual
theorem terseList_congr (c1 c2 : Cfg) (h1 : c1.runIgnored = c2.runIgnored) (h2 : c1.runtime = c2.runtime)
    (po : Option Opts) (pp : String) : (ts : List Tree) → terseList c1 po pp ts = terseList c2 po pp ts
  | [] => by simp [terseList]
  | t :: ts => by rw [terseList, terseList, terseList_congr c1 c2 h1 h2 po pp ts, terseNode_congr c1 c2 h1 h2 po pp t]
theorem terseNode_congr (c1 c2 : Cfg) (h1 : c1.runIgnored = c2.runIgnored) (h2 : c1.runtime = c2.runtime)
    (po : Option Opts) (pp : String) : (t : Tree) → terseNode c1 po pp t = terseNode c2 po pp t
  | .leaf e args => by
    rw [terseNode.eq_def, terseNode.eq_def]
    have : ∀ o, effOpts c1 o = effOpts c2 o := by intro o; simp only [effOpts, h2]
    simp only [this, h1]
  | .parent raw g ch => by
    rw [terseNode.eq_def, terseNode.eq_def]; simp only; exact terseList_congr c1 c2 h1 h2 _ _ ch
end

/-- the listing under `--list --format terse` (whatever action the listing configuration carries)
    agrees with a *test run* made with the same ignore flag and run-time options -/
theorem terse_eq_test_run (cl cr : Cfg) (hr : cr.action = .test) (h1 : cl.runIgnored = cr.runIgnored)
    (h2 : cl.runtime = cr.runtime) (p : Paint.P) (ts : List Tree) :
    terseList cl none "" ts = (runTree cr { p := p } none "" ts).cases.reverse.map line := by
  rw [terseList_congr cl cr h1 h2]
  exact terse_eq_executed cr (by rw [hr]; decide) p ts

/-- every executed case makes at least one `Bencher` invocation (thread-count list is never empty) -/
theorem threadCounts_nonempty (th : Option (List Nat)) (par : Nat) : threadCounts th par ≠ [] := by
  unfold threadCounts
  simp only
  split
  · simp
  · rename_i h; intro e; rw [e] at h; simp at h

/-- `--exact p` as the only filter selects exactly the paths equal to `p` -/
theorem exact_selects_only (p q : String) :
    isSelected (filterSet [(⟨true, p⟩, true)]) q = (p == q) := by
  simp [isSelected, filterSet, Filter.build, Filter.SplitVec.insert, Filter.isMatch, Filter.position,
    FilterSpec.matches]
  by_cases h : p = q <;> simp [h]

end Prog
