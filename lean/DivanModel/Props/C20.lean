import DivanModel.Model.Paint
import DivanModel.Model.Painter
import DivanModel.Model.Tree
/-! # C20 — the printed tree is a faithful, well-formed picture of what ran

Three layers:
* `Paint` (exact model of `tree_painter.rs`, compared byte for byte with the real painter by the `paint`
  lab and through the registry lab): the prefix discipline as an invariant of the state machine;
* `Painter` (abstract lines): painting a tree by the `run_tree` walk emits exactly one line per node, in
  depth-first order, with a bar exactly under ancestors that have later siblings;
* `TreeRT`: the depth-annotated preorder of any forest parses back to that forest. -/
namespace Paint

/-- three columns of prefix per open non-top-level parent -/
def Inv (p : P) : Prop := p.pfx.length = p.depth - 1

theorem inv_startParent (p : P) (name : String) (isLast : Bool) (h : Inv p) : Inv (p.startParent name isLast) := by
  unfold Inv at *
  unfold P.startParent
  by_cases h0 : p.depth = 0
  · simp only [h0, if_true]; rw [h0] at h; simp at *; exact h
  · simp only [h0, if_false, List.length_append, List.length_cons, List.length_nil]; omega

theorem inv_finishParent (p : P) (h : Inv p) : Inv p.finishParent := by
  unfold Inv at *
  simp only [P.finishParent, List.length_dropLast]
  omega

/-- `finish_parent` undoes exactly what the matching `start_parent` did to prefix and depth: whatever
    was painted in between (anything that preserves prefix and depth), the painter is back where it was -/
theorem finishParent_restores (p : P) (name : String) (isLast : Bool) (h : Inv p) :
    ((p.startParent name isLast).finishParent).pfx = p.pfx ∧
    ((p.startParent name isLast).finishParent).depth = p.depth := by
  unfold Inv at h
  unfold P.startParent P.finishParent
  by_cases h0 : p.depth = 0
  · have : p.pfx = [] := by
      have : p.pfx.length = 0 := by omega
      exact List.eq_nil_of_length_eq_zero this
    simp [h0, this]
  · simp [h0]

/-- the prefix gets a vertical bar exactly when the parent just opened has later siblings -/
theorem startParent_glyph (p : P) (name : String) (isLast : Bool) (h : p.depth ≠ 0) :
    (p.startParent name isLast).pfx = p.pfx ++ [if isLast then Glyph.blank else Glyph.bar] := by
  simp [P.startParent, h]

/-- leaves never change prefix or depth -/
theorem leaf_ops_keep_prefix (p : P) (name : String) (isLast : Bool) (c : Cells) :
    (p.startLeaf name isLast).pfx = p.pfx ∧ (p.ignoreLeaf name isLast).pfx = p.pfx ∧
    p.finishEmptyLeaf.pfx = p.pfx ∧ (p.finishLeaf isLast c).pfx = p.pfx ∧
    (p.startLeaf name isLast).depth = p.depth ∧ (p.ignoreLeaf name isLast).depth = p.depth ∧
    p.finishEmptyLeaf.depth = p.depth ∧ (p.finishLeaf isLast c).depth = p.depth := by
  refine ⟨rfl, ?_, rfl, rfl, rfl, ?_, rfl, rfl⟩
  · unfold P.ignoreLeaf; simp only; split <;> rfl
  · unfold P.ignoreLeaf; simp only; split <;> rfl

/-- the name span and every column width only grow -/
theorem pad_span_grows (s : String) (m : Nat) : m ≤ (pad s m).2 := by
  unfold pad; simp only; split <;> omega

end Paint

namespace C20
open Painter

/-- **each node is printed exactly once, in depth-first order, with the glyphs of its true position**:
    painting a top-level tree by the `run_tree` walk emits exactly the lines `linesT` describes (prefix =
    a bar under every ancestor that has later siblings, blank otherwise; branch for non-last, corner
    for last children) and returns the painter to depth 0 with an empty prefix -/
theorem each_node_once (t : Tree) :
    paintT ⟨0, [], []⟩ true t = ⟨0, [], (linesT [] true true t).reverse⟩ := paint_top t

/-- the same for any subtree painted from any state that satisfies the prefix invariant -/
theorem subtree_lines (t : Tree) (s : PS) (isLast : Bool) (h : Inv s) :
    paintT s isLast t = { s with out := (linesT s.pre (decide (s.depth = 0)) isLast t).reverse ++ s.out } :=
  paintT_spec t s isLast h

/-- **the tree can be parsed back**: the (depth, name) preorder of any forest - which is what
    indentation + glyphs encode - determines the forest -/
theorem parse_render (ts : List TreeRT.Tree) :
    TreeRT.parseF (TreeRT.toPreF 0 ts).length 0 (TreeRT.toPreF 0 ts) = (ts, []) := TreeRT.parse_render ts

example : (paintT ⟨0, [], []⟩ true (.parent 0 [.leaf 1, .parent 2 [.leaf 3, .leaf 4], .leaf 5])).out.length = 6 := by decide

end C20
