import DivanModel.Model.PoolFull
import DivanModel.Model.Pool
/-! # C07 — the thread pool never deadlocks, loses a wake-up or leaks workers -/
namespace PoolFull

/-- **no deadlock**: every reachable state other than "all broadcasts done, pool dropped, every worker
    exited" has an enabled transition - including a caller blocked in `send` on a worker that is still
    finishing the previous broadcast, a caller that has not gone to sleep yet when the last worker
    finishes, and a stale wake-up token pending from an earlier broadcast -/
theorem no_deadlock (todo : List Nat) (tok r a : Bool) (s : Sys) (h : Reach todo tok r a s) (hnf : ¬ Final s) :
    ∃ s', Step s s' := deadlock_free s (reach_inv todo tok r a s h) hnf

/-- **no lost wake-up**: a parked caller whose count is already zero has a token or an unpark in flight -/
theorem no_lost_wakeup (todo : List Nat) (tok r a : Bool) (s : Sys) (h : Reach todo tok r a s)
    (hc : s.c = .park) (hz : s.rc = 0) : s.tok = true ∨ 0 < cnt isUnpark s.w s.n :=
  (reach_inv todo tok r a s h).wakeB hc hz

/-- every step strictly decreases a lexicographic measure (broadcasts and the drop still to come; then
    the work left in the current phase) -/
theorem measure_decreases (s s' : Sys) (h : Inv s) (hs : Step s s') : lexLt s' s := meas_decreases s s' h hs

/-- **every run terminates**: there is no infinite sequence of steps; together with `no_deadlock`
    every run ends in the final state -/
theorem all_runs_terminate : WellFounded (fun s' s : Sys => Inv s ∧ Step s s') := terminates

/-- **workers exit when the pool is dropped**: in the final state every spawned worker has exited, and
    no worker exits before the drop -/
theorem workers_exit_on_drop (todo : List Nat) (tok r a : Bool) (s : Sys) (h : Reach todo tok r a s) :
    (Final s → ∀ j, j < s.m → s.w j = .exited) ∧ (s.dropped = false → ∀ j, s.w j ≠ .exited) :=
  ⟨fun hf => hf.2.2.2, (reach_inv todo tok r a s h).noExit⟩

end PoolFull

namespace Pool
/-- spurious wake-ups (single-broadcast model): each raises the termination measure by exactly one, so
    a run with `k` of them has at most `measure + 2k` steps -/
theorem spurious_wakeups_bounded (s s' : Sys) (hs : Spurious s s') : measure s' = measure s + 1 :=
  spurious_bound s s' hs
end Pool
