/-! # C17 (last sentence) — the argument list is evaluated once per process and shared by all generic
    instantiations of the function

`#[divan::bench(args = ...)]` emits one `static __DIVAN_ARGS: BenchArgs` per *function*; every
instantiation's runner goes through `BenchArgs::runner`, i.e. `OnceLock::get_or_init(make_args)`.
Model: a write-once cell and an `args` expression that may be impure (its value may depend on how
often it was evaluated before). Tied to the code by the macro lab: the rendered `args` expressions
count their evaluations (`E` segment), one counter per function. Core only. -/
namespace ArgsOnce

structure Cell (A : Type) where
  val : Option (List A) := none
  evals : Nat := 0

/-- one `__DIVAN_ARGS.runner(make_args, ..)` call: `get_or_init` -/
def runner {A : Type} (mk : Nat → List A) (c : Cell A) : Cell A × List A :=
  match c.val with
  | some l => (c, l)
  | none => ({ val := some (mk c.evals), evals := c.evals + 1 }, mk c.evals)

/-- `n` runner calls on one shared cell (one per instantiation, in any order - they are all the same
    call); returns the final cell and what each call got -/
def runMany {A : Type} (mk : Nat → List A) : Nat → Cell A → Cell A × List (List A)
  | 0, c => (c, [])
  | n + 1, c =>
    let (c1, l) := runner mk c
    let (c2, ls) := runMany mk n c1
    (c2, l :: ls)

theorem runMany_filled {A : Type} (mk : Nat → List A) (l : List A) (k : Nat) :
    ∀ n, runMany mk n { val := some l, evals := k } = ({ val := some l, evals := k }, List.replicate n l)
  | 0 => rfl
  | n + 1 => by
    simp only [runMany, runner, runMany_filled mk l k n, List.replicate_succ]

/-- **evaluated once, shared by all**: however many instantiations ask (at least one), and however
    impure the `args` expression is, it is evaluated exactly once and every instantiation gets that
    one list -/
theorem evaluated_once_and_shared {A : Type} (mk : Nat → List A) (n : Nat) :
    runMany mk (n + 1) {} = ({ val := some (mk 0), evals := 1 }, List.replicate (n + 1) (mk 0)) := by
  simp only [runMany, runner, runMany_filled mk (mk 0) 1 n, List.replicate_succ]

/-- no instantiation at all (`types = []`): never evaluated through a runner -/
theorem no_instantiation_no_evaluation {A : Type} (mk : Nat → List A) : (runMany mk 0 {}).1.evals = 0 := rfl

/-- what goes wrong with one cell per instantiation (the shape of a seeded change): two evaluations,
    and with an impure expression the instantiations disagree about the arguments -/
example : let mk : Nat → List Nat := fun k => [100 + 100 * k]
    let a := runner mk {}
    let b := runner mk { evals := a.1.evals }      -- a second, separate cell
    a.2 = [100] ∧ b.2 = [200] ∧ a.1.evals + (b.1.evals - a.1.evals) = 2 := by decide

end ArgsOnce
