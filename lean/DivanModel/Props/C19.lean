import DivanModel.Model.RoundLoop
/-! # C19 — automatic sample size: first power of two outlasting 100 × timer precision -/
namespace RoundLoop

/-- **tuning doubles the size until the slowest thread's sample exceeds 100 whole multiples of the
    precision**: after `j` rounds at or below the threshold and one above it (clock below `max_time`),
    the sizes used were `s, 2s, …, 2^j·s`, the mode is `collect (2^j·s)`, the stored samples are exactly
    the `T` samples of that last round (all earlier rounds' samples are gone) and the remaining-sample
    counter is `n − T`: the threshold round counts as the first recorded one -/
theorem tuning (o : Opts) (T prec : Nat) (hskip : o.skipExt = false)
    (pre : List Round) (last : Round) (st : St) (s : Nat)
    (hm : st.mode = .tune s) (hs : st.stopped = false) (hr : st.rem = none) (he : st.elapsed < o.maxPicos)
    (hpre : ∀ r ∈ pre, slowOK prec r = true ∧ r.endSinceStart < o.maxPicos)
    (hlast : slowOK prec last = false) :
    let fin := runRounds o T prec st (pre ++ [last])
    fin.mode = .collect (s * 2 ^ pre.length) ∧
    fin.samples = last.durs.map (clampTo prec) ∧
    fin.rem = some (o.sampleCount.getD defaultCount - T) ∧
    fin.sizes = ((List.range (pre.length + 1)).map (fun i => s * 2 ^ i)).reverse ++ st.sizes :=
  tune_doubles o T prec hskip pre last st s hm hs hr he hpre hlast

/-- the threshold is "more than 100 whole multiples of the precision" -/
theorem threshold_spec (prec : Nat) (r : Round) :
    slowOK prec r = false ↔ 100 < maxList r.durs / prec := by
  unfold slowOK tuneThreshold
  constructor
  · intro h; have := of_decide_eq_false h; omega
  · intro h; exact decide_eq_false (by omega)

/-- a run without `sample_size` starts at one iteration per sample -/
theorem starts_at_one (o : Opts) (h : o.sampleSize = none) : (initSt false o).mode = .tune 1 := by
  simp [initSt, initialMode, h]

/-- a tuning round that stays below the threshold discards what it measured when the next round
    stores its own samples: after any tuning round only that round's samples are held -/
theorem tuning_round_keeps_only_itself (o : Opts) (T prec : Nat) (st : St) (s : Nat) (r : Round)
    (hm : st.mode = .tune s) : (stepRound o T prec st r).samples = r.durs.map (clampTo prec) := by
  simp [stepRound, hm]

/-- **`max_time` also covers the tuning rounds**: elapsed time is updated by tuning rounds exactly as
    by collecting ones, so a tuning run whose clock has reached `max_time` stops there -/
theorem max_time_covers_tuning (o : Opts) (T prec : Nat) (st : St) (s : Nat) (r : Round) (rs : List Round)
    (hm : st.mode = .tune s) (hskip : o.skipExt = false) (hover : o.maxPicos ≤ r.endSinceStart) :
    runRounds o T prec (stepRound o T prec st r) rs = stepRound o T prec st r := by
  have he : (stepRound o T prec st r).elapsed = r.endSinceStart := by simp [stepRound, hm, hskip]
  have hc : continues o (stepRound o T prec st r) = false := by
    cases hc : continues o (stepRound o T prec st r) with
    | false => rfl
    | true => have := (continues_iff o _).1 hc; omega
  cases rs with
  | nil => rfl
  | cons r' rs' => simp [runRounds, hc]

/-! non-vacuity: precision 250, 1000 ps per call: sizes 1,2,4,8,16,32 -/
example :
    let o : Opts := ⟨some 3, none, 0, 2^128 - 1, false⟩
    let mk (k e : Nat) : Round := ⟨[1000 * k], e⟩
    let fin := runRounds o 1 250 (initSt false o) [mk 1 1, mk 2 2, mk 4 3, mk 8 4, mk 16 5, mk 32 6]
    fin.mode = .collect 32 ∧ fin.sizes = [32, 16, 8, 4, 2, 1] := by decide

end RoundLoop
