import DivanModel.Model.Prog
/-! # C12 — every #[divan::bench] / #[divan::bench_group] item is registered exactly once

Tree level, on `Model/Prog.lean`: `EntryList` iteration + `EntryTree::from_benches` + `insert_group`.
The macro level (one `GenericBenchEntry` per types × consts combination, nothing for empty lists,
at most 20 external consts) is what the registry lab's child reproduces when it registers entries,
and what the generated-crate lab exercises with the real macros. -/
namespace Prog
open List

mutual
/-- every leaf with the raw names of the parents above it and the slot (identity) of its entry -/
def leaves (pre : List String) : List Tree → List (List String × Nat)
  | [] => []
  | t :: ts => nodeLeaves pre t ++ leaves pre ts
def nodeLeaves (pre : List String) : Tree → List (List String × Nat)
  | .parent raw _ ch => leaves (pre ++ [raw]) ch
  | .leaf e _ => [(pre, e.slot)]
end

theorem leaves_append (pre : List String) (a b : List Tree) : leaves pre (a ++ b) = leaves pre a ++ leaves pre b := by
  induction a with
  | nil => simp [leaves]
  | cons t ts ih => simp [leaves, ih]

theorem fromPath_leaves (e : Bench) : ∀ (path pre : List String), nodeLeaves pre (fromPath e path) = [(pre ++ path, e.slot)]
  | [], pre => by simp [fromPath, nodeLeaves]
  | m :: rest, pre => by
    rw [fromPath, nodeLeaves, leaves, leaves, fromPath_leaves e rest]
    simp

mutual
theorem insertEntry_leaves (e : Bench) : ∀ (path : List String) (tree : List Tree) (pre : List String),
    (leaves pre (insertEntry tree e path)).Perm (leaves pre tree ++ [(pre ++ path, e.slot)])
  | [], tree, pre => by
    rw [insertEntry, leaves_append]; simp [leaves, nodeLeaves]
  | m :: rest, tree, pre => by
    rw [insertEntry]; exact insertInto_leaves e m rest tree pre
theorem insertInto_leaves (e : Bench) (m : String) (rest : List String) : ∀ (tree : List Tree) (pre : List String),
    (leaves pre (insertInto tree e m rest)).Perm (leaves pre tree ++ [(pre ++ m :: rest, e.slot)])
  | [], pre => by
    rw [insertInto, leaves, leaves, fromPath_leaves]; simp [leaves]
  | (.parent raw g ch) :: ts, pre => by
    rw [insertInto]
    by_cases h : raw = m
    · simp only [h, if_true]
      rw [leaves, leaves, nodeLeaves, nodeLeaves]
      have ih := insertEntry_leaves e rest ch (pre ++ [m])
      have e1 : pre ++ [m] ++ rest = pre ++ m :: rest := by simp
      rw [e1] at ih
      -- (A ++ [x]) ++ B ~ (A ++ B) ++ [x]
      refine (Perm.append_right _ ih).trans ?_
      simp only [append_assoc]
      exact Perm.append_left _ perm_append_comm
    · simp only [h, if_false]
      rw [leaves, leaves]
      have ih := insertInto_leaves e m rest ts pre
      simp only [append_assoc]
      exact Perm.append_left _ ih
  | (.leaf e' a) :: ts, pre => by
    rw [insertInto]
    · rw [leaves, leaves]
      have ih := insertInto_leaves e m rest ts pre
      simp only [append_assoc]
      exact Perm.append_left _ ih
    · intro raw g ch h; cases h
end

theorem fromBenches_leaves_aux (bs : List Bench) : ∀ (tree : List Tree),
    (leaves [] (bs.foldl (fun t b => insertEntry t b b.path) tree)).Perm
      (leaves [] tree ++ bs.map fun b => (b.path, b.slot)) := by
  induction bs with
  | nil => intro tree; simp
  | cons b bs ih =>
    intro tree
    simp only [foldl_cons, map_cons]
    refine (ih _).trans ?_
    have := insertEntry_leaves b b.path tree []
    simp only [nil_append] at this
    refine (Perm.append_right _ this).trans ?_
    simp

/-- **every registered entry becomes exactly one leaf, found below parents named after its path
    components** - nothing is lost, duplicated or invented, for every list of entries -/
theorem fromBenches_leaves (bs : List Bench) :
    (leaves [] (fromBenches bs)).Perm (bs.map fun b => (b.path, b.slot)) := by
  have := fromBenches_leaves_aux bs []
  simpa [fromBenches, leaves] using this

/-- **the result does not depend on link / constructor order** (as a multiset of placed leaves) -/
theorem order_independent (bs bs' : List Bench) (h : bs.Perm bs') :
    (leaves [] (fromBenches bs)).Perm (leaves [] (fromBenches bs')) :=
  (fromBenches_leaves bs).trans ((h.map _).trans (fromBenches_leaves bs').symm)

mutual
theorem insertGroup_leaves (g : Group) : ∀ (path : List String) (tree : List Tree) (pre : List String),
    leaves pre (insertGroup tree g path) = leaves pre tree
  | [], tree, pre => by rw [insertGroup]; exact setSlot_leaves g tree pre
  | m :: rest, tree, pre => by rw [insertGroup]; exact descend_leaves g m rest tree pre
theorem descend_leaves (g : Group) (m : String) (rest : List String) : ∀ (tree : List Tree) (pre : List String),
    leaves pre (descend tree g m rest) = leaves pre tree
  | [], pre => by rw [descend]
  | (.parent raw gr ch) :: ts, pre => by
    rw [descend]
    by_cases h : raw = m
    · simp only [h, if_true]
      rw [leaves, leaves, nodeLeaves, nodeLeaves, insertGroup_leaves g rest ch]
    · simp only [h, if_false]
      rw [leaves, leaves, descend_leaves g m rest ts pre]
  | (.leaf e a) :: ts, pre => by
    rw [descend]
    · rw [leaves, leaves, descend_leaves g m rest ts pre]
    · intro raw g ch h; cases h
theorem setSlot_leaves (g : Group) : ∀ (tree : List Tree) (pre : List String),
    leaves pre (setSlot tree g) = leaves pre tree
  | [], pre => by rw [setSlot]
  | (.parent raw gr ch) :: ts, pre => by
    rw [setSlot]
    by_cases h : raw = g.gmeta.raw
    · simp only [h, if_true]; rw [leaves, leaves, nodeLeaves, nodeLeaves]
    · simp only [h, if_false]; rw [leaves, leaves, setSlot_leaves g ts pre]
  | (.leaf e a) :: ts, pre => by
    rw [setSlot]
    · rw [leaves, leaves, setSlot_leaves g ts pre]
    · intro raw g ch h; cases h
end

theorem foldl_insertGroup_leaves (gs : List Group) : ∀ tree : List Tree,
    leaves [] (gs.foldl (fun t g => insertGroup t g g.gmeta.modPath) tree) = leaves [] tree := by
  induction gs with
  | nil => intro tree; rfl
  | cons g gs ih => intro tree; simp only [foldl_cons]; rw [ih, insertGroup_leaves]

/-- **C12, tree level**: the entry tree built from any program holds exactly one leaf per registered
    plain benchmark and per generic instance (types × consts combination), each below the parents its
    module path (and group / type component) names; `bench_group` entries add no leaf. Empty
    `types`/`consts` lists contribute `[]` to the `flatMap` and hence nothing. -/
theorem buildTree_leaves (pr : Program) :
    (leaves [] (buildTree pr)).Perm
      ((pr.benches ++ pr.groups.flatMap (·.benches)).map fun b => (b.path, b.slot)) := by
  unfold buildTree
  simp only
  rw [foldl_insertGroup_leaves]
  exact fromBenches_leaves _

end Prog
