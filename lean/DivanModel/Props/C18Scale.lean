import DivanModel.Model.Fmt
/-! # C18, prefixes of byte sizes and throughputs — the configured decimal / binary prefix is the largest
    one not exceeding the value

`Props/C18.lean` proves this for durations (`unit_is_largest`). For sizes and throughputs the code picks
the prefix with an if-chain over `scale_starts(bytes_format)`; the lab's driver executes `Fmt.scaleIdx`
on the exact decimal text of the value. Here: for every value `num / 10^sc` and both formats, the chosen
prefix starts at or below the value and the next one (if any) above it; the starts are the powers of 1000
resp. 1024 the property names. -/
namespace Fmt

/-- the table is the one the property names: powers of 1000 for the decimal format, of 1024 for binary -/
theorem starts_are_powers (binary : Bool) (i : Nat) (h : i < 6) :
    (starts binary).getD i 0 = (if binary then 1024 else 1000) ^ i := by
  cases binary <;> (have : i = 0 ∨ i = 1 ∨ i = 2 ∨ i = 3 ∨ i = 4 ∨ i = 5 := by omega) <;>
    rcases this with h | h | h | h | h | h <;> subst h <;> decide

/-- the if-chain, read off: which comparisons hold for each outcome -/
theorem scaleIdx_cases (num sc : Nat) (binary : Bool) :
    let t := fun i => (starts binary)[i]?.getD 0 * 10 ^ sc
    (scaleIdx num sc binary = 0 ∧ num < t 1) ∨
    (scaleIdx num sc binary = 1 ∧ t 1 ≤ num ∧ num < t 2) ∨
    (scaleIdx num sc binary = 2 ∧ t 2 ≤ num ∧ num < t 3) ∨
    (scaleIdx num sc binary = 3 ∧ t 3 ≤ num ∧ num < t 4) ∨
    (scaleIdx num sc binary = 4 ∧ t 4 ≤ num ∧ num < t 5) ∨
    (scaleIdx num sc binary = 5 ∧ t 5 ≤ num) := by
  intro t
  by_cases h1 : num < t 1
  · left; refine ⟨?_, h1⟩; simp only [t] at h1; simp [scaleIdx, h1]
  by_cases h2 : num < t 2
  · right; left; refine ⟨?_, by omega, h2⟩; simp only [t] at h1 h2; simp [scaleIdx, h1, h2]
  by_cases h3 : num < t 3
  · right; right; left; refine ⟨?_, by omega, h3⟩; simp only [t] at h1 h2 h3; simp [scaleIdx, h1, h2, h3]
  by_cases h4 : num < t 4
  · right; right; right; left; refine ⟨?_, by omega, h4⟩; simp only [t] at h1 h2 h3 h4; simp [scaleIdx, h1, h2, h3, h4]
  by_cases h5 : num < t 5
  · right; right; right; right; left; refine ⟨?_, by omega, h5⟩; simp only [t] at h1 h2 h3 h4 h5; simp [scaleIdx, h1, h2, h3, h4, h5]
  · right; right; right; right; right; refine ⟨?_, by omega⟩; simp only [t] at h1 h2 h3 h4 h5; simp [scaleIdx, h1, h2, h3, h4, h5]

theorem scaleIdx_le (num sc : Nat) (binary : Bool) : scaleIdx num sc binary ≤ 5 := by
  rcases scaleIdx_cases num sc binary with h | h | h | h | h | h <;> omega

/-- **the prefix does not exceed the value**: a prefix above the base unit is chosen only for values
    of at least one such unit -/
theorem scale_start_le_value (num sc : Nat) (binary : Bool) (h : 0 < scaleIdx num sc binary) :
    (starts binary).getD (scaleIdx num sc binary) 0 * 10 ^ sc ≤ num := by
  simp only [List.getD_eq_getElem?_getD]
  rcases scaleIdx_cases num sc binary with c | c | c | c | c | c
  · omega
  · rw [c.1]; exact c.2.1
  · rw [c.1]; exact c.2.1
  · rw [c.1]; exact c.2.1
  · rw [c.1]; exact c.2.1
  · rw [c.1]; exact c.2

/-- **and it is the largest such**: the next prefix, if there is one, starts above the value -/
theorem value_lt_next_start (num sc : Nat) (binary : Bool) (h : scaleIdx num sc binary < 5) :
    num < (starts binary).getD (scaleIdx num sc binary + 1) 0 * 10 ^ sc := by
  simp only [List.getD_eq_getElem?_getD]
  rcases scaleIdx_cases num sc binary with c | c | c | c | c | c
  · rw [c.1]; exact c.2
  · rw [c.1]; exact c.2.2
  · rw [c.1]; exact c.2.2
  · rw [c.1]; exact c.2.2
  · rw [c.1]; exact c.2.2
  · omega

/-- the two together, in the property's words, for a whole number of bytes: with the binary format
    `n` bytes are shown in units of 1024^i where 1024^i ≤ n < 1024^(i+1) (or i = 5), with the decimal
    format in units of 1000^i -/
theorem prefix_is_largest_not_exceeding (n : Nat) (binary : Bool) (hn : 0 < n) :
    let b := if binary then 1024 else 1000
    let i := scaleIdx n 0 binary
    b ^ i ≤ n ∧ (i < 5 → n < b ^ (i + 1)) := by
  intro b i
  have hi5 := scaleIdx_le n 0 binary
  constructor
  · by_cases h0 : 0 < i
    · have := scale_start_le_value n 0 binary h0
      rw [starts_are_powers binary _ (by omega)] at this
      simpa using this
    · have : i = 0 := by omega
      rw [this]; simp; omega
  · intro h5
    have := value_lt_next_start n 0 binary h5
    rw [starts_are_powers binary _ (by omega)] at this
    simpa using this

/-- the shape of a seeded change: a Peta start that lost a digit group classifies 2 TiB as PiB -/
example : scaleIdx (2 * 1024^4) 0 true = 4 ∧ ¬ (2 * 1024^4 < 1125899906842) := by decide

end Fmt
