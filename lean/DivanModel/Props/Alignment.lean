import DivanModel.Model.Recording
/-! C05 / C10 / C19: the three stores of recorded samples stay aligned over every history of
    tuning-round clears and recorded rounds, so the allocation figures and per-input counts that
    `compute_stats` attaches to a sample (by its index) are that sample's own, nothing of a cleared
    round survives, and the totals behind the means are those of the recorded samples only. -/
namespace Recording

theorem ent_none {i : Nat} {r : Raw} (h : r.alloc = none) : ent i r = [] := by simp [ent, h]
theorem ent_some {i a : Nat} {r : Raw} (h : r.alloc = some a) : ent i r = [(i, a)] := by simp [ent, h]

theorem lookup_cons (i a : Nat) (m : List (Nat × Nat)) (j : Nat) :
    lookup ((i, a) :: m) j = if i = j then some a else lookup m j := by
  unfold lookup
  by_cases h : i = j <;> simp [List.find?_cons, h]

theorem entries_append (l : List Raw) (r : Raw) : ∀ i : Nat,
    entries i (l ++ [r]) = entries i l ++ ent (i + l.length) r := by
  induction l with
  | nil => intro i; simp [entries]
  | cons x xs ih =>
    intro i
    simp only [List.cons_append, entries, ih (i + 1), List.append_assoc, List.length_cons]
    have : i + 1 + xs.length = i + (xs.length + 1) := by omega
    rw [this]

theorem entries_keys (l : List Raw) : ∀ (i : Nat) (p : Nat × Nat), p ∈ entries i l → i ≤ p.1 ∧ p.1 < i + l.length := by
  induction l with
  | nil => intro i p h; simp [entries] at h
  | cons x xs ih =>
    intro i p h
    simp only [entries, List.mem_append] at h
    rcases h with h | h
    · cases hx : x.alloc with
      | none => simp [ent_none hx] at h
      | some a =>
        simp [ent_some hx] at h
        subst h
        simp
    · have := ih (i + 1) p h
      simp only [List.length_cons]
      omega

/-- inserting at the index of the next sample never replaces anything -/
theorem insert_fresh (log : List Raw) (a : Nat) :
    insert (entries 0 log) log.length a = entries 0 log ++ [(log.length, a)] := by
  unfold insert
  congr 1
  rw [List.filter_eq_self]
  intro p hp
  have := entries_keys log 0 p hp
  simp
  omega

/-- the alignment invariant, against the log of samples recorded since the last clear -/
structure Aligned (kinds : Nat) (c : Coll) (log : List Raw) : Prop where
  times : c.times = log.map (·.dur)
  allocs : c.allocs = entries 0 log
  nkinds : c.counts.length = kinds
  counts : ∀ k, k < kinds → c.counts[k]? = some (log.map fun r => r.counts.getD k 0)

theorem empty_aligned (kinds : Nat) : Aligned kinds (empty kinds) [] := by
  refine ⟨rfl, rfl, by simp [empty], ?_⟩
  intro k hk
  simp [empty, hk]

theorem clear_aligned {kinds : Nat} {c : Coll} {log : List Raw} (h : Aligned kinds c log) :
    Aligned kinds (clear c) [] := by
  refine ⟨rfl, rfl, by simp [clear, h.nkinds], ?_⟩
  intro k hk
  have := h.counts k hk
  simp [clear, this]

theorem push_aligned {kinds : Nat} {c : Coll} {log : List Raw} (h : Aligned kinds c log) (r : Raw)
    (hr : r.counts.length = kinds) : Aligned kinds (push c r) (log ++ [r]) := by
  have hlen : c.times.length = log.length := by rw [h.times]; simp
  refine ⟨?_, ?_, ?_, ?_⟩
  · simp [push, h.times]
  · simp only [push, hlen, h.allocs, entries_append, Nat.zero_add]
    cases hx : r.alloc with
    | none => simp [ent_none hx]
    | some a => simp [ent_some hx, insert_fresh]
  · simp [push, h.nkinds, hr]
  · intro k hk
    have hc := h.counts k hk
    have hk' : k < r.counts.length := by omega
    simp only [push, List.getElem?_zipWith, hc, Option.map_some, List.map_append, List.map_cons, List.map_nil]
    simp [List.getElem?_eq_getElem hk', List.getD_eq_getElem?_getD]

theorem recordRound_aligned {kinds : Nat} (raws : List Raw) : ∀ {c : Coll} {log : List Raw},
    Aligned kinds c log → (∀ r ∈ raws, r.counts.length = kinds) → Aligned kinds (recordRound c raws) (log ++ raws) := by
  induction raws with
  | nil => intro c log h _; simpa [recordRound] using h
  | cons r rs ih =>
    intro c log h hr
    have h1 := push_aligned h r (hr r (by simp))
    have h2 := ih h1 (fun x hx => hr x (by simp [hx]))
    simpa [recordRound] using h2

/-- every raw sample of the history carries one count per input-counting kind -/
def WellFormed (kinds : Nat) (ops : List Op) : Prop :=
  ∀ op ∈ ops, match op with | .clear => True | .round raws => ∀ r ∈ raws, r.counts.length = kinds

theorem foldl_aligned {kinds : Nat} (ops : List Op) : ∀ {c : Coll} {log : List Raw},
    Aligned kinds c log → WellFormed kinds ops → Aligned kinds (ops.foldl step c) (ops.foldl logStep log) := by
  induction ops with
  | nil => intro c log h _; simpa using h
  | cons op ops ih =>
    intro c log h hw
    have hw' : WellFormed kinds ops := fun o ho => hw o (by simp [ho])
    have hop := hw op (by simp)
    cases op with
    | clear => exact ih (clear_aligned h) hw'
    | round raws => exact ih (recordRound_aligned raws h hop) hw'

/-- **Alignment, for every history** of clears and recorded rounds (any number of rounds, threads per
    round, samples with or without allocation information, any number of input-counting kinds). -/
theorem run_aligned (kinds : Nat) (ops : List Op) (hw : WellFormed kinds ops) :
    Aligned kinds (run kinds ops) (logOf ops) :=
  foldl_aligned ops (empty_aligned kinds) hw

/-! ### consequences for what `compute_stats` reads -/

theorem lookup_entries (l : List Raw) : ∀ i j : Nat,
    lookup (entries i l) j = if j < i then none else (l[j - i]?).bind (·.alloc) := by
  induction l with
  | nil => intro i j; simp [entries, lookup]
  | cons x xs ih =>
    intro i j
    have ih' := ih (i + 1) j
    simp only [entries]
    cases hx : x.alloc with
    | none =>
      rw [ent_none hx, List.nil_append, ih']
      by_cases hji : j < i
      · have h1 : j < i + 1 := by omega
        simp [hji, h1]
      · by_cases hij : j = i
        · subst hij; simp [hx]
        · have h1 : ¬ j < i + 1 := by omega
          have h2 : j - i = (j - (i + 1)) + 1 := by omega
          simp only [hji, h1, if_false]
          rw [h2, List.getElem?_cons_succ]
    | some a =>
      rw [ent_some hx, List.singleton_append, lookup_cons, ih']
      by_cases hji : j < i
      · have h1 : j < i + 1 := by omega
        have h3 : ¬ i = j := by omega
        simp [hji, h1, h3]
      · by_cases hij : j = i
        · subst hij; simp [hx]
        · have h1 : ¬ j < i + 1 := by omega
          have h2 : j - i = (j - (i + 1)) + 1 := by omega
          have h3 : ¬ i = j := by omega
          simp only [hji, h1, h3, if_false]
          rw [h2, List.getElem?_cons_succ]

/-- the allocation figure found for the sample at index `j` is that sample's own; beyond the recorded
    samples nothing is found (nothing of a cleared round survives) -/
theorem allocOf_own {kinds : Nat} {c : Coll} {log : List Raw} (h : Aligned kinds c log) (j : Nat) :
    allocOf c j = (log[j]?).bind (·.alloc) := by
  unfold allocOf
  rw [h.allocs, lookup_entries]
  simp

theorem allocOf_beyond {kinds : Nat} {c : Coll} {log : List Raw} (h : Aligned kinds c log) (j : Nat)
    (hj : c.times.length ≤ j) : allocOf c j = none := by
  rw [allocOf_own h]
  have : log.length ≤ j := by rw [h.times] at hj; simpa using hj
  simp [List.getElem?_eq_none this]

/-- the count of kind `k` found for the sample at index `j` is that sample's own count of that kind -/
theorem countOf_own {kinds : Nat} {c : Coll} {log : List Raw} (h : Aligned kinds c log) (k j : Nat)
    (hk : k < kinds) : countOf c k j = (log[j]?).map fun r => r.counts.getD k 0 := by
  unfold countOf
  rw [h.counts k hk]
  simp

/-- every list of per-input counts has exactly one entry per recorded sample -/
theorem counts_length {kinds : Nat} {c : Coll} {log : List Raw} (h : Aligned kinds c log) (k : Nat)
    (hk : k < kinds) : (c.counts[k]?).map (·.length) = some c.times.length := by
  rw [h.counts k hk, h.times]
  simp

theorem sum_entries (l : List Raw) : ∀ i : Nat, ((entries i l).map (·.2)).sum = (l.filterMap (·.alloc)).sum := by
  induction l with
  | nil => intro i; simp [entries]
  | cons x xs ih =>
    intro i
    simp only [entries, List.map_append, List.sum_append, ih (i + 1)]
    cases hx : x.alloc with
    | none => simp [ent_none hx, List.filterMap_cons, hx]
    | some a => simp [ent_some hx, List.filterMap_cons, hx]

/-- the total behind the mean allocation figures is that of the recorded samples, no more, no less -/
theorem allocTotal_own {kinds : Nat} {c : Coll} {log : List Raw} (h : Aligned kinds c log) :
    allocTotal c = (log.filterMap (·.alloc)).sum := by
  unfold allocTotal
  rw [h.allocs, sum_entries]

/-- Headline for the properties' wording: after any history, the figures attached to the sample at
    index `j` - duration, allocation information, count of every kind - are those of the `j`-th
    sample recorded since the last clear. -/
theorem figures_belong_to_their_sample (kinds : Nat) (ops : List Op) (hw : WellFormed kinds ops) (j : Nat) :
    let c := run kinds ops
    let log := logOf ops
    c.times[j]? = (log[j]?).map (·.dur) ∧
    allocOf c j = (log[j]?).bind (·.alloc) ∧
    (∀ k, k < kinds → countOf c k j = (log[j]?).map fun r => r.counts.getD k 0) ∧
    allocTotal c = (log.filterMap (·.alloc)).sum := by
  have h := run_aligned kinds ops hw
  refine ⟨?_, allocOf_own h j, fun k hk => countOf_own h k j hk, allocTotal_own h⟩
  rw [h.times]; simp

/-! ### the hypotheses are satisfiable, and the statement has teeth -/

def exOps : List Op :=
  [.round [⟨10, some 4, [3, 7]⟩, ⟨11, none, [4, 8]⟩],        -- a tuning round on two threads
   .clear,
   .round [⟨20, none, [5, 9]⟩, ⟨21, some 6, [6, 1]⟩],
   .round [⟨22, some 2, [7, 2]⟩, ⟨19, some 1, [8, 3]⟩]]

example : WellFormed 2 exOps := by
  intro op hop
  simp [exOps] at hop
  rcases hop with h | h | h | h <;> subst h <;> simp

example : (run 2 exOps).times = [20, 21, 22, 19] ∧ allocOf (run 2 exOps) 0 = none ∧
    allocOf (run 2 exOps) 1 = some 6 ∧ allocOf (run 2 exOps) 3 = some 1 ∧ allocOf (run 2 exOps) 4 = none ∧
    countOf (run 2 exOps) 1 3 = some 3 ∧ allocTotal (run 2 exOps) = 9 := by decide

/-- the three seeded defects, as variants of the model: each breaks the statement on `exOps`-like histories -/
def pushHoisted (i : Nat) (c : Coll) (r : Raw) : Coll :=     -- S4-C10: `sample_index` read once per round
  { push c r with allocs := match r.alloc with | some a => insert c.allocs i a | none => c.allocs }
def recordRoundHoisted (c : Coll) (raws : List Raw) : Coll := raws.foldl (pushHoisted c.times.length) c

example : allocOf (recordRoundHoisted (empty 0) [⟨1, some 5, []⟩, ⟨2, some 7, []⟩]) 0 = some 7 ∧
    allocOf (recordRoundHoisted (empty 0) [⟨1, some 5, []⟩, ⟨2, some 7, []⟩]) 1 = none := by decide

def clearStale (c : Coll) : Coll := { clear c with allocs := c.allocs }   -- S2/S3-C05: the map survives a clear
example : allocOf (recordRound (clearStale (recordRound (empty 0) [⟨1, some 5, []⟩])) [⟨2, none, []⟩]) 0 = some 5 := by decide

def clearFirstOnly (c : Coll) : Coll :=                       -- S4-C19: only the first kind's counts are cleared
  { clear c with counts := match c.counts with | [] => [] | _ :: rest => [] :: rest }
example : countOf (recordRound (clearFirstOnly (recordRound (empty 2) [⟨1, none, [3, 7]⟩])) [⟨2, none, [4, 8]⟩]) 1 0 = some 7 := by decide

end Recording
