import DivanModel.Model.Prog
/-! # C13 — a benchmark case runs iff its full display path passes the filters -/
namespace Prog

/-- **selection rule**: for every sequence of `include`/`exclude` calls (any order, any interleaving,
    any filters) a path is selected iff no skip filter matches it and either there are no positive
    filters or at least one matches. (`FilterSet::is_match` works by first-match position over a
    `SplitVec` whose `insert` moves elements around; this says the outcome is order-free.) -/
theorem isSelected_iff (ops : List (FilterSpec × Bool)) (p : String) :
    isSelected (filterSet ops) p = true ↔
      (∀ f, (f, false) ∈ ops → f.matches p = false) ∧
      ((∀ f, (f, true) ∉ ops) ∨ ∃ f, (f, true) ∈ ops ∧ f.matches p = true) := by
  unfold isSelected filterSet
  exact Filter.isMatch_iff (F := FilterSpec) (P := String) (fun f q => f.matches q) ops p

/-- exact filters match by whole-string equality -/
theorem exact_matches (t p : String) : (FilterSpec.matches ⟨true, t⟩ p) = (t == p) := rfl

/-! ### `retain`: per case, parents exactly when a case survives below them -/

mutual
/-- full display paths of all cases below a list of nodes (each runtime argument is its own case) -/
def casePaths (parentPath : String) : List Tree → List String
  | [] => []
  | t :: ts => nodePaths parentPath t ++ casePaths parentPath ts
def nodePaths (parentPath : String) : Tree → List String
  | .parent raw g ch => casePaths (joinPath parentPath (Tree.dispName (.parent raw g ch))) ch
  | .leaf e none => [joinPath parentPath e.dispName]
  | .leaf e (some args) =>
    args.map fun i => joinPath parentPath e.dispName ++ "::" ++ (e.args.getD []).getD i ""
end

mutual
/-- **retain keeps exactly the selected cases**, in their original order: the case paths of the
    retained forest are the case paths of the forest filtered by the predicate (decided per case, each
    argument separately) -/
theorem retainList_cases (f : String → Bool) (pp : String) :
    (ts : List Tree) → casePaths pp (retainList f pp ts) = (casePaths pp ts).filter f
  | [] => by simp [retainList, casePaths]
  | t :: ts => by
    rw [retainList, casePaths, List.filter_append, ← retainList_cases f pp ts]
    have := retainTree_cases f pp t
    cases h : retainTree f pp t with
    | none => rw [h] at this; simp only at this; simp [← this]
    | some t' => rw [h] at this; simp only at this; simp [casePaths, ← this]
theorem retainTree_cases (f : String → Bool) (pp : String) :
    (t : Tree) → (match retainTree f pp t with | some t' => nodePaths pp t' | none => []) = (nodePaths pp t).filter f
  | .parent raw g ch => by
    rw [retainTree, nodePaths]
    have ih := retainList_cases f (joinPath pp (Tree.dispName (.parent raw g ch))) ch
    by_cases he : (retainList f (joinPath pp (Tree.dispName (.parent raw g ch))) ch).isEmpty = true
    · simp only [he, if_true]
      rw [← ih]
      have : retainList f (joinPath pp (Tree.dispName (.parent raw g ch))) ch = [] := by
        simpa using he
      simp [this, casePaths]
    · simp only [he, Bool.false_eq_true, ↓reduceIte]
      rw [nodePaths.eq_def]
      exact ih
  | .leaf e none => by
    rw [retainTree, nodePaths]
    by_cases h : f (joinPath pp e.dispName) = true <;> simp [h, nodePaths]
  | .leaf e (some args) => by
    rw [retainTree, nodePaths]
    by_cases he : (args.filter (fun i => f (joinPath pp e.dispName ++ "::" ++ (e.args.getD []).getD i ""))).isEmpty = true
    · simp only [he, if_true]
      have : args.filter (fun i => f (joinPath pp e.dispName ++ "::" ++ (e.args.getD []).getD i "")) = [] := by
        simpa using he
      rw [List.filter_map]
      simp only [Function.comp_def, this, List.map_nil]
    · simp only [he, Bool.false_eq_true, ↓reduceIte]
      rw [nodePaths.eq_def, List.filter_map]
      simp [Function.comp_def]
end

mutual
/-- no parent without a case below it -/
def NoEmptyParent : List Tree → Prop
  | [] => True
  | t :: ts => NoEmptyNode t ∧ NoEmptyParent ts
def NoEmptyNode : Tree → Prop
  | .parent _ _ ch => ch ≠ [] ∧ NoEmptyParent ch
  | .leaf _ none => True
  | .leaf _ (some args) => args ≠ []
end

mutual
/-- **group and module nodes appear exactly when a selected case lies below them**: after `retain`
    every parent has a child and every benchmark with arguments has an argument left -/
theorem retainList_noEmpty (f : String → Bool) (pp : String) :
    (ts : List Tree) → NoEmptyParent (retainList f pp ts)
  | [] => by simp [retainList, NoEmptyParent]
  | t :: ts => by
    rw [retainList]
    have ih := retainList_noEmpty f pp ts
    have := retainTree_noEmpty f pp t
    cases h : retainTree f pp t with
    | none => simpa using ih
    | some t' =>
      rw [h] at this; simp only [List.singleton_append]
      rw [NoEmptyParent]; exact ⟨this, ih⟩
theorem retainTree_noEmpty (f : String → Bool) (pp : String) :
    (t : Tree) → (match retainTree f pp t with | some t' => NoEmptyNode t' | none => True)
  | .parent raw g ch => by
    rw [retainTree]
    by_cases he : (retainList f (joinPath pp (Tree.dispName (.parent raw g ch))) ch).isEmpty = true
    · simp only [he, if_true]
    · simp only [he, Bool.false_eq_true, ↓reduceIte]
      rw [NoEmptyNode.eq_def]
      refine ⟨?_, retainList_noEmpty f _ ch⟩
      intro e; rw [e] at he; simp at he
  | .leaf e none => by
    rw [retainTree]
    by_cases h : f (joinPath pp e.dispName) = true
    · simp only [h, ↓reduceIte]; rw [NoEmptyNode.eq_def]; trivial
    · simp only [h, Bool.false_eq_true, ↓reduceIte]
  | .leaf e (some args) => by
    rw [retainTree]
    by_cases he : (args.filter (fun i => f (joinPath pp e.dispName ++ "::" ++ (e.args.getD []).getD i ""))).isEmpty = true
    · simp only [he, if_true]
    · simp only [he, Bool.false_eq_true, ↓reduceIte]
      rw [NoEmptyNode.eq_def]
      intro e'; rw [e'] at he; simp at he
end

/-- the selected cases of a run: exactly those whose full display path passes the filters -/
theorem selected_cases_iff (ops : List (FilterSpec × Bool)) (ts : List Tree) (p : String) :
    p ∈ casePaths "" (retainList (isSelected (filterSet ops)) "" ts) ↔
      p ∈ casePaths "" ts ∧
      (∀ f, (f, false) ∈ ops → f.matches p = false) ∧
      ((∀ f, (f, true) ∉ ops) ∨ ∃ f, (f, true) ∈ ops ∧ f.matches p = true) := by
  rw [retainList_cases, List.mem_filter, isSelected_iff]

end Prog
