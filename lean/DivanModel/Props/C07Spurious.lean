import DivanModel.Model.PoolFull
/-! # C07 with spurious wake-ups — `thread::park` may return without a token

The theorem-bearing relation `PoolFull.Step` lets the parked caller continue only by consuming a token.
`std::thread::park` is allowed to return spuriously; the pool's wait loop
(`while ref_count.load(Acquire) != 0 { park() }`) is written for that. Until round 5 the driver accepted a
spurious park return by an extension outside the relation. Here the extension is a relation of its own,
`StepS` = `Step` + "the parked caller wakes up without consuming anything and re-checks the count", and the
safety theorems are lifted to it: the invariant (hence exactly-once, returns-after-all, no touch after
return - all stated on `Inv`), no lost wake-up, no deadlock. A spurious wake-up that finds the count
non-zero leads straight back to the state it left, so it can only delay. -/
namespace PoolFull

inductive StepS : Sys → Sys → Prop
  | base (s s' : Sys) : Step s s' → StepS s s'
  /-- `park()` returns although nobody unparked: the token, if any, stays where it is -/
  | spurious (s : Sys) : s.c = .park → StepS s { s with c := .check }

theorem inv_spurious (s : Sys) (h : Inv s) (hc : s.c = .park) : Inv { s with c := .check } := by
  obtain ⟨nm, sendB, waitB, sentB, rcEq, validB, unpB, wakeB, quiet, beyond, noExit, dropI⟩ := h
  constructor <;> simp_all [frontier]

theorem inv_stepS (s s' : Sys) (h : Inv s) (hs : StepS s s') : Inv s' := by
  cases hs with
  | base _ hs => exact inv_step s s' h hs
  | spurious hc => exact inv_spurious s h hc

/-- **what the driver does with a spurious park return in an event log is this step** -/
theorem spuriousFn_sound (s t : Sys) (h : spuriousFn s = some t) : StepS s t := by
  unfold spuriousFn at h
  split at h
  · rename_i hc
    cases h
    exact .spurious s hc
  · cases h

inductive ReachS (todo : List Nat) (tok r a : Bool) : Sys → Prop
  | init : ReachS todo tok r a (init todo tok r a)
  | step (s s') : ReachS todo tok r a s → StepS s s' → ReachS todo tok r a s'

/-- **the protocol invariant survives any number of spurious wake-ups**, at any point of any history -/
theorem reachS_inv (todo : List Nat) (tok r a : Bool) (s : Sys) (h : ReachS todo tok r a s) : Inv s := by
  induction h with
  | init => exact inv_init todo tok r a
  | step s s' _ hs ih => exact inv_stepS s s' ih hs

/-- **no lost wake-up, spurious returns included**: a parked caller whose count is zero has a token or
    an unpark in flight -/
theorem no_lost_wakeup_spurious (todo : List Nat) (tok r a : Bool) (s : Sys) (h : ReachS todo tok r a s)
    (hc : s.c = .park) (hz : s.rc = 0) : s.tok = true ∨ 0 < cnt isUnpark s.w s.n :=
  (reachS_inv todo tok r a s h).wakeB hc hz

/-- **no deadlock, spurious returns included**: every non-final state reachable with spurious wake-ups
    has an ordinary step enabled (progress never depends on a spurious return happening) -/
theorem no_deadlock_spurious (todo : List Nat) (tok r a : Bool) (s : Sys) (h : ReachS todo tok r a s)
    (hnf : ¬ Final s) : ∃ s', Step s s' :=
  deadlock_free s (reachS_inv todo tok r a s h) hnf

/-- **the broadcast still returns only after all calls**: the clause of C06 on states reachable with
    spurious wake-ups (a spurious return that reads zero is a correct return) -/
theorem returns_after_all_spurious (todo : List Nat) (tok r a : Bool) (s : Sys) (h : ReachS todo tok r a s)
    (hc : s.c = .check) (hz : s.rc = 0) :
    ∀ j, j < s.n → notDec (s.w j) = false :=
  cnt_zero_forall notDec s.w s.n (by
    have := (reachS_inv todo tok r a s h).rcEq (by rw [hc]; simp)
    omega)

/-- **a spurious wake-up can only delay**: if the count is still non-zero the caller goes back to
    sleep, and - when its acquire load adds nothing new - is in exactly the state it left -/
theorem spurious_then_recheck (s : Sys) (hc : s.c = .park) (hz : s.rc ≠ 0) :
    ∃ t, StepS s t ∧ Step t { t with c := .park, seen := if s.acqOk then (fun j => s.seen j || s.pub j) else s.seen } ∧
      t.tok = s.tok ∧ t.rc = s.rc ∧ t.w = s.w :=
  ⟨{ s with c := .check }, .spurious s hc, Step.checkPos { s with c := .check } rfl hz, rfl, rfl, rfl⟩

/-- worker steps never look at the caller's sleep state: a spurious wake-up commutes with everything a
    worker can do meanwhile (so the workers' progress is unaffected) -/
theorem spurious_does_not_touch_workers (s : Sys) :
    ({ s with c := CPc.check } : Sys).w = s.w ∧ ({ s with c := CPc.check } : Sys).rc = s.rc ∧
    ({ s with c := CPc.check } : Sys).tok = s.tok ∧ ({ s with c := CPc.check } : Sys).valid = s.valid :=
  ⟨rfl, rfl, rfl, rfl⟩

end PoolFull
