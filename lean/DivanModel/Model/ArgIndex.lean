/-! Prototype: label ↔ argument correspondence (C17). Core only.
    `names` and `args` are the two parallel slices built once by `BenchArgs::runner`; a tree leaf keeps
    *pointers into the names slice*; after `retain` / `sort_by_attr` the runner recovers the index by pointer
    arithmetic (`util::slice_ptr_index`) and indexes the typed argument slice with it. -/
namespace ArgIndex

/-- `slice_ptr_index`: (ptr − base) / size_of::<T>() -/
def slicePtrIndex (base size ptr : Nat) : Nat := (ptr - base) / size

/-- address of element `i` of a slice starting at `base` -/
def addrOf (base size i : Nat) : Nat := base + i * size

theorem index_roundtrip (base size i : Nat) (hs : 0 < size) : slicePtrIndex base size (addrOf base size i) = i := by
  simp [slicePtrIndex, addrOf, Nat.mul_div_cancel _ hs]

structure ArgTable (A : Type) where
  args  : List A
  names : List String
  render : A → String
  /-- built once, element by element: `names[i] = to_string(args[i])` -/
  parallel : names = args.map render

/-- what the run does for a leaf pointer `ptr`: recover the index, fetch label and argument -/
def caseOf {A} (t : ArgTable A) (base size ptr : Nat) : Option (String × A) :=
  let i := slicePtrIndex base size ptr
  match t.names[i]?, t.args[i]? with
  | some l, some a => some (l, a)
  | _, _ => none

/-- C17: whatever sub-list / permutation of the name pointers survives filtering and sorting, the case shown under
    a label is run with exactly the argument that renders to that label. -/
theorem label_names_value {A} (t : ArgTable A) (base size : Nat) (hs : 0 < size)
    (kept : List Nat)                                   -- indices of the surviving pointers, any order, any subset
    (hk : ∀ i ∈ kept, i < t.args.length) :
    ∀ i ∈ kept, ∃ a, caseOf t base size (addrOf base size i) = some (t.render a, a) ∧ t.args[i]? = some a := by
  intro i hi
  have hlt := hk i hi
  have hn : t.names[i]? = some (t.render t.args[i]) := by
    rw [t.parallel]; simp [hlt]
  refine ⟨t.args[i], ?_, by simp [hlt]⟩
  simp [caseOf, index_roundtrip base size i hs, hn, hlt]

end ArgIndex
