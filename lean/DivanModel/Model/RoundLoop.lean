/-! Prototype: round-level model of `bench_loop_threaded` (C03, C04, C19). Core only.
    One `Round` = what the loop observes about one round: per-thread raw durations (picoseconds)
    and, when external time counts, the latest end timestamp measured from `initial_start`. -/
namespace RoundLoop

structure Opts where
  sampleCount : Option Nat
  sampleSize  : Option Nat
  minPicos    : Nat
  maxPicos    : Nat
  skipExt     : Bool

structure Round where
  durs : List Nat
  endSinceStart : Nat

inductive Mode | test | tune (size : Nat) | collect (size : Nat)
  deriving DecidableEq, Repr

def Mode.size : Mode → Nat
  | .test => 1 | .tune s => s | .collect s => s

structure St where
  mode    : Mode
  rem     : Option Nat
  elapsed : Nat
  samples : List Nat
  sampleSize : Nat
  sizes   : List Nat      -- size of every executed round, newest first
  stopped : Bool

def defaultCount : Nat := 100
def tuneThreshold : Nat := 100
def minProgress : Nat := 1000

def initialMode (isTest : Bool) (o : Opts) : Mode :=
  if isTest then .test else
  match o.sampleSize with
  | some s => .collect s
  | none => .tune 1

def hasSamples (o : Opts) : Bool := o.sampleCount != some 0 && o.sampleSize != some 0

/-- the `while` condition -/
def continues (o : Opts) (st : St) : Bool :=
  if st.elapsed ≥ o.maxPicos then false
  else if st.rem.getD 1 > 0 then true
  else st.elapsed < o.minPicos

def maxList (l : List Nat) : Nat := l.foldl max 0

def clampTo (p d : Nat) : Nat := if d = 0 then p else d

def stepRound (o : Opts) (T prec : Nat) (st : St) (r : Round) : St :=
  let size := st.mode.size
  match st.mode with
  | .test => { st with sizes := size :: st.sizes, sampleSize := size, stopped := true }
  | .collect s =>
    let slowest := maxList r.durs
    { mode := .collect s
      rem := st.rem.map (· - T)
      elapsed := if o.skipExt then st.elapsed + max slowest minProgress else r.endSinceStart
      samples := st.samples ++ r.durs.map (clampTo prec)
      sampleSize := size
      sizes := size :: st.sizes
      stopped := false }
  | .tune s =>
    let slowest := maxList r.durs
    let done := ¬ (slowest / prec ≤ tuneThreshold)
    { mode := if done then .collect s else .tune (s * 2)
      rem := if done then (some (o.sampleCount.getD defaultCount)).map (· - T) else st.rem.map (· - T)
      elapsed := if o.skipExt then st.elapsed + max slowest minProgress else r.endSinceStart
      samples := r.durs.map (clampTo prec)          -- earlier samples are cleared on every tuning round
      sampleSize := size
      sizes := size :: st.sizes
      stopped := false }

def runRounds (o : Opts) (T prec : Nat) : St → List Round → St
  | st, [] => st
  | st, r :: rs =>
    if st.stopped || !continues o st then st
    else runRounds o T prec (stepRound o T prec st r) rs

def initSt (isTest : Bool) (o : Opts) : St :=
  let m := initialMode isTest o
  { mode := m
    rem := match m with | .collect _ => some (o.sampleCount.getD defaultCount) | _ => none
    elapsed := 0, samples := [], sampleSize := 0, sizes := [], stopped := false }

@[simp] theorem initSt_sizes (t o) : (initSt t o).sizes = [] := rfl
@[simp] theorem initSt_samples (t o) : (initSt t o).samples = [] := rfl

def run (isTest : Bool) (o : Opts) (T prec : Nat) (rs : List Round) : St :=
  if o.maxPicos = 0 || !hasSamples o then initSt isTest o
  else runRounds o T prec (initSt isTest o) rs

/-- number of benchmarked calls: every executed round runs `size` iterations on each of T threads -/
def calls (T : Nat) (st : St) : Nat := T * st.sizes.foldl (· + ·) 0

/-! ### C04: the loop condition, literally -/
theorem continues_iff (o : Opts) (st : St) :
    continues o st = true ↔ st.elapsed < o.maxPicos ∧ (0 < st.rem.getD 1 ∨ st.elapsed < o.minPicos) := by
  unfold continues
  by_cases h1 : st.elapsed ≥ o.maxPicos
  · simp [h1]; omega
  · by_cases h2 : st.rem.getD 1 > 0
    · simp [h1, h2]; omega
    · simp [h1, h2]; omega

/-! ### C03 -/
def ceilDiv (n T : Nat) : Nat := (n + T - 1) / T

theorem ceilDiv_zero (T : Nat) (hT : 0 < T) : ceilDiv 0 T = 0 := by
  simp [ceilDiv]; omega

theorem ceilDiv_step (m T : Nat) (hT : 0 < T) (hm : 0 < m) : ceilDiv m T = ceilDiv (m - T) T + 1 := by
  unfold ceilDiv
  by_cases h : T ≤ m
  · have : m + T - 1 = (m - T + T - 1) + T := by omega
    rw [this, Nat.add_div_right _ hT]
  · have h1 : m - T = 0 := by omega
    rw [h1]
    have : (0 + T - 1) / T = 0 := Nat.div_eq_of_lt (by omega)
    rw [this]
    have : (m + T - 1) / T = 1 := by
      apply Nat.div_eq_of_lt_le <;> omega
    omega

theorem sum_foldl_cons (a : Nat) (l : List Nat) (init : Nat) :
    (a :: l).foldl (· + ·) init = a + l.foldl (· + ·) init := by
  simp only [List.foldl_cons]
  induction l generalizing init with
  | nil => simp; omega
  | cons x xs ih =>
    simp only [List.foldl_cons]
    have : init + a + x = (init + x) + a := by omega
    rw [this, ih]

/-- Collect mode, clock never reaches `max_time`, `min_time = 0`: from `m` remaining samples the loop
    runs exactly ⌈m/T⌉ more rounds of size `s`, recording T samples in each. -/
theorem collect_rounds (o : Opts) (T prec s : Nat) (hT : 0 < T) (hmin : o.minPicos = 0) (hskip : o.skipExt = false) :
    ∀ (rs : List Round) (st : St) (m : Nat),
      st.mode = .collect s → st.rem = some m → st.stopped = false → st.elapsed < o.maxPicos →
      (∀ r ∈ rs, r.endSinceStart < o.maxPicos ∧ r.durs.length = T) →
      ceilDiv m T ≤ rs.length →
      let fin := runRounds o T prec st rs
      fin.sizes.length = st.sizes.length + ceilDiv m T ∧
      fin.sizes.foldl (· + ·) 0 = st.sizes.foldl (· + ·) 0 + s * ceilDiv m T ∧
      fin.samples.length = st.samples.length + T * ceilDiv m T ∧
      fin.rem = some 0 := by
  intro rs
  induction rs with
  | nil =>
    intro st m hm hr hs he hall hlen
    simp at hlen
    simp only [runRounds]
    by_cases hm0 : m = 0
    · subst hm0; simp [ceilDiv_zero T hT, hr]
    · have := ceilDiv_step m T hT (by omega); omega
  | cons r rs ih =>
    intro st m hm hr hs he hall hlen
    by_cases hm0 : m = 0
    · subst hm0
      have hc : continues o st = false := by
        simp [continues, hr, hmin]
      simp [runRounds, hs, hc, ceilDiv_zero T hT, hr]
    · have hc : continues o st = true := by
        rw [continues_iff]; exact ⟨he, Or.inl (by simp [hr]; omega)⟩
      have hstep := ceilDiv_step m T hT (by omega)
      have hr' := hall r (by simp)
      simp only [runRounds, hs, hc, Bool.not_true, Bool.or_self, Bool.false_eq_true, if_false]
      have key := ih (stepRound o T prec st r) (m - T)
        (by simp [stepRound, hm]) (by simp [stepRound, hm, hr]) (by simp [stepRound, hm])
        (by simp [stepRound, hm, hskip]; exact hr'.1)
        (fun r' hr'' => hall r' (by simp [hr'']))
        (by simp at hlen; omega)
      simp only [] at key ⊢
      obtain ⟨k1, k2, k3, k4⟩ := key
      refine ⟨?_, ?_, ?_, k4⟩
      · rw [k1]; simp [stepRound, hm]; omega
      · rw [k2]; simp only [stepRound, hm, Mode.size]
        rw [sum_foldl_cons, hstep, Nat.mul_add]; omega
      · rw [k3]; simp [stepRound, hm, hr'.2, hstep, Nat.mul_add]; omega

/-- C03, bench mode with explicit sample size: calls = s · T · ⌈n/T⌉, samples = T · ⌈n/T⌉. -/
theorem calls_eq (o : Opts) (T prec s : Nat) (rs : List Round) (hT : 0 < T)
    (hs : o.sampleSize = some s) (hmin : o.minPicos = 0) (hskip : o.skipExt = false)
    (hmax : 0 < o.maxPicos) (hhas : hasSamples o = true)
    (hall : ∀ r ∈ rs, r.endSinceStart < o.maxPicos ∧ r.durs.length = T)
    (hlen : ceilDiv (o.sampleCount.getD defaultCount) T ≤ rs.length) :
    let n := o.sampleCount.getD defaultCount
    let fin := run false o T prec rs
    calls T fin = s * T * ceilDiv n T ∧ fin.samples.length = T * ceilDiv n T ∧ fin.sizes.length = ceilDiv n T := by
  have h0 : ¬ (o.maxPicos = 0) := by omega
  have := collect_rounds o T prec s hT hmin hskip rs (initSt false o) (o.sampleCount.getD defaultCount)
    (by simp [initSt, initialMode, hs]) (by simp [initSt, initialMode, hs]) (by simp [initSt])
    (by simp [initSt]; exact hmax) hall hlen
  simp only [] at this ⊢
  obtain ⟨k1, k2, k3, _⟩ := this
  simp only [run, h0, hhas, Bool.not_true, Bool.or_self, Bool.false_eq_true, if_false, decide_false]
  simp at k1 k2 k3
  refine ⟨?_, k3, k1⟩
  simp only [calls, k2]
  rw [Nat.mul_comm s T, Nat.mul_assoc]

/-- C03, zero cases: nothing runs. -/
theorem zero_cases_no_calls (isTest : Bool) (o : Opts) (T prec : Nat) (rs : List Round)
    (h : o.sampleCount = some 0 ∨ o.sampleSize = some 0 ∨ o.maxPicos = 0) :
    (run isTest o T prec rs).sizes = [] := by
  unfold run
  have : (o.maxPicos = 0 || !hasSamples o) = true := by
    rcases h with h | h | h <;> simp [hasSamples, h]
  simp only [this, if_true]; simp [initSt]

/-- C03, test mode: exactly one round of size 1 (one call per thread), nothing stored. -/
theorem test_mode_once (o : Opts) (T prec : Nat) (r : Round) (rs : List Round)
    (hmax : 0 < o.maxPicos) (hhas : hasSamples o = true) :
    let fin := run true o T prec (r :: rs)
    fin.sizes = [1] ∧ fin.samples = [] ∧ calls T fin = T := by
  have h0 : ¬ (o.maxPicos = 0) := by omega
  have hc : continues o (initSt true o) = true := by
    rw [continues_iff]; simp [initSt, initialMode]; exact hmax
  simp only [run, h0, hhas, Bool.not_true, Bool.or_self, Bool.false_eq_true, if_false, decide_false]
  simp only [runRounds, hc]
  simp [initSt, initialMode, stepRound, Mode.size]
  cases rs <;> simp [runRounds, calls]


/-! ### C04: the executed round count is the least one at which the condition fails -/

/-- state after unconditionally applying the first `k` rounds -/
def after (o : Opts) (T prec : Nat) (st : St) (rs : List Round) (k : Nat) : St :=
  (rs.take k).foldl (stepRound o T prec) st

def execCount (o : Opts) (T prec : Nat) : St → List Round → Nat
  | _, [] => 0
  | st, r :: rs =>
    if st.stopped || !continues o st then 0
    else 1 + execCount o T prec (stepRound o T prec st r) rs

theorem rounds_least (o : Opts) (T prec : Nat) : ∀ (rs : List Round) (st : St),
    let K := execCount o T prec st rs
    runRounds o T prec st rs = after o T prec st rs K ∧
    (∀ k, k < K → (after o T prec st rs k).stopped = false ∧ continues o (after o T prec st rs k) = true) ∧
    (K < rs.length → (after o T prec st rs K).stopped = true ∨ continues o (after o T prec st rs K) = false) := by
  intro rs
  induction rs with
  | nil => intro st; simp [execCount, runRounds, after]
  | cons r rs ih =>
    intro st
    by_cases hc : (st.stopped || !continues o st) = true
    · simp only [execCount, runRounds, hc, if_true]
      refine ⟨by simp [after], by intro k hk; omega, ?_⟩
      intro _; simp [after]
      cases hs : st.stopped <;> simp [hs] at hc ⊢; exact hc
    · have hc' : (st.stopped || !continues o st) = false := by simpa using hc
      have ⟨i1, i2, i3⟩ := ih (stepRound o T prec st r)
      simp only [execCount, runRounds, hc', Bool.false_eq_true, if_false]
      have shift : ∀ k, after o T prec st (r :: rs) (k+1) = after o T prec (stepRound o T prec st r) rs k := by
        intro k; simp [after]
      refine ⟨?_, ?_, ?_⟩
      · rw [Nat.add_comm, shift]; exact i1
      · intro k hk
        cases k with
        | zero =>
          simp [after]
          cases hs : st.stopped <;> simp [hs] at hc' ⊢; exact hc'
        | succ k => rw [shift]; exact i2 k (by omega)
      · intro hk; rw [Nat.add_comm, shift]; exact i3 (by simp at hk; omega)

/-! ### C19: tuning doubles the size until the slowest sample exceeds 100 × precision -/

def slowOK (prec : Nat) (r : Round) : Bool := maxList r.durs / prec ≤ tuneThreshold

/-- `j` tuning rounds below the threshold followed by one above it, the clock staying below `max_time`:
    sizes are 1, 2, …, 2^j; afterwards the mode is `collect 2^j`, exactly the T samples of that last
    round are stored, and the remaining-sample counter is `n - T`. -/
theorem tune_doubles (o : Opts) (T prec : Nat) (hskip : o.skipExt = false) :
    ∀ (pre : List Round) (last : Round) (st : St) (s : Nat),
      st.mode = .tune s → st.stopped = false → st.rem = none → st.elapsed < o.maxPicos →
      (∀ r ∈ pre, slowOK prec r = true ∧ r.endSinceStart < o.maxPicos) →
      slowOK prec last = false →
      let fin := runRounds o T prec st (pre ++ [last])
      fin.mode = .collect (s * 2 ^ pre.length) ∧
      fin.samples = last.durs.map (clampTo prec) ∧
      fin.rem = some (o.sampleCount.getD defaultCount - T) ∧
      fin.sizes = ((List.range (pre.length + 1)).map (fun i => s * 2 ^ i)).reverse ++ st.sizes := by
  intro pre
  induction pre with
  | nil =>
    intro last st s hm hs hr he _ hlast
    have hc : continues o st = true := by rw [continues_iff]; exact ⟨he, Or.inl (by simp [hr])⟩
    simp only [List.nil_append, runRounds, hs, hc, Bool.not_true, Bool.or_self, Bool.false_eq_true, if_false]
    simp [slowOK] at hlast
    have : ¬ (maxList last.durs / prec ≤ tuneThreshold) := by omega
    simp [stepRound, hm, this, Mode.size]
  | cons r pre ih =>
    intro last st s hm hs hr he hall hlast
    have hc : continues o st = true := by rw [continues_iff]; exact ⟨he, Or.inl (by simp [hr])⟩
    have hr' := hall r (by simp)
    have hok : maxList r.durs / prec ≤ tuneThreshold := by simpa [slowOK] using hr'.1
    simp only [List.cons_append, runRounds, hs, hc, Bool.not_true, Bool.or_self, Bool.false_eq_true, if_false]
    have key := ih last (stepRound o T prec st r) (s * 2)
      (by simp [stepRound, hm, hok]) (by simp [stepRound, hm]) (by simp [stepRound, hm, hok, hr])
      (by simp [stepRound, hm, hskip]; exact hr'.2)
      (fun r' h => hall r' (by simp [h])) hlast
    simp only [] at key ⊢
    obtain ⟨k1, k2, k3, k4⟩ := key
    refine ⟨?_, k2, k3, ?_⟩
    · rw [k1]; simp [Nat.pow_succ, Nat.mul_assoc, Nat.mul_comm 2]
    · rw [k4]
      simp only [stepRound, hm, Mode.size, List.length_cons]
      rw [List.range_succ_eq_map (n := pre.length + 1)]
      simp [List.map_map, Function.comp_def, Nat.pow_succ, Nat.mul_assoc, Nat.mul_comm 2]

end RoundLoop
