/-! Prototype: `EntryTree::from_benches` / `insert_entry` / `from_path` (C12). Core only.
    `E` = a registered entry (what the macro pushed), identified with its payload; a path is the list of
    module-path components (plus group / type components for generic benches). -/
namespace Registry

inductive Tree (E : Type) where
  | parent (raw : Nat) (group : Option Nat) (children : List (Tree E))
  | leaf (entry : E)

variable {E : Type}

/-- `from_path`: a chain of fresh parents ending in the leaf -/
def fromPath (e : E) : List Nat → Tree E
  | [] => .leaf e
  | m :: rest => .parent m none [fromPath e rest]

/-- `get_children` + recursive call: apply `f` to the children of the *first* parent whose raw name is `m` -/
def updFirst (m : Nat) (f : List (Tree E) → List (Tree E)) : List (Tree E) → Option (List (Tree E))
  | [] => none
  | .parent r g cs :: ts =>
    if r = m then some (.parent r g (f cs) :: ts)
    else (updFirst m f ts).map (Tree.parent r g cs :: ·)
  | .leaf e :: ts => (updFirst m f ts).map (Tree.leaf e :: ·)

/-- `insert_entry` -/
def insertEntry (e : E) : List Nat → List (Tree E) → List (Tree E)
  | [], t => t ++ [.leaf e]
  | m :: rest, t =>
    match updFirst m (insertEntry e rest) t with
    | some t' => t'
    | none => t ++ [.parent m none [fromPath e rest]]

/-- `from_benches`: entries in the order the (link-order dependent) list yields them -/
def fromBenches (es : List (List Nat × E)) : List (Tree E) :=
  es.foldl (fun t pe => insertEntry pe.2 pe.1 t) []

mutual
  def leavesT (pre : List Nat) : Tree E → List (List Nat × E)
    | .parent r _ cs => leavesF (pre ++ [r]) cs
    | .leaf e => [(pre, e)]
  def leavesF (pre : List Nat) : List (Tree E) → List (List Nat × E)
    | [] => []
    | t :: ts => leavesT pre t ++ leavesF pre ts
end

theorem leavesF_append (pre : List Nat) (a b : List (Tree E)) :
    leavesF pre (a ++ b) = leavesF pre a ++ leavesF pre b := by
  induction a with
  | nil => simp [leavesF]
  | cons x xs ih => simp [leavesF, ih]

theorem leaves_fromPath (e : E) (path pre : List Nat) : leavesT pre (fromPath e path) = [(pre ++ path, e)] := by
  induction path generalizing pre with
  | nil => simp [fromPath, leavesT]
  | cons m rest ih => simp [fromPath, leavesT, leavesF, ih]

open List in
theorem upd_leaves (m : Nat) (f : List (Tree E) → List (Tree E)) (pre : List Nat) (x : List Nat × E)
    (hf : ∀ cs, leavesF (pre ++ [m]) (f cs) ~ x :: leavesF (pre ++ [m]) cs) :
    ∀ (t t' : List (Tree E)), updFirst m f t = some t' → leavesF pre t' ~ x :: leavesF pre t := by
  intro t
  induction t with
  | nil => intro t' h; simp [updFirst] at h
  | cons node ts ih =>
    intro t' h
    cases node with
    | parent r g cs =>
      simp only [updFirst] at h
      by_cases hr : r = m
      · subst hr
        simp at h; subst h
        simp only [leavesF, leavesT]
        exact (hf cs).append_right _
      · simp [hr] at h
        obtain ⟨ts', hts, rfl⟩ := h
        have := ih ts' hts
        simp only [leavesF]
        exact (this.append_left _).trans perm_middle
    | leaf e =>
      simp only [updFirst] at h
      simp at h
      obtain ⟨ts', hts, rfl⟩ := h
      have := ih ts' hts
      simp only [leavesF]
      exact (this.append_left _).trans perm_middle

open List in
/-- inserting an entry adds exactly one leaf, at its path, and changes no other leaf -/
theorem insert_leaves (e : E) : ∀ (path pre : List Nat) (t : List (Tree E)),
    leavesF pre (insertEntry e path t) ~ (pre ++ path, e) :: leavesF pre t := by
  intro path
  induction path with
  | nil =>
    intro pre t
    simp only [insertEntry, leavesF_append, leavesF, leavesT, List.append_nil]
    exact perm_append_comm
  | cons m rest ih =>
    intro pre t
    simp only [insertEntry]
    cases h : updFirst m (insertEntry e rest) t with
    | some t' =>
      simp only []
      have := upd_leaves m (insertEntry e rest) pre (pre ++ m :: rest, e)
        (by intro cs; have := ih (pre ++ [m]) cs; simpa using this) t t' h
      exact this
    | none =>
      simp only [leavesF_append, leavesF, leavesT, List.append_nil]
      rw [leaves_fromPath]
      simp only [List.append_assoc, List.singleton_append]
      exact perm_append_comm

open List in
/-- C12: the leaves of the built tree are exactly the registered entries, each once, at its path. -/
theorem leaves_fromBenches (es : List (List Nat × E)) : leavesF [] (fromBenches es) ~ es := by
  have gen : ∀ (es : List (List Nat × E)) (t : List (Tree E)),
      leavesF [] (es.foldl (fun t pe => insertEntry pe.2 pe.1 t) t) ~ leavesF [] t ++ es := by
    intro es
    induction es with
    | nil => intro t; simp
    | cons pe es ih =>
      intro t
      simp only [List.foldl_cons]
      have h1 := ih (insertEntry pe.2 pe.1 t)
      have h2 := insert_leaves pe.2 pe.1 [] t
      simp only [List.nil_append] at h2
      refine h1.trans ?_
      refine (h2.append_right es).trans ?_
      simp only [List.cons_append]
      exact perm_middle.symm
  have := gen es []
  simpa [fromBenches, leavesF] using this

open List in
/-- C12: the result does not depend on link / constructor order — any two registration orders give trees
    with the same leaves (as multisets of (path, entry)). -/
theorem order_independent (es es' : List (List Nat × E)) (h : es ~ es') :
    leavesF [] (fromBenches es) ~ leavesF [] (fromBenches es') :=
  (leaves_fromBenches es).trans (h.trans (leaves_fromBenches es').symm)

end Registry
