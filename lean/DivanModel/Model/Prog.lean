import DivanModel.Model.NatCmp
import DivanModel.Model.ArgName
import DivanModel.Model.Filter
import DivanModel.Model.Paint
/-! Executable model of divan's front end, from registered entries to printed output and executed
    benchmark calls: `EntryList` iteration order, `EntryTree::from_benches` / `insert_group` /
    `retain` / `sort_by_attr` (`cmp_by_attr`), `FilterSet::is_match`, `BenchOptions::overwrite`, the
    walks `run_tree_list` / `run_tree` / `run_bench_entry`, thread-count normalisation and the
    `TreePainter` (exact text without columns; canonical text with columns).
    Mirrors the code that exists, including its defects (each marked `-- F<n>`). Core only. -/
namespace Prog
open NatCmp

/-! ### data -/

/-- `BenchOptions` (`counters` in `KnownCounterKind::ALL` order: bytes, chars, cycles, items) -/
structure Opts where
  sc : Option Nat := none
  ss : Option Nat := none
  th : Option (List Nat) := none
  ig : Option Bool := none
  maxt : Option Nat := none
  mint : Option Nat := none
  sk : Option Bool := none
  bytes : Option Nat := none
  chars : Option Nat := none
  cycles : Option Nat := none
  items : Option Nat := none
  deriving Repr, DecidableEq, Inhabited

/-- `self.overwrite(other)`: every field of `self` that is set wins, independently -/
def Opts.overwrite (self other : Opts) : Opts :=
  { sc := self.sc.or other.sc, ss := self.ss.or other.ss, th := self.th.or other.th,
    ig := self.ig.or other.ig, maxt := self.maxt.or other.maxt, mint := self.mint.or other.mint,
    sk := self.sk.or other.sk, bytes := self.bytes.or other.bytes, chars := self.chars.or other.chars,
    cycles := self.cycles.or other.cycles, items := self.items.or other.items }

structure Loc where
  file : String
  line : Nat
  col : Nat
  deriving Repr, DecidableEq, Inhabited

def bytesOf (s : String) : List Nat := s.toUTF8.toList.map (·.toNat)

/-- Rust `str::cmp` (bytewise) -/
def strCmp (a b : String) : Ordering := lexCmp (fun x y => compare x y) (bytesOf a) (bytesOf b)

def thenCmp (a b : Ordering) : Ordering := match a with | .eq => b | o => o

/-- derived `Ord` of `EntryLocation` -/
def Loc.cmp (a b : Loc) : Ordering :=
  thenCmp (strCmp a.file b.file) (thenCmp (compare a.line b.line) (compare a.col b.col))

structure Meta where
  modPath : List String
  raw : String
  disp : String
  loc : Loc
  opts : Option Opts
  deriving Repr, Inhabited

inductive Const
  | int (v : Int)
  | str (v : String)
  | chr (v : Nat)          -- code point
  deriving Repr, DecidableEq, Inhabited

def Const.name : Const → String
  | .int v => toString v
  | .str v => v
  | .chr v => String.singleton (Char.ofNat v)

/-- a runnable entry: a `BenchEntry`, or one `GenericBenchEntry` of a generic group -/
structure Bench where
  slot : Nat                       -- registration slot (identity; address order inside one generic group)
  gmeta : Meta                     -- own meta, or the group's meta for a generic entry
  generic : Bool
  ty : Option String               -- raw `type_name`
  const : Option Const
  args : Option (List String)      -- `Some names` for `BenchEntryRunner::Args`
  deriving Repr, Inhabited

structure Group where
  gid : Nat
  gmeta : Meta
  benches : List Bench             -- generic instances in slice order (types-major)
  deriving Repr, Inhabited

/-- `EntryType::display_name`: strip leading module components, not past a `<` -/
partial def typeDisplay (raw : String) : String :=
  match raw.splitOn "::" with
  | [] | [_] => raw
  | prev :: rest => if prev.contains '<' then raw else typeDisplay ("::".intercalate rest)

def stripRaw (s : String) : String := if s.startsWith "r#" then (s.drop 2).toString else s

def Bench.rawName (b : Bench) : String :=
  if b.generic then (match b.const, b.ty with
    | some c, _ => c.name
    | none, some t => t
    | none, none => "?") else b.gmeta.raw

def Bench.dispName (b : Bench) : String :=
  if b.generic then (match b.const, b.ty with
    | some c, _ => c.name
    | none, some t => typeDisplay t
    | none, none => "?") else b.gmeta.disp

/-- `path_components` -/
def Bench.path (b : Bench) : List String :=
  if b.generic then
    b.gmeta.modPath ++ [b.gmeta.raw] ++ (match b.const, b.ty with | some _, some t => [typeDisplay t] | _, _ => [])
  else b.gmeta.modPath

inductive Tree
  | parent (raw : String) (group : Option Group) (children : List Tree)
  | leaf (entry : Bench) (args : Option (List Nat))    -- argument *indices* into the names slice
  deriving Inhabited

/-! ### `from_benches`, `insert_group` -/

/-- `from_path` -/
def fromPath (e : Bench) : List String → Tree
  | [] => .leaf e (e.args.map fun ns => List.range ns.length)
  | m :: rest => .parent m none [fromPath e rest]

mutual
/-- `insert_entry`: descend into the *first* parent whose raw name matches -/
def insertEntry (tree : List Tree) (e : Bench) : List String → List Tree
  | [] => tree ++ [.leaf e (e.args.map fun ns => List.range ns.length)]
  | m :: rest => insertInto tree e m rest
def insertInto : List Tree → Bench → String → List String → List Tree
  | [], e, m, rest => [fromPath e (m :: rest)]
  | (.parent raw g ch) :: ts, e, m, rest =>
    if raw = m then .parent raw g (insertEntry ch e rest) :: ts
    else .parent raw g ch :: insertInto ts e m rest
  | t :: ts, e, m, rest => t :: insertInto ts e m rest
end

def fromBenches (bs : List Bench) : List Tree := bs.foldl (fun t b => insertEntry t b b.path) []

mutual
/-- `insert_group`: follow the module path through first-matching parents, then set the slot of the
    first parent whose raw name is the group's raw name -/
def insertGroup (tree : List Tree) (g : Group) : List String → List Tree
  | [] => setSlot tree g
  | m :: rest => descend tree g m rest
def descend : List Tree → Group → String → List String → List Tree
  | [], _, _, _ => []
  | (.parent raw gr ch) :: ts, g, m, rest =>
    if raw = m then .parent raw gr (insertGroup ch g rest) :: ts
    else .parent raw gr ch :: descend ts g m rest
  | t :: ts, g, m, rest => t :: descend ts g m rest
def setSlot : List Tree → Group → List Tree
  | [], _ => []
  | (.parent raw gr ch) :: ts, g =>
    if raw = g.gmeta.raw then .parent raw (some g) ch :: ts else .parent raw gr ch :: setSlot ts g
  | t :: ts, g => t :: setSlot ts g
end

/-! ### node attributes -/

def Tree.meta? : Tree → Option Meta
  | .parent _ g _ => g.map (·.gmeta)
  | .leaf e _ => some e.gmeta

def Tree.dispName : Tree → String
  | .leaf e _ => e.dispName
  | .parent raw g _ => match g with
    | some g => g.gmeta.disp
    | none => stripRaw raw

def Tree.opts? (t : Tree) : Option Opts := t.meta?.bind (·.opts)

def minLoc : List Loc → Option Loc
  | [] => none
  | x :: xs => match minLoc xs with
    | none => some x
    | some m => if x.cmp m == .gt then some m else some x

mutual
/-- `location()`: own meta's, else the minimum over the children -/
def Tree.location : Tree → Option Loc
  | .leaf e _ => some e.gmeta.loc
  | .parent _ (some g) _ => some g.gmeta.loc
  | .parent _ none ch => minLoc (locations ch)
def locations : List Tree → List Loc
  | [] => []
  | t :: ts => (match t.location with | some l => [l] | none => []) ++ locations ts
end

/-- abstract address of the entry behind a node (`entry_addr`): benches by slot, groups after them -/
def Tree.addr? : Tree → Option Nat
  | .leaf e _ => some e.slot
  | .parent _ (some g) _ => some (1000000 + g.gid)
  | .parent _ none _ => none

def Tree.kind : Tree → Nat | .leaf .. => 0 | .parent .. => 1

def constCmp : Const → Const → Option Ordering
  | .int a, .int b => some (compare a b)
  | .str a, .str b => some (strCmp a b)
  | .chr a, .chr b => some (compare a b)
  | _, _ => none

/-- `cmp_display_name` -/
def cmpDisplayName (a b : Tree) : Ordering :=
  let nat := naturalCmp (bytesOf a.dispName) (bytesOf b.dispName)
  match a, b with
  | .leaf ea _, .leaf eb _ =>
    if ea.generic && eb.generic then
      match ea.const, eb.const with
      | some ca, some cb =>
        (match constCmp ca cb with
          | some o => if o != .eq then o else naturalCmp (bytesOf ca.name) (bytesOf cb.name)
          | none => naturalCmp (bytesOf ca.name) (bytesOf cb.name))
      | _, _ => nat
    else nat
  | _, _ => nat

def optLocCmp : Option Loc → Option Loc → Ordering
  | none, none => .eq
  | none, some _ => .lt
  | some _, none => .gt
  | some a, some b => a.cmp b

def tieBreakers : Nat → List Nat
  | 0 => [0, 1, 2]
  | 1 => [1, 2, 0]
  | _ => [2, 0, 1]

/-- order of the entries' addresses, when both nodes have an entry -/
def addrOrd (a b : Tree) : Option Ordering :=
  match a.addr?, b.addr? with
  | some x, some y => some (compare x y)
  | _, _ => none

/-- one attribute of `cmp_by_attr` (0 kind, 1 name, 2 location with the address tie-break) -/
def attrCmp (a b : Tree) (at' : Nat) : Ordering :=
  match at' with
  | 0 => compare a.kind b.kind
  | 1 => cmpDisplayName a b
  | _ => let l := optLocCmp a.location b.location
         if l == .eq then (addrOrd a b).getD .eq else l

/-- lexicographic combination of the attributes in the given order -/
def lexAttrs (a b : Tree) (l : List Nat) : Ordering :=
  l.foldl (fun acc at' => thenCmp acc (attrCmp a b at')) .eq

/-- `cmp_by_attr` (attr: 0 kind, 1 name, 2 location) -/
def cmpByAttr (attr : Nat) (a b : Tree) : Ordering :=
  if addrOrd a b == some .eq then .eq else lexAttrs a b (tieBreakers attr)

def applyRev (rev : Bool) (o : Ordering) : Ordering := if rev then o.swap else o

/-! ### `retain` -/

def joinPath (parent name : String) : String := if parent.isEmpty then name else parent ++ "::" ++ name

mutual
def retainTree (f : String → Bool) (parentPath : String) : Tree → Option Tree
  | .parent raw g ch =>
    let p := joinPath parentPath (Tree.dispName (.parent raw g ch))
    let ch' := retainList f p ch
    if ch'.isEmpty then none else some (.parent raw g ch')
  | .leaf e none => if f (joinPath parentPath e.dispName) then some (.leaf e none) else none
  | .leaf e (some args) =>
    let p := joinPath parentPath e.dispName
    let names := e.args.getD []
    let args' := args.filter fun i => f (p ++ "::" ++ names.getD i "")
    if args'.isEmpty then none else some (.leaf e (some args'))
def retainList (f : String → Bool) (parentPath : String) : List Tree → List Tree
  | [] => []
  | t :: ts => (match retainTree f parentPath t with | some t' => [t'] | none => []) ++ retainList f parentPath ts
end

/-! ### `sort_by_attr` -/

def argNames (e : Bench) : List ArgName.Name :=
  (e.args.getD []).map fun s => { bytes := bytesOf s, f := none }

mutual
def sortTree (attr : Nat) (rev : Bool) (fbits : String → Option Nat) : Tree → Tree
  | .parent raw g ch => .parent raw g (sortList attr rev fbits ch)
  | .leaf e none => .leaf e none
  | .leaf e (some args) =>
    let names : List ArgName.Name := (e.args.getD []).map fun s => { bytes := bytesOf s, f := fbits s }
    .leaf e (some (args.mergeSort fun i j => applyRev rev (ArgName.cmpArgs attr names i j) != .gt))
def sortList (attr : Nat) (rev : Bool) (fbits : String → Option Nat) : List Tree → List Tree
  | ts => (sortEach attr rev fbits ts).mergeSort fun a b => applyRev rev (cmpByAttr attr a b) != .gt
def sortEach (attr : Nat) (rev : Bool) (fbits : String → Option Nat) : List Tree → List Tree
  | [] => []
  | t :: ts => sortTree attr rev fbits t :: sortEach attr rev fbits ts
end

/-- do two distinct siblings compare `Equal` anywhere? (then `sort_unstable_by` may order them either way) -/
partial def ambiguous (attr : Nat) : List Tree → Bool
  | ts =>
    let n := ts.length
    (List.range n).any (fun i => (List.range n).any fun j => i < j && cmpByAttr attr (ts.getD i default) (ts.getD j default) == .eq)
    || ts.any fun t => match t with | .parent _ _ ch => ambiguous attr ch | _ => false

/-! ### filters -/

inductive Atom | lit (c : Char) | any
  deriving Repr

structure Alt where
  anchorStart : Bool
  atoms : List Atom
  anchorEnd : Bool
  deriving Repr

/-- the small regex grammar the generator emits: `alt ('|' alt)*`, alt = `^`? atom* `$`?, atom = `\c` | `.` | c -/
def parseAlt (cs : List Char) : Alt :=
  let (st, cs) := match cs with | '^' :: r => (true, r) | _ => (false, cs)
  let rec atoms : List Char → List Atom × Bool
    | [] => ([], false)
    | ['$'] => ([], true)
    | '\\' :: c :: r => let (a, e) := atoms r; (.lit c :: a, e)
    | '.' :: r => let (a, e) := atoms r; (.any :: a, e)
    | c :: r => let (a, e) := atoms r; (.lit c :: a, e)
  let (a, e) := atoms cs
  ⟨st, a, e⟩

def splitAlts (cs : List Char) : List (List Char) :=
  let rec go (cur : List Char) (acc : List (List Char)) : List Char → List (List Char)
    | [] => (cur.reverse :: acc).reverse
    | '\\' :: c :: r => go (c :: '\\' :: cur) acc r
    | '|' :: r => go [] (cur.reverse :: acc) r
    | c :: r => go (c :: cur) acc r
  go [] [] cs

def matchAtoms : List Atom → List Char → Option (List Char)
  | [], s => some s
  | _ :: _, [] => none
  | .lit c :: as, x :: xs => if c = x then matchAtoms as xs else none
  | .any :: as, x :: xs => if x = '\n' then none else matchAtoms as xs

def altMatches (a : Alt) (s : List Char) : Bool :=
  let try1 (t : List Char) : Bool := match matchAtoms a.atoms t with
    | some rest => !a.anchorEnd || rest.isEmpty
    | none => false
  if a.anchorStart then try1 s
  else
    let rec search : List Char → Bool
      | [] => try1 []
      | c :: cs => try1 (c :: cs) || search cs
    search s

def regexSearch (pat s : String) : Bool :=
  (splitAlts pat.toList).any fun alt => altMatches (parseAlt alt) s.toList

structure FilterSpec where
  exact : Bool
  text : String
  deriving Repr

def FilterSpec.matches (f : FilterSpec) (p : String) : Bool :=
  if f.exact then f.text == p else regexSearch f.text p

/-- `FilterSet` as built by the given `include`(true)/`exclude`(false) call sequence -/
def filterSet (ops : List (FilterSpec × Bool)) : Filter.SplitVec FilterSpec := Filter.build ops

def isSelected (fs : Filter.SplitVec FilterSpec) (p : String) : Bool :=
  Filter.isMatch (fun f q => f.matches q) fs p

/-! ### run configuration -/

inductive Action | bench | test | list | terse
  deriving DecidableEq, Repr

/-- 0 = skip ignored (default), 1 = `--include-ignored`, 2 = `--ignored` -/
def shouldIgnore (runIgnored : Nat) (ignored : Bool) : Bool :=
  !(if ignored then runIgnored != 0 else runIgnored != 2)

structure Cfg where
  action : Action
  attr : Nat := 0
  rev : Bool := false
  runIgnored : Nat := 0
  runtime : Opts := {}
  filters : List (FilterSpec × Bool) := []
  parallelism : Nat := 1
  deriving Repr

/-! ### the painter -/

/-! The painter itself is `Model/Paint.lean` (exact). In bench mode the measured cells are replaced by
    class tokens (`T`, `R:<unit>`), and both sides are compared after collapsing runs of spaces. -/
open Paint

/-- `finish_leaf` with canonical cells: four time cells `T`, samples, iters; then one row per counter kind -/
def canonCells (samples iters : Nat) (counterUnits : List String) : Cells :=
  { main := ["T", "T", "T", "T", toString samples, toString iters]
    counters := counterUnits.map fun u => ["R:" ++ u, "R:" ++ u, "R:" ++ u, "R:" ++ u, "", ""] }

/-- `EntryTree::max_name_span` -/
partial def maxNameSpan (depth : Nat) : List Tree → Nat
  | ts => ts.foldl (fun m t =>
    let own := depth * 3 + t.dispName.length
    let (ch, args) := match t with
      | .parent _ _ ch => (maxNameSpan (depth + 1) ch, 0)
      | .leaf e (some is) => (0, is.foldl (fun m i => max m ((depth + 1) * 3 + ((e.args.getD []).getD i "").length)) 0)
      | .leaf _ none => (0, 0)
    max m (max own (max ch args))) 0

/-! ### the walks -/

/-- one executed `Bencher` call site: slot, argument value, number of calls, distinct threads -/
structure Exec where
  slot : Nat
  arg : Option String
  calls : Nat
  threads : Nat
  deriving Repr, DecidableEq, Inhabited

/-- `Vec::dedup`: remove consecutive repeats -/
def dedupAdj : List Nat → List Nat
  | [] => []
  | [x] => [x]
  | x :: y :: r => if x = y then dedupAdj (y :: r) else x :: dedupAdj (y :: r)

/-- thread-count normalisation of `run_bench_entry`: `0 ↦ available parallelism`, sort, dedup,
    empty ↦ one thread -/
def threadCounts (th : Option (List Nat)) (par : Nat) : List Nat :=
  let l := ((th.getD []).map fun n => if n = 0 then par else n).mergeSort (· ≤ ·)
  let l := dedupAdj l
  if l.isEmpty then [1] else l

def ceilDiv (a b : Nat) : Nat := (a + b - 1) / b

/-- calls made by one `Bencher::bench` under the resolved options on `t` threads (explicit sample size,
    no time limit reached - the generator stays inside; C03 is the property behind this formula) -/
def callsOf (act : Action) (o : Opts) (t : Nat) : Nat × Nat × Nat :=   -- calls, samples, iters
  if o.maxt = some 0 ∨ o.sc = some 0 ∨ o.ss = some 0 then (0, 0, 0) else
  match act with
  | .bench =>
    let n := o.sc.getD 100
    let s := o.ss.getD 1
    let smp := t * ceilDiv n t
    (s * smp, smp, s * smp)
  | _ => (t, 0, 0)

def counterUnits (o : Opts) : List String :=
  (if o.bytes.isSome then ["B/s"] else []) ++ (if o.chars.isSome then ["char/s"] else []) ++
  (if o.cycles.isSome then ["Hz"] else []) ++ (if o.items.isSome then ["item/s"] else [])

structure W where
  p : P
  execs : List Exec := []      -- in reverse order
  labels : List Nat := []      -- per exec (same order): index of the output line carrying its label
  cases : List String := []    -- ghost: full display path of every case handed to a `Bencher` (reverse order)

def lineCount (s : String) : Nat := (s.toList.filter (· = '\n')).length

/-- the loop over thread counts inside `run_bench` -/
def runThreads (cfg : Cfg) (o : Opts) (slot : Nat) (arg : Option String) (branches isLast : Bool) :
    List Nat → P → List Exec → P × List Exec
  | [], p, ex => (p, ex)
  | t :: ts, p, ex =>
    let lastT := if branches then ts.isEmpty else isLast
    let p := if branches then p.startLeaf s!"t={t}" lastT else p
    let (calls, smp, it) := callsOf cfg.action o t
    let p := if cfg.action = .bench then p.finishLeaf lastT (canonCells smp it (counterUnits o)) else p.finishEmptyLeaf
    runThreads cfg o slot arg branches isLast ts p (⟨slot, arg, calls, if calls = 0 then 0 else t⟩ :: ex)

/-- the `run_bench` closure of `run_bench_entry`: one `Bencher` per thread count -/
def runBench (cfg : Cfg) (o : Opts) (w : W) (slot : Nat) (arg : Option String) (name : String) (isLast : Bool)
    (path : String) : W :=
  let tcs := threadCounts o.th cfg.parallelism
  let branches := tcs.length > 1
  let labelLine := lineCount w.p.out
  let p := if branches then w.p.startParent name isLast else w.p.startLeaf name isLast
  let r := runThreads cfg o slot arg branches isLast tcs p w.execs
  let p := if branches then r.1.finishParent else r.1
  { p := p, execs := r.2, labels := List.replicate tcs.length labelLine ++ w.labels, cases := path :: w.cases }

/-- "user runtime options override all other options" -/
def effOpts (cfg : Cfg) (entryOpts : Option Opts) : Opts :=
  match entryOpts with | none => cfg.runtime | some eo => cfg.runtime.overwrite eo

/-- the loop over the surviving argument indices: the label printed and the value handed to the
    function are both `names[i]`, `i` being the index recovered from the name pointer -/
def runArgs (cfg : Cfg) (o : Opts) (slot : Nat) (names : List String) (full : String) : List Nat → W → W
  | [], w => w
  | i :: rest, w =>
    let nm := names.getD i ""
    runArgs cfg o slot names full rest (runBench cfg o w slot (some nm) nm rest.isEmpty (full ++ "::" ++ nm))

/-- `run_bench_entry` -/
def runBenchEntry (cfg : Cfg) (w : W) (e : Bench) (args : Option (List Nat)) (entryOpts : Option Opts) (isLast : Bool)
    (full : String) : W :=
  let o := effOpts cfg entryOpts
  if shouldIgnore cfg.runIgnored (o.ig.getD false) then { w with p := w.p.ignoreLeaf e.dispName isLast } else
  if cfg.action = .list then { w with p := (w.p.startLeaf e.dispName isLast).finishEmptyLeaf } else   -- F9: no argument cases
  match e.args with
  | none => runBench cfg o w e.slot none e.dispName isLast full
  | some names =>
    let w := { w with p := w.p.startParent e.dispName isLast }
    let w := runArgs cfg o e.slot names full (args.getD []) w
    { w with p := w.p.finishParent }

/-- the option descent shared by `run_tree` and (repaired) `run_tree_list`: the child's options
    overwrite the parent's, field by field -/
def descendOpts (parentOpts childOpts : Option Opts) : Option Opts :=
  match parentOpts, childOpts with
  | none, none => none
  | some o, none => some o
  | none, some o => some o
  | some po, some co => some (co.overwrite po)

mutual
/-- `run_tree` (`parentPath` is ghost: it only feeds `W.cases`) -/
def runTree (cfg : Cfg) (w : W) (parentOpts : Option Opts) (parentPath : String) : List Tree → W
  | [] => w
  | t :: ts =>
    let w := runNode cfg w parentOpts parentPath t ts.isEmpty
    runTree cfg w parentOpts parentPath ts
def runNode (cfg : Cfg) (w : W) (parentOpts : Option Opts) (parentPath : String) (t : Tree) (isLast : Bool) : W :=
  let o := descendOpts parentOpts t.opts?
  let full := joinPath parentPath t.dispName
  match t with
  | .leaf e args => runBenchEntry cfg w e args o isLast full
  | .parent _ _ ch =>
    let w := { w with p := w.p.startParent t.dispName isLast }
    let w := runTree cfg w o full ch
    { w with p := w.p.finishParent }
end

mutual
/-- `run_tree_list` (repaired, F4): options are resolved while descending exactly like `run_tree`,
    the ignore decision is taken at the leaves exactly like `run_bench_entry` -/
def terseList (cfg : Cfg) (parentOpts : Option Opts) (parentPath : String) : List Tree → List String
  | [] => []
  | t :: ts => terseNode cfg parentOpts parentPath t ++ terseList cfg parentOpts parentPath ts
def terseNode (cfg : Cfg) (parentOpts : Option Opts) (parentPath : String) (t : Tree) : List String :=
  let o := descendOpts parentOpts t.opts?
  let full := joinPath parentPath t.dispName
  match t with
  | .parent _ _ ch => terseList cfg o full ch
  | .leaf e args =>
    if shouldIgnore cfg.runIgnored ((effOpts cfg o).ig.getD false) then [] else
    match e.args with
    | none => [full ++ ": benchmark"]
    | some names => (args.getD []).map fun i => full ++ "::" ++ names.getD i "" ++ ": benchmark"
end

/-! ### the whole run -/

structure Program where
  benches : List Bench          -- `BENCH_ENTRIES.iter()` order
  groups : List Group           -- `GROUP_ENTRIES.iter()` order
  deriving Repr

def buildTree (pr : Program) : List Tree :=
  let all := pr.benches ++ pr.groups.flatMap (·.benches)
  let t := fromBenches all
  pr.groups.foldl (fun t g => insertGroup t g g.gmeta.modPath) t

structure Result where
  out : String
  execs : List Exec
  ambiguous : Bool
  labels : List Nat := []

def run (pr : Program) (cfg : Cfg) (fbits : String → Option Nat) : Result :=
  let tree := buildTree pr
  let fs := filterSet cfg.filters
  let tree := retainList (isSelected fs) "" tree
  if tree.isEmpty then ⟨"", [], false, []⟩ else
  if cfg.action = .terse then
    ⟨"".intercalate ((terseList cfg none "" tree).map (· ++ "\n")), [], false, []⟩
  else
  let amb := ambiguous cfg.attr tree
  let tree := sortList cfg.attr cfg.rev fbits tree
  let p : P := { maxSpan := maxNameSpan 0 tree,
                 widths := if cfg.action = .bench then [13, 13, 13, 13, 3, 0] else [0, 0, 0, 0, 0, 0] }
  let w := runTree cfg { p := p } none "" tree
  ⟨w.p.out, w.execs.reverse, amb, w.labels.reverse⟩

end Prog
