/-! Model of `EntryList::push` (`src/entry/list.rs`): the lock-free intrusive list every
    `#[divan::bench]` / `#[divan::bench_group]` constructor pushes its entry onto, possibly at the same
    time as other constructors (dynamic libraries loaded from several threads; the `elist` lab does
    it deliberately). Core only.

    One step of a thread is one atomic access: load the head, store it into the new node's `next`,
    `compare_exchange_weak` on the head (which may fail spuriously), and on failure go round again
    with the value the failed exchange returned. -/
namespace EList

inductive PC
  | idle                          -- about to `self.next.load()`
  | loaded (old : Option Nat)     -- holds `old_next`, about to `other.next.store(old_next)`
  | stored (old : Option Nat)     -- about to `compare_exchange_weak(old_next, other)`
  deriving DecidableEq, Repr

structure St where
  head : Option Nat
  next : Nat → Option Nat
  pc   : Nat → PC
  todo : Nat → List Nat      -- the nodes thread `t` still has to push; the first one is in flight
  done : List Nat            -- completed pushes, newest first (history variable, not program state)

def upd {α : Type} (f : Nat → α) (i : Nat) (v : α) : Nat → α := fun j => if j = i then v else f j

@[simp] theorem upd_same {α : Type} (f : Nat → α) (i : Nat) (v : α) : upd f i v i = v := by simp [upd]
theorem upd_other {α : Type} (f : Nat → α) (i j : Nat) (v : α) (h : j ≠ i) : upd f i v j = f j := by simp [upd, h]

/-- one atomic step of thread `t`; `spur`: this `compare_exchange_weak` fails although the head is as expected -/
def step (s : St) (t : Nat) (spur : Bool) : St :=
  match s.todo t with
  | [] => s
  | n :: rest =>
    match s.pc t with
    | .idle => { s with pc := upd s.pc t (.loaded s.head) }
    | .loaded old => { s with next := upd s.next n old, pc := upd s.pc t (.stored old) }
    | .stored old =>
      if s.head = old ∧ spur = false then
        { s with head := some n, pc := upd s.pc t .idle, todo := upd s.todo t rest, done := n :: s.done }
      else
        { s with pc := upd s.pc t (.loaded s.head) }

def run (s : St) (sched : List (Nat × Bool)) : St := sched.foldl (fun s x => step s x.1 x.2) s

/-- empty list, thread `t` is to push `work t` -/
def init (work : Nat → List Nat) : St :=
  { head := none, next := fun _ => none, pc := fun _ => .idle, todo := work, done := [] }

/-- what a reader walking the list from the head sees -/
def walk (next : Nat → Option Nat) : Nat → Option Nat → List Nat
  | 0, _ => []
  | _, none => []
  | fuel + 1, some n => n :: walk next fuel (next n)

/-- the seeded defect S4-C12: a plain store instead of the exchange -/
def stepLossy (s : St) (t : Nat) : St :=
  match s.todo t with
  | [] => s
  | n :: rest =>
    match s.pc t with
    | .idle => { s with pc := upd s.pc t (.loaded s.head) }
    | .loaded old => { s with next := upd s.next n old, pc := upd s.pc t (.stored old) }
    | .stored _ => { s with head := some n, pc := upd s.pc t .idle, todo := upd s.todo t rest, done := n :: s.done }

end EList
