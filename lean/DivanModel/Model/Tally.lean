/-! Prototype: `ThreadAllocInfo` tally arithmetic (C10) and the transparent wrapper (C09). Core only. -/
namespace Tally

inductive Op
  | alloc (size : Nat)            -- also alloc_zeroed
  | dealloc (size : Nat)
  | realloc (old new : Nat)
  deriving Repr

structure T where
  allocC : Nat := 0
  allocS : Nat := 0
  deallocC : Nat := 0
  deallocS : Nat := 0
  growC : Nat := 0
  growS : Nat := 0
  shrinkC : Nat := 0
  shrinkS : Nat := 0
  curC : Int := 0
  maxC : Int := 0
  curS : Int := 0
  maxS : Int := 0
  deriving Repr

/-- `tally_alloc` / `tally_dealloc` / `tally_realloc`, on unbounded integers (the code assumes no overflow) -/
def step (t : T) : Op → T
  | .alloc sz =>
    { t with allocC := t.allocC + 1, allocS := t.allocS + sz,
             curC := t.curC + 1, maxC := max t.maxC (t.curC + 1),
             curS := t.curS + sz, maxS := max t.maxS (t.curS + sz) }
  | .dealloc sz =>
    { t with deallocC := t.deallocC + 1, deallocS := t.deallocS + sz,
             curC := t.curC - 1, curS := t.curS - sz }
  | .realloc old new =>
    -- `overflowing_sub`: shrink iff new < old; `wrapping_abs` of the difference
    if new < old then
      { t with shrinkC := t.shrinkC + 1, shrinkS := t.shrinkS + (old - new),
               curS := t.curS + ((new : Int) - old), maxS := max t.maxS (t.curS + ((new : Int) - old)) }
    else
      { t with growC := t.growC + 1, growS := t.growS + (new - old),
               curS := t.curS + ((new : Int) - old), maxS := max t.maxS (t.curS + ((new : Int) - old)) }

def run (t : T) (ops : List Op) : T := ops.foldl step t

/-! specification-side functions: plain sums over the operation list -/
def dC : Op → Int | .alloc _ => 1 | .dealloc _ => -1 | .realloc _ _ => 0
def dS : Op → Int | .alloc s => s | .dealloc s => -(s : Int) | .realloc o n => (n : Int) - o
def liveC (ops : List Op) : Int := (ops.map dC).foldl (· + ·) 0
def liveS (ops : List Op) : Int := (ops.map dS).foldl (· + ·) 0

def nAlloc : Op → Nat | .alloc _ => 1 | _ => 0
def sAlloc : Op → Nat | .alloc s => s | _ => 0
def nDealloc : Op → Nat | .dealloc _ => 1 | _ => 0
def sDealloc : Op → Nat | .dealloc s => s | _ => 0
def nGrow : Op → Nat | .realloc o n => if n < o then 0 else 1 | _ => 0
def sGrow : Op → Nat | .realloc o n => if n < o then 0 else n - o | _ => 0
def nShrink : Op → Nat | .realloc o n => if n < o then 1 else 0 | _ => 0
def sShrink : Op → Nat | .realloc o n => if n < o then o - n else 0 | _ => 0
def total (f : Op → Nat) (ops : List Op) : Nat := (ops.map f).foldl (· + ·) 0

/-! per-thread isolation: the tallies are a map thread ↦ T and an operation touches one entry -/
def stepAt (m : Nat → T) (tid : Nat) (op : Op) : Nat → T := fun j => if j = tid then step (m j) op else m j

/-! C09: the profiler as a function on requests. `Req` is what reaches the wrapper, `fwd` what it
    passes on; the tally side effect is `step` above (skipped when the thread slot is unavailable). -/
inductive Req
  | alloc (size align : Nat)
  | allocZeroed (size align : Nat)
  | realloc (ptr size align new : Nat)
  | dealloc (ptr size align : Nat)
  deriving DecidableEq, Repr

/-- what `AllocProfiler` forwards to the wrapped allocator -/
def fwd (r : Req) : Req := r

/-- the tally operation a request performs -/
def opOf : Req → Op
  | .alloc s _ => .alloc s
  | .allocZeroed s _ => .alloc s
  | .realloc _ s _ n => .realloc s n
  | .dealloc _ s _ => .dealloc s

/-- one profiled request: `slot` = is the thread's tally slot available; `inner` = the wrapped
    allocator's answer to the forwarded request. Returns (new tally, forwarded request, returned value). -/
def profile (slot : Bool) (t : T) (r : Req) (inner : Req → Nat) : T × Req × Nat :=
  (if slot then step t (opOf r) else t, fwd r, inner (fwd r))

end Tally
