import DivanModel.Model.NatCmp
/-! Combinators for lawful three-way comparators (`NatCmp.IsCmp`: antisymmetric, transitive, and
    `Equal` is a congruence), used to assemble the entry-tree comparator of C16. Core only. -/
namespace NatCmp

def thenO (a b : Ordering) : Ordering := match a with | .eq => b | o => o

theorem thenO_swap (a b : Ordering) : (thenO a b).swap = thenO a.swap b.swap := by cases a <;> rfl

variable {α : Type} {P : α → Prop} {c : α → α → Ordering}

theorem IsCmp.lt_of_lt_of_le (h : IsCmp P c) {a b x : α} (ha : P a) (hb : P b) (hx : P x)
    (h1 : c a b = .lt) (h2 : c b x ≠ .gt) : c a x = .lt := by
  have hle : c a x ≠ .gt := h.trans a b x ha hb hx (by rw [h1]; decide) h2
  cases hax : c a x with
  | lt => rfl
  | gt => exact absurd hax hle
  | eq =>
    -- then x ~ a, so c x b = c a b = lt, i.e. c b x = gt
    have hxa : c x a = .eq := by rw [h.swap a x ha hx, hax]; rfl
    have : c x b = c a b := h.eqL x a b hx ha hb hxa
    have hbx : c b x = .gt := by rw [h.swap x b hx hb, this, h1]; rfl
    exact absurd hbx h2

theorem IsCmp.lt_of_le_of_lt (h : IsCmp P c) {a b x : α} (ha : P a) (hb : P b) (hx : P x)
    (h1 : c a b ≠ .gt) (h2 : c b x = .lt) : c a x = .lt := by
  have hle : c a x ≠ .gt := h.trans a b x ha hb hx h1 (by rw [h2]; decide)
  cases hax : c a x with
  | lt => rfl
  | gt => exact absurd hax hle
  | eq =>
    have : c a b = c x b := by
      have := h.eqL a x b ha hx hb hax
      exact this
    have hxb : c x b = .gt := by rw [h.swap b x hb hx, h2]; rfl
    rw [hxb] at this
    exact absurd this h1

theorem IsCmp.eq_trans (h : IsCmp P c) {a b x : α} (ha : P a) (hb : P b) (hx : P x)
    (h1 : c a b = .eq) (h2 : c b x = .eq) : c a x = .eq := by
  rw [h.eqL a b x ha hb hx h1, h2]

/-- pull a lawful comparator back along a key function -/
theorem IsCmp.comap {β : Type} {Q : β → Prop} {d : β → β → Ordering} (h : IsCmp Q d) (f : α → β) :
    IsCmp (fun a => Q (f a)) (fun a b => d (f a) (f b)) where
  swap := fun a b ha hb => h.swap (f a) (f b) ha hb
  trans := fun a b x ha hb hx => h.trans (f a) (f b) (f x) ha hb hx
  eqL := fun a b x ha hb hx => h.eqL (f a) (f b) (f x) ha hb hx

theorem IsCmp.mono {Q : α → Prop} (h : IsCmp P c) (hq : ∀ a, Q a → P a) : IsCmp Q c where
  swap := fun a b ha hb => h.swap a b (hq a ha) (hq b hb)
  trans := fun a b x ha hb hx => h.trans a b x (hq a ha) (hq b hb) (hq x hx)
  eqL := fun a b x ha hb hx => h.eqL a b x (hq a ha) (hq b hb) (hq x hx)

/-- the constant comparator -/
theorem constEq_isCmp : IsCmp P (fun _ _ : α => Ordering.eq) where
  swap := fun _ _ _ _ => rfl
  trans := fun _ _ _ _ _ _ _ _ => by decide
  eqL := fun _ _ _ _ _ _ _ => rfl

theorem thenO_ne_gt {a b : Ordering} (h : thenO a b ≠ .gt) : a = .lt ∨ (a = .eq ∧ b ≠ .gt) := by
  cases a
  · exact Or.inl rfl
  · exact Or.inr ⟨rfl, h⟩
  · exact absurd rfl h

theorem thenO_eq {a b : Ordering} (h : thenO a b = .eq) : a = .eq ∧ b = .eq := by
  cases a
  · simp [thenO] at h
  · exact ⟨rfl, h⟩
  · simp [thenO] at h

/-- lexicographic combination of two lawful comparators on the same carrier -/
theorem IsCmp.then {c2 : α → α → Ordering} (h1 : IsCmp P c) (h2 : IsCmp P c2) :
    IsCmp P (fun a b => thenO (c a b) (c2 a b)) where
  swap := by
    intro a b ha hb
    show thenO (c b a) (c2 b a) = (thenO (c a b) (c2 a b)).swap
    rw [thenO_swap, h1.swap a b ha hb, h2.swap a b ha hb]
  trans := by
    intro a b x ha hb hx hab hbx
    show thenO (c a x) (c2 a x) ≠ .gt
    rcases thenO_ne_gt hab with l1 | ⟨e1, g1⟩
    · have : c b x ≠ .gt := by
        rcases thenO_ne_gt hbx with l2 | ⟨e2, _⟩
        · rw [l2]; decide
        · rw [e2]; decide
      rw [h1.lt_of_lt_of_le ha hb hx l1 this]; simp [thenO]
    · rcases thenO_ne_gt hbx with l2 | ⟨e2, g2⟩
      · rw [h1.lt_of_le_of_lt ha hb hx (by rw [e1]; decide) l2]; simp [thenO]
      · rw [h1.eq_trans ha hb hx e1 e2]
        exact h2.trans a b x ha hb hx g1 g2
  eqL := by
    intro a b x ha hb hx hab
    obtain ⟨e1, e2⟩ := thenO_eq hab
    show thenO (c a x) (c2 a x) = thenO (c b x) (c2 b x)
    rw [h1.eqL a b x ha hb hx e1, h2.eqL a b x ha hb hx e2]

/-- `Option` with `none` first (the derived `Ord` of `Option<T>`) -/
def optCmp {β : Type} (d : β → β → Ordering) : Option β → Option β → Ordering
  | none, none => .eq
  | none, some _ => .lt
  | some _, none => .gt
  | some a, some b => d a b

theorem optCmp_isCmp {β : Type} {d : β → β → Ordering} (h : IsCmp (fun _ : β => True) d) :
    IsCmp (fun _ : Option β => True) (optCmp d) where
  swap := by
    intro a b _ _
    cases a <;> cases b <;> try rfl
    exact h.swap _ _ trivial trivial
  trans := by
    intro a b x _ _ _ hab hbx
    cases a <;> cases b <;> cases x <;> simp_all [optCmp]
    exact h.trans _ _ _ trivial trivial trivial hab hbx
  eqL := by
    intro a b x _ _ _ hab
    cases a <;> cases b <;> cases x <;> simp_all [optCmp]
    exact h.eqL _ _ _ trivial trivial trivial hab

/-- folding `thenO` over a list of attribute indices keeps the laws -/
theorem foldl_isCmp {ι : Type} (f : α → α → ι → Ordering) (hf : ∀ i, IsCmp P (fun a b => f a b i)) (l : List ι) :
    IsCmp P (fun a b => l.foldl (fun acc i => thenO acc (f a b i)) .eq) := by
  suffices h : ∀ (c0 : α → α → Ordering), IsCmp P c0 →
      IsCmp P (fun a b => l.foldl (fun acc i => thenO acc (f a b i)) (c0 a b)) from h _ constEq_isCmp
  induction l with
  | nil => intro c0 h0; exact h0
  | cons i is ih =>
    intro c0 h0
    simp only [List.foldl_cons]
    exact ih _ (h0.then (hf i))

end NatCmp

namespace NatCmp
variable {α : Type} {P : α → Prop} {c : α → α → Ordering}

theorem IsCmp.congr {c' : α → α → Ordering} (h : IsCmp P c) (e : ∀ a b, P a → P b → c' a b = c a b) : IsCmp P c' where
  swap := fun a b ha hb => by rw [e b a hb ha, e a b ha hb]; exact h.swap a b ha hb
  trans := fun a b x ha hb hx h1 h2 => by
    rw [e a b ha hb] at h1; rw [e b x hb hx] at h2; rw [e a x ha hx]; exact h.trans a b x ha hb hx h1 h2
  eqL := fun a b x ha hb hx h1 => by
    rw [e a b ha hb] at h1; rw [e a x ha hx, e b x hb hx]; exact h.eqL a b x ha hb hx h1

/-- the reversed comparator (`--sortr`) is lawful too -/
theorem IsCmp.flip (h : IsCmp P c) : IsCmp P (fun a b => (c a b).swap) where
  swap := fun a b ha hb => by rw [h.swap a b ha hb]
  trans := by
    intro a b x ha hb hx h1 h2
    -- (c a b).swap ≠ gt ⇔ c b a ≠ gt
    have e : ∀ p q, P p → P q → ((c p q).swap ≠ .gt ↔ c q p ≠ .gt) := fun p q hp hq => by rw [h.swap p q hp hq]
    rw [e a x ha hx]
    exact h.trans x b a hx hb ha ((e b x hb hx).1 h2) ((e a b ha hb).1 h1)
  eqL := by
    intro a b x ha hb hx h1
    have : c a b = .eq := by cases hc : c a b <;> simp [hc, Ordering.swap] at h1 ⊢
    rw [h.eqL a b x ha hb hx this]

/-- `mergeSort` by a lawful comparator on the members of the list returns them in ascending order -/
theorem pairwise_mergeSort_of_isCmp (S : List α) (h : IsCmp (fun a => a ∈ S) c) :
    (S.mergeSort (fun a b => c a b != .gt)).Pairwise (fun a b => c a b ≠ .gt) := by
  let le : α → α → Bool := fun a b => c a b != .gt
  let le' : {t // t ∈ S} → {t // t ∈ S} → Bool := fun a b => le a.1 b.1
  have e : (S.attach.mergeSort le').map Subtype.val = (S.attach.map Subtype.val).mergeSort le :=
    List.map_mergeSort (fun _ _ _ _ => rfl)
  rw [List.attach_map_subtype_val] at e
  have tr : ∀ a b x : {t // t ∈ S}, le' a b = true → le' b x = true → le' a x = true := by
    intro a b x h1 h2
    simp only [le', le, bne_iff_ne, ne_eq] at h1 h2 ⊢
    exact h.trans a.1 b.1 x.1 a.2 b.2 x.2 h1 h2
  have tot : ∀ a b : {t // t ∈ S}, (le' a b || le' b a) = true := by
    intro a b
    simp only [le', le, Bool.or_eq_true, bne_iff_ne, ne_eq]
    rw [h.swap a.1 b.1 a.2 b.2]
    cases c a.1 b.1 <;> simp [Ordering.swap]
  have p := List.pairwise_mergeSort (le := le') tr tot S.attach
  show (S.mergeSort le).Pairwise _
  rw [← e, List.pairwise_map]
  refine p.imp ?_
  intro a b hab
  simpa [le', le] using hab

end NatCmp
