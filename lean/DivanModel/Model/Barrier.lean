/-! Prototype: T threads, one round, three barrier waits, optional panics.
    Positions: 0 gen | 1 wait#0 | 2 clear | 3 wait#1 | 4 timed | 5 wait#2 | 6 drop | 7 done.
    `guard = true` models the candidate repair: a panicked thread still keeps its appointments. -/
namespace Bar

structure Sys where
  T     : Nat
  guard : Bool
  pos   : Nat → Nat
  pan   : Nat → Bool        -- has panicked (does no more work, only waits)
  dead  : Nat → Bool        -- left the round without keeping appointments (guard = false only)
  arr   : Nat → Nat         -- arrivals at wait k (k = 0,1,2)

def upd {α} (f : Nat → α) (i : Nat) (v : α) : Nat → α := fun j => if j = i then v else f j
@[simp] theorem upd_same {α} (f : Nat → α) (i v) : upd f i v i = v := by simp [upd]
@[simp] theorem upd_other {α} (f : Nat → α) (i v j) (h : j ≠ i) : upd f i v j = f j := by simp [upd, h]

def isWork (p : Nat) : Bool := p = 0 || p = 2 || p = 4 || p = 6
def isWait (p : Nat) : Bool := p = 1 || p = 3 || p = 5

inductive Step : Sys → Sys → Prop
  /-- finish a work phase (gen, clear, timed, drop) and, unless it was the drop phase, arrive at the next wait -/
  | work (s i) : i < s.T → s.dead i = false → isWork (s.pos i) = true →
      Step s { s with pos := upd s.pos i (s.pos i + 1),
                      arr := if s.pos i < 6 then upd s.arr (s.pos i / 2) (s.arr (s.pos i / 2) + 1) else s.arr }
  /-- leave wait k once all T threads have arrived -/
  | pass (s i) : i < s.T → s.dead i = false → isWait (s.pos i) = true → s.arr (s.pos i / 2) = s.T →
      Step s { s with pos := upd s.pos i (s.pos i + 1) }
  /-- panic inside a work phase, with the repair: behave like `work` from now on but flagged -/
  | panicGuard (s i) : i < s.T → s.guard = true → s.dead i = false → isWork (s.pos i) = true → s.pan i = false →
      Step s { s with pan := upd s.pan i true }
  /-- panic inside a work phase, current code: the thread unwinds out of the round -/
  | panicDead (s i) : i < s.T → s.guard = false → s.dead i = false → isWork (s.pos i) = true →
      Step s { s with dead := upd s.dead i true, pan := upd s.pan i true }

def Final (s : Sys) : Prop := ∀ i, i < s.T → s.pos i = 7 ∨ s.dead i = true

/-- number of threads j < k with position > p -/
def cntGt (pos : Nat → Nat) (p : Nat) : Nat → Nat
  | 0 => 0
  | k+1 => cntGt pos p k + (if p < pos k then 1 else 0)

theorem cntGt_upd_ge (pos : Nat → Nat) (p i v k : Nat) (h : k ≤ i) :
    cntGt (upd pos i v) p k = cntGt pos p k := by
  induction k with
  | zero => rfl
  | succ m ih => simp [cntGt, ih (by omega), upd_other pos i v m (by omega)]

theorem cntGt_upd_lt (pos : Nat → Nat) (p i v k : Nat) (h : i < k) :
    cntGt (upd pos i v) p k + (if p < pos i then 1 else 0) = cntGt pos p k + (if p < v then 1 else 0) := by
  induction k with
  | zero => omega
  | succ m ih =>
    by_cases hm : i = m
    · subst hm; simp [cntGt, cntGt_upd_ge pos p i v i (Nat.le_refl _)]; omega
    · have := ih (by omega); simp [cntGt, upd_other pos i v m (by omega)]; omega

theorem cntGt_le (pos : Nat → Nat) (p k : Nat) : cntGt pos p k ≤ k := by
  induction k with
  | zero => simp [cntGt]
  | succ m ih => simp only [cntGt]; split <;> omega

theorem cntGt_eq_all (pos : Nat → Nat) (p k : Nat) (h : cntGt pos p k = k) : ∀ j, j < k → p < pos j := by
  induction k with
  | zero => intro j hj; omega
  | succ m ih =>
    simp only [cntGt] at h
    have hle := cntGt_le pos p m
    intro j hj
    by_cases hp : p < pos m
    · simp [hp] at h
      by_cases hjm : j = m
      · subst hjm; exact hp
      · exact ih h j (by omega)
    · simp [hp] at h; omega

theorem cntGt_all_eq (pos : Nat → Nat) (p k : Nat) (h : ∀ j, j < k → p < pos j) : cntGt pos p k = k := by
  induction k with
  | zero => rfl
  | succ m ih => simp [cntGt, ih (fun j hj => h j (by omega)), h m (by omega)]

/-- Invariant (for the repaired protocol, guard = true): arrivals at wait k = threads beyond position 2k,
    and nobody is past wait k unless everybody arrived at it. -/
structure Inv (s : Sys) : Prop where
  g    : s.guard = true
  nd   : ∀ i, s.dead i = false
  le7  : ∀ i, i < s.T → s.pos i ≤ 7
  arrE : ∀ k, k < 3 → s.arr k = cntGt s.pos (2*k) s.T
  past : ∀ k i, k < 3 → i < s.T → 2*k+1 < s.pos i → s.arr k = s.T

theorem inv_step (s s' : Sys) (h : Inv s) (hs : Step s s') : Inv s' := by
  obtain ⟨g, nd, le7, arrE, past⟩ := h
  cases hs with
  | work i hi hd hw =>
    have hp := le7 i hi
    have hpos : s.pos i = 0 ∨ s.pos i = 2 ∨ s.pos i = 4 ∨ s.pos i = 6 := by
      simp [isWork] at hw; omega
    refine ⟨g, nd, ?_, ?_, ?_⟩
    · intro j hj; by_cases hji : j = i
      · subst hji; simp; omega
      · simp [upd_other _ _ _ _ hji]; exact le7 j hj
    · intro k hk
      have e := cntGt_upd_lt s.pos (2*k) i (s.pos i + 1) s.T hi
      have a := arrE k hk
      rcases hpos with h0 | h0 | h0 | h0 <;> simp [h0] at e ⊢ <;>
        (by_cases hk0 : k = 0 <;> by_cases hk1 : k = 1 <;> by_cases hk2 : k = 2 <;>
          simp_all [upd] <;> omega)
    · intro k j hk hj hlt
      by_cases hji : j = i
      · subst hji; simp at hlt
        -- thread j just finished a work phase at position 2m; being past wait k means k < m
        have := past k j hk hj (by rcases hpos with h0 | h0 | h0 | h0 <;> omega)
        rcases hpos with h0 | h0 | h0 | h0 <;> simp [h0] <;>
          (by_cases hk0 : k = 0 <;> by_cases hk1 : k = 1 <;> by_cases hk2 : k = 2 <;>
            simp_all [upd] <;> omega)
      · simp [upd_other _ _ _ _ hji] at hlt
        have hk' := past k j hk hj hlt
        -- everybody (in particular i) is beyond position 2k, so i is not arriving at wait k now
        have hall := cntGt_eq_all s.pos (2*k) s.T (by rw [← arrE k hk]; exact hk') i hi
        rcases hpos with h0 | h0 | h0 | h0 <;> simp [h0] <;>
          (by_cases hk0 : k = 0 <;> by_cases hk1 : k = 1 <;> by_cases hk2 : k = 2 <;>
            simp_all [upd] <;> omega)
  | pass i hi hd hw hall =>
    have hp := le7 i hi
    have hpos : s.pos i = 1 ∨ s.pos i = 3 ∨ s.pos i = 5 := by
      simp [isWait] at hw; omega
    refine ⟨g, nd, ?_, ?_, ?_⟩
    · intro j hj; by_cases hji : j = i
      · subst hji; simp; omega
      · simp [upd_other _ _ _ _ hji]; exact le7 j hj
    · intro k hk
      have e := cntGt_upd_lt s.pos (2*k) i (s.pos i + 1) s.T hi
      have a := arrE k hk
      rcases hpos with h0 | h0 | h0 <;> simp [h0] at e ⊢ <;>
        (by_cases hk0 : k = 0 <;> by_cases hk1 : k = 1 <;> by_cases hk2 : k = 2 <;>
          simp_all <;> omega)
    · intro k j hk hj hlt
      by_cases hji : j = i
      · subst hji; simp at hlt
        by_cases hk' : 2*k+1 < s.pos j
        · exact past k j hk hj hk'
        · have e : s.pos j = 2*k+1 := by omega
          have e2 : (2*k+1)/2 = k := by omega
          rw [e, e2] at hall; exact hall
      · simp [upd_other _ _ _ _ hji] at hlt; exact past k j hk hj hlt
  | panicGuard i hi hg hd hw hp => exact ⟨g, nd, le7, arrE, past⟩
  | panicDead i hi hg hd hw => simp [g] at hg

/-- C08 safety: while some thread is in its timed section (position 4), every thread has finished
    generating and clearing (position ≥ 3) and none has started dropping (position ≤ 5). -/
theorem timed_overlap (s : Sys) (h : Inv s) (i j : Nat) (hi : i < s.T) (hj : j < s.T) (ht : s.pos i = 4) :
    3 ≤ s.pos j ∧ s.pos j ≤ 5 := by
  constructor
  · -- i is past wait#1 (k = 1) ⇒ all arrived at wait#1 ⇒ pos j > 2
    have hall := h.past 1 i (by omega) hi (by omega)
    have := cntGt_eq_all s.pos 2 s.T (by rw [← h.arrE 1 (by omega)]; exact hall) j hj
    omega
  · -- if j were dropping (pos ≥ 6) it passed wait#2 ⇒ all arrived at wait#2 ⇒ pos i > 4
    apply Classical.byContradiction; intro hgt
    have hall := h.past 2 j (by omega) hj (by omega)
    have := cntGt_eq_all s.pos 4 s.T (by rw [← h.arrE 2 (by omega)]; exact hall) i hi
    omega


theorem exists_min (f : Nat → Nat) (T : Nat) (hT : 0 < T) : ∃ i, i < T ∧ ∀ j, j < T → f i ≤ f j := by
  induction T with
  | zero => omega
  | succ m ih =>
    by_cases hm : m = 0
    · subst hm; exact ⟨0, by omega, fun j hj => by have : j = 0 := by omega
                                                   subst this; exact Nat.le_refl _⟩
    · obtain ⟨i, hi, hmin⟩ := ih (by omega)
      by_cases hlt : f m < f i
      · refine ⟨m, by omega, fun j hj => ?_⟩
        by_cases hjm : j = m
        · subst hjm; exact Nat.le_refl _
        · have := hmin j (by omega); omega
      · refine ⟨i, by omega, fun j hj => ?_⟩
        by_cases hjm : j = m
        · subst hjm; omega
        · exact hmin j (by omega)

/-- C08 liveness for the repaired protocol: no deadlock for any T, whatever panics happened. -/
theorem deadlock_free (s : Sys) (h : Inv s) (hnf : ¬ Final s) : ∃ s', Step s s' := by
  obtain ⟨g, nd, le7, arrE, past⟩ := h
  have hex : ∃ i, i < s.T ∧ s.pos i ≠ 7 := by
    apply Classical.byContradiction; intro hne
    apply hnf; intro i hi
    left; apply Classical.byContradiction; intro h7; exact hne ⟨i, hi, h7⟩
  obtain ⟨i0, hi0, h70⟩ := hex
  obtain ⟨m, hm, hmin⟩ := exists_min s.pos s.T (by omega)
  have hle := le7 i0 hi0
  have hm6 : s.pos m ≤ 6 := by have := hmin i0 hi0; omega
  by_cases hw : isWork (s.pos m) = true
  · exact ⟨_, Step.work s m hm (nd m) hw⟩
  · have hwait : isWait (s.pos m) = true := by
      simp [isWork] at hw; simp [isWait]; omega
    have hpos : s.pos m = 1 ∨ s.pos m = 3 ∨ s.pos m = 5 := by simp [isWait] at hwait; omega
    have hk : s.pos m / 2 < 3 := by omega
    have hall : s.arr (s.pos m / 2) = s.T := by
      rw [arrE _ hk]
      apply cntGt_all_eq
      intro j hj; have := hmin j hj; omega
    exact ⟨_, Step.pass s m hm (nd m) hwait hall⟩

/-- Current code (guard = false): a concrete reachable stuck, non-final state with T = 2.
    Thread 1 panicked while generating inputs; thread 0 waits at the first barrier forever. -/
def stuck : Sys :=
  { T := 2, guard := false,
    pos := fun j => if j = 0 then 1 else 0,
    pan := fun j => j = 1, dead := fun j => j = 1,
    arr := fun k => if k = 0 then 1 else 0 }

theorem stuck_not_final : ¬ Final stuck := by
  intro h; have := h 0 (by simp [stuck]); simp [stuck] at this

theorem stuck_no_step : ∀ s', ¬ Step stuck s' := by
  intro s' hs
  cases hs with
  | work i hi hd hw =>
    have : i = 0 ∨ i = 1 := by simp [stuck] at hi; omega
    rcases this with h | h <;> subst h <;> simp [stuck, isWork] at hd hw
  | pass i hi hd hw hall =>
    have : i = 0 ∨ i = 1 := by simp [stuck] at hi; omega
    rcases this with h | h <;> subst h <;> simp [stuck, isWait] at hd hw hall
  | panicGuard i hi hg hd hw hp => simp [stuck] at hg
  | panicDead i hi hg hd hw =>
    have : i = 0 ∨ i = 1 := by simp [stuck] at hi; omega
    rcases this with h | h <;> subst h <;> simp [stuck, isWork] at hd hw

end Bar
