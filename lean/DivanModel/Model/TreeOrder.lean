import DivanModel.Model.Prog
import DivanModel.Model.CmpLaws
/-! The sibling comparator of the entry tree (`cmp_by_attr`) is a lawful total preorder on every
    well-formed sibling set, for each of the three attributes. Core only. -/
namespace Prog
open NatCmp

theorem thenCmp_eq (a b : Ordering) : thenCmp a b = thenO a b := by cases a <;> rfl

/-! ### the ingredients -/

theorem strCmp_isCmp : IsCmp (fun _ : String => True) strCmp :=
  (byteLex_isCmp.comap bytesOf).congr (fun _ _ _ _ => rfl)

theorem natCompare_isCmp : IsCmp (fun _ : Nat => True) (fun a b => compare a b) := natCmp_isCmp

theorem intCompare_isCmp : IsCmp (fun _ : Int => True) (fun a b => compare a b) where
  swap := by
    intro a b _ _
    rcases Int.lt_trichotomy a b with h | h | h
    · rw [(Int.compare_eq_lt).2 h, (Int.compare_eq_gt).2 h]; rfl
    · subst h; simp
    · rw [(Int.compare_eq_gt).2 h, (Int.compare_eq_lt).2 h]; rfl
  trans := by
    intro a b x _ _ _ h1 h2
    have e : ∀ p q : Int, compare p q ≠ .gt ↔ p ≤ q := by
      intro p q
      rcases Int.lt_trichotomy p q with h | h | h
      · rw [(Int.compare_eq_lt).2 h]; simp; omega
      · subst h; simp
      · rw [(Int.compare_eq_gt).2 h]; simp; omega
    rw [e] at h1 h2 ⊢; omega
  eqL := by
    intro a b x _ _ _ h1
    have : a = b := Int.compare_eq_eq.1 h1
    rw [this]

theorem locCmp_isCmp : IsCmp (fun _ : Loc => True) Loc.cmp :=
  ((strCmp_isCmp.comap Loc.file).then ((natCompare_isCmp.comap Loc.line).then (natCompare_isCmp.comap Loc.col))).congr
    (fun a b _ _ => by simp only [Loc.cmp, thenCmp_eq])

theorem optLocCmp_eq (a b : Option Loc) : optLocCmp a b = optCmp Loc.cmp a b := by
  cases a <;> cases b <;> rfl

theorem optLocCmp_isCmp : IsCmp (fun _ : Option Loc => True) optLocCmp :=
  (optCmp_isCmp locCmp_isCmp).congr (fun a b _ _ => optLocCmp_eq a b)

/-! ### well-formed sibling sets -/

/-- the constant a node is ordered by under the name attribute: generic instances with a const -/
def Tree.constKey : Tree → Option Const
  | .leaf e _ => if e.generic then e.const else none
  | .parent .. => none

def Const.kindIdx : Const → Nat
  | .int _ => 0 | .str _ => 1 | .chr _ => 2

/-- a sibling set as `EntryTree` produces them:
    * either no node is ordered by a constant, or all are, by constants of one type
      (the children of one generic benchmark / of one of its type levels);
    * nodes at one and the same source location either all carry an entry address or none does;
    * different nodes have different entry addresses -/
def sibOk (S : List Tree) : Bool :=
  (S.all (fun t => t.constKey.isNone) ||
   (S.all fun t => match t.constKey, (S.headD default).constKey with
     | some c, some d => c.kindIdx == d.kindIdx
     | _, _ => false)) &&
  (S.all fun a => S.all fun b => optLocCmp a.location b.location != .eq || a.addr?.isSome == b.addr?.isSome) &&
  (S.all fun a => S.all fun b => addrOrd a b != some .eq || (a.kind == b.kind && a.dispName == b.dispName &&
      optLocCmp a.location b.location == .eq && a.constKey == b.constKey))

/-! ### name attribute -/

theorem cmpDisplayName_none_l (a b : Tree) (h : a.constKey = none) :
    cmpDisplayName a b = naturalCmp (bytesOf a.dispName) (bytesOf b.dispName) := by
  unfold cmpDisplayName
  cases a with
  | parent r g ch => rfl
  | leaf ea aa =>
    cases b with
    | parent r g ch => rfl
    | leaf eb ab =>
      simp only [Tree.constKey] at h
      by_cases hg : ea.generic = true
      · simp only [hg, if_true] at h
        simp only [hg, h, Bool.true_and]
        split <;> rfl
      · simp only [hg, Bool.false_and, Bool.false_eq_true, if_false]

theorem cmpDisplayName_none_r (a b : Tree) (h : b.constKey = none) :
    cmpDisplayName a b = naturalCmp (bytesOf a.dispName) (bytesOf b.dispName) := by
  unfold cmpDisplayName
  cases a with
  | parent r g ch => rfl
  | leaf ea aa =>
    cases b with
    | parent r g ch => rfl
    | leaf eb ab =>
      simp only [Tree.constKey] at h
      by_cases hg : eb.generic = true
      · simp only [hg, if_true] at h
        simp only [hg, h, Bool.and_true]
        split
        · cases ea.const <;> rfl
        · rfl
      · simp only [hg, Bool.and_false, Bool.false_eq_true, if_false]

/-- total version of the constants' own ordering followed by their names -/
def constThenName (a b : Const) : Ordering :=
  match constCmp a b with
  | some o => if o != .eq then o else naturalCmp (bytesOf a.name) (bytesOf b.name)
  | none => naturalCmp (bytesOf a.name) (bytesOf b.name)

theorem cmpDisplayName_some (a b : Tree) (ca cb : Const) (ha : a.constKey = some ca) (hb : b.constKey = some cb) :
    cmpDisplayName a b = constThenName ca cb := by
  unfold cmpDisplayName
  cases a with
  | parent r g ch => simp [Tree.constKey] at ha
  | leaf ea aa =>
    cases b with
    | parent r g ch => simp [Tree.constKey] at hb
    | leaf eb ab =>
      simp only [Tree.constKey] at ha hb
      by_cases hga : ea.generic = true
      · by_cases hgb : eb.generic = true
        · simp only [hga, hgb, if_true] at ha hb
          simp only [hga, hgb, ha, hb, Bool.and_self, if_true, constThenName]
          cases constCmp ca cb <;> rfl
        · simp [hgb] at hb
      · simp [hga] at ha

theorem if_bne_eq_thenO (o x : Ordering) : (if o != .eq then o else x) = thenO o x := by cases o <;> rfl

theorem constThenName_isCmp (k : Nat) : IsCmp (fun c : Const => c.kindIdx = k) constThenName := by
  have nameC : IsCmp (fun _ : Const => True) (fun a b : Const => naturalCmp (bytesOf a.name) (bytesOf b.name)) :=
    naturalCmp_isCmp.comap (fun c : Const => bytesOf c.name)
  -- per kind: the constants' ordering pulled back from the value type, then the name
  have hint : IsCmp (fun c : Const => c.kindIdx = 0) constThenName := by
    let key : Const → Int := fun c => match c with | .int v => v | _ => 0
    have h := ((intCompare_isCmp.comap key).mono (Q := fun c : Const => c.kindIdx = 0) (fun _ _ => trivial)).then
      (nameC.mono (Q := fun c : Const => c.kindIdx = 0) (fun _ _ => trivial))
    refine h.congr ?_
    intro a b ha hb
    cases a <;> cases b <;> simp [Const.kindIdx] at ha hb
    simp only [constThenName, constCmp, if_bne_eq_thenO, key]
  have hstr : IsCmp (fun c : Const => c.kindIdx = 1) constThenName := by
    let key : Const → String := fun c => match c with | .str v => v | _ => ""
    have h := ((strCmp_isCmp.comap key).mono (Q := fun c : Const => c.kindIdx = 1) (fun _ _ => trivial)).then
      (nameC.mono (Q := fun c : Const => c.kindIdx = 1) (fun _ _ => trivial))
    refine h.congr ?_
    intro a b ha hb
    cases a <;> cases b <;> simp [Const.kindIdx] at ha hb
    simp only [constThenName, constCmp, if_bne_eq_thenO, key]
  have hchr : IsCmp (fun c : Const => c.kindIdx = 2) constThenName := by
    let key : Const → Nat := fun c => match c with | .chr v => v | _ => 0
    have h := ((natCompare_isCmp.comap key).mono (Q := fun c : Const => c.kindIdx = 2) (fun _ _ => trivial)).then
      (nameC.mono (Q := fun c : Const => c.kindIdx = 2) (fun _ _ => trivial))
    refine h.congr ?_
    intro a b ha hb
    cases a <;> cases b <;> simp [Const.kindIdx] at ha hb
    simp only [constThenName, constCmp, if_bne_eq_thenO, key]
  match k with
  | 0 => exact hint
  | 1 => exact hstr
  | 2 => exact hchr
  | n + 3 =>
    exact ⟨fun a _ ha _ => by cases a <;> simp [Const.kindIdx] at ha,
           fun a _ _ ha _ _ _ _ => by cases a <;> simp [Const.kindIdx] at ha,
           fun a _ _ ha _ _ _ => by cases a <;> simp [Const.kindIdx] at ha⟩

/-! ### location attribute with the address tie-break -/

/-- the address tie-break -/
def addrTie (a b : Tree) : Ordering := (addrOrd a b).getD .eq

theorem addrTie_some (a b : Tree) (x y : Nat) (ha : a.addr? = some x) (hb : b.addr? = some y) :
    addrTie a b = compare x y := by simp [addrTie, addrOrd, ha, hb]
theorem addrTie_none_l (a b : Tree) (ha : a.addr? = none) : addrTie a b = .eq := by simp [addrTie, addrOrd, ha]
theorem addrTie_none_r (a b : Tree) (hb : b.addr? = none) : addrTie a b = .eq := by
  cases h : a.addr? <;> simp [addrTie, addrOrd, h, hb]

theorem if_beq_eq_thenO (l x : Ordering) : (if l == .eq then x else l) = thenO l x := by cases l <;> rfl

theorem attrCmp_loc (a b : Tree) (n : Nat) :
    attrCmp a b (n + 2) = thenO (optLocCmp a.location b.location) (addrTie a b) := by
  simp only [attrCmp, if_beq_eq_thenO, addrTie]

structure SibOk (S : List Tree) : Prop where
  names : (∀ t ∈ S, t.constKey = none) ∨ (∃ k, ∀ t ∈ S, ∃ c, t.constKey = some c ∧ c.kindIdx = k)
  addrs : ∀ a ∈ S, ∀ b ∈ S, optLocCmp a.location b.location = .eq → a.addr?.isSome = b.addr?.isSome
  same : ∀ a ∈ S, ∀ b ∈ S, addrOrd a b = some .eq →
    a.kind = b.kind ∧ a.dispName = b.dispName ∧ optLocCmp a.location b.location = .eq ∧ a.constKey = b.constKey

theorem sibOk_spec (S : List Tree) (h : sibOk S = true) : SibOk S := by
  simp only [sibOk, Bool.and_eq_true, Bool.or_eq_true, List.all_eq_true] at h
  obtain ⟨⟨hn, ha⟩, hs⟩ := h
  refine ⟨?_, ?_, ?_⟩
  · rcases hn with hn | hn
    · left; intro t ht; simpa using hn t ht
    · right
      cases hd : (S.headD default).constKey with
      | none =>
        -- then no member can satisfy the match: S must be empty
        refine ⟨0, fun t ht => ?_⟩
        have := hn t ht
        rw [hd] at this
        cases t.constKey <;> simp at this
      | some d =>
        refine ⟨d.kindIdx, fun t ht => ?_⟩
        have := hn t ht
        rw [hd] at this
        cases hc : t.constKey with
        | none => rw [hc] at this; simp at this
        | some c => rw [hc] at this; exact ⟨c, rfl, by simpa using this⟩
  · intro a ha' b hb' hl
    rcases ha a ha' b hb' with h1 | h1
    · simp [hl] at h1
    · simpa using h1
  · intro a ha' b hb' he
    rcases hs a ha' b hb' with h1 | h1
    · simp [he] at h1
    · obtain ⟨⟨⟨h1, h2⟩, h3⟩, h4⟩ := h1
      exact ⟨by simpa using h1, by simpa using h2, by simpa using h3, by simpa using h4⟩

theorem locAttr_isCmp (S : List Tree) (h : SibOk S) :
    IsCmp (fun t => t ∈ S) (fun a b => thenO (optLocCmp a.location b.location) (addrTie a b)) := by
  have hL : IsCmp (fun _ : Tree => True) (fun a b => optLocCmp a.location b.location) :=
    optLocCmp_isCmp.comap Tree.location
  have tieSwap : ∀ a b : Tree, addrTie b a = (addrTie a b).swap := by
    intro a b
    cases ha : a.addr? with
    | none => rw [addrTie_none_r b a ha, addrTie_none_l a b ha]; rfl
    | some x => cases hb : b.addr? with
      | none => rw [addrTie_none_l b a hb, addrTie_none_r a b hb]; rfl
      | some y => rw [addrTie_some b a y x hb ha, addrTie_some a b x y ha hb]; exact natCompare_isCmp.swap x y trivial trivial
  refine ⟨?_, ?_, ?_⟩
  · intro a b _ _
    show thenO _ _ = (thenO _ _).swap
    rw [thenO_swap, hL.swap a b trivial trivial, tieSwap a b]
  · intro a b x ha hb hx hab hbx
    show thenO _ _ ≠ .gt
    rcases thenO_ne_gt hab with l1 | ⟨e1, g1⟩
    · have : optLocCmp b.location x.location ≠ .gt := by
        rcases thenO_ne_gt hbx with l2 | ⟨e2, _⟩
        · rw [l2]; decide
        · rw [e2]; decide
      rw [hL.lt_of_lt_of_le (a := a) (b := b) (x := x) trivial trivial trivial l1 this]; simp [thenO]
    · rcases thenO_ne_gt hbx with l2 | ⟨e2, g2⟩
      · rw [hL.lt_of_le_of_lt (a := a) (b := b) (x := x) trivial trivial trivial (by rw [e1]; decide) l2]; simp [thenO]
      · have e3 : optLocCmp a.location x.location = .eq := hL.eq_trans (a := a) (b := b) (x := x) trivial trivial trivial e1 e2
        rw [e3]
        show addrTie a x ≠ .gt
        have s1 := h.addrs a ha b hb e1
        have s2 := h.addrs b hb x hx e2
        cases hA : a.addr? with
        | none => rw [addrTie_none_l a x hA]; decide
        | some p =>
          cases hB : b.addr? with
          | none => rw [hA, hB] at s1; simp at s1
          | some q =>
            cases hX : x.addr? with
            | none => rw [hB, hX] at s2; simp at s2
            | some r =>
              rw [addrTie_some a b p q hA hB] at g1
              rw [addrTie_some b x q r hB hX] at g2
              rw [addrTie_some a x p r hA hX]
              exact natCompare_isCmp.trans p q r trivial trivial trivial g1 g2
  · intro a b x ha hb hx hab
    obtain ⟨e1, t1⟩ := thenO_eq hab
    show thenO _ _ = thenO _ _
    have eL : optLocCmp a.location x.location = optLocCmp b.location x.location :=
      hL.eqL a b x trivial trivial trivial e1
    rw [eL]
    cases hbx : optLocCmp b.location x.location with
    | lt => rfl
    | gt => rfl
    | eq =>
      show addrTie a x = addrTie b x
      have s1 := h.addrs a ha b hb e1
      have s2 := h.addrs b hb x hx hbx
      cases hA : a.addr? with
      | none =>
        cases hB : b.addr? with
        | none => rw [addrTie_none_l a x hA, addrTie_none_l b x hB]
        | some q => rw [hA, hB] at s1; simp at s1
      | some p =>
        cases hB : b.addr? with
        | none => rw [hA, hB] at s1; simp at s1
        | some q =>
          cases hX : x.addr? with
          | none => rw [hB, hX] at s2; simp at s2
          | some r =>
            rw [addrTie_some a b p q hA hB] at t1
            rw [addrTie_some a x p r hA hX, addrTie_some b x q r hB hX]
            exact natCompare_isCmp.eqL p q r trivial trivial trivial t1

theorem nameAttr_isCmp (S : List Tree) (h : SibOk S) : IsCmp (fun t => t ∈ S) cmpDisplayName := by
  rcases h.names with hn | ⟨k, hk⟩
  · exact ((naturalCmp_isCmp.comap (fun t : Tree => bytesOf t.dispName)).mono (Q := fun t => t ∈ S) (fun _ _ => trivial)).congr
      (fun a b ha _ => cmpDisplayName_none_l a b (hn a ha))
  · -- all ordered by constants of kind k
    let key : Tree → Const := fun t => (t.constKey).getD default
    have hkey : ∀ t ∈ S, t.constKey = some (key t) ∧ (key t).kindIdx = k := by
      intro t ht
      obtain ⟨c, hc, hck⟩ := hk t ht
      simp only [key, hc, Option.getD_some]
      exact ⟨trivial, hck⟩
    have base := ((constThenName_isCmp k).comap key).mono (Q := fun t => t ∈ S) (fun t ht => (hkey t ht).2)
    exact base.congr (fun a b ha hb => cmpDisplayName_some a b (key a) (key b) (hkey a ha).1 (hkey b hb).1)

theorem attrCmp_isCmp (S : List Tree) (h : SibOk S) (i : Nat) : IsCmp (fun t => t ∈ S) (fun a b => attrCmp a b i) := by
  match i with
  | 0 => exact ((natCompare_isCmp.comap Tree.kind).mono (Q := fun t => t ∈ S) (fun _ _ => trivial)).congr (fun _ _ _ _ => rfl)
  | 1 => exact (nameAttr_isCmp S h).congr (fun _ _ _ _ => rfl)
  | n + 2 => exact (locAttr_isCmp S h).congr (fun a b _ _ => attrCmp_loc a b n)

theorem lexAttrs_isCmp (S : List Tree) (h : SibOk S) (l : List Nat) : IsCmp (fun t => t ∈ S) (fun a b => lexAttrs a b l) := by
  have := foldl_isCmp (P := fun t => t ∈ S) (fun a b i => attrCmp a b i) (attrCmp_isCmp S h) l
  refine this.congr ?_
  intro a b _ _
  simp only [lexAttrs]
  congr 1

/-- nodes with one and the same entry address have the same keys, hence compare `Equal` anyway -/
theorem lexAttrs_same (S : List Tree) (h : SibOk S) (a b : Tree) (ha : a ∈ S) (hb : b ∈ S)
    (he : addrOrd a b = some .eq) (l : List Nat) : lexAttrs a b l = .eq := by
  obtain ⟨hk, hd, hl, hc⟩ := h.same a ha b hb he
  have each : ∀ i, attrCmp a b i = .eq := by
    intro i
    match i with
    | 0 => simp [attrCmp, hk]
    | 1 =>
      show cmpDisplayName a b = .eq
      cases hca : a.constKey with
      | none =>
        rw [cmpDisplayName_none_l a b hca, hd]
        exact naturalCmp_isCmp.refl _ trivial
      | some c =>
        rw [cmpDisplayName_some a b c c hca (hc ▸ hca)]
        exact (constThenName_isCmp c.kindIdx).refl c rfl
    | n + 2 =>
      rw [attrCmp_loc, hl]
      simp [thenO, addrTie, he]
  unfold lexAttrs
  induction l with
  | nil => rfl
  | cons i is ih =>
    simp only [List.foldl_cons, each i]
    exact ih

/-- **`cmp_by_attr` is a lawful comparator on every well-formed sibling set, for every attribute**:
    antisymmetric, transitive, and `Equal` is a congruence - the three keys form a consistent
    total preorder -/
theorem cmpByAttr_isCmp (S : List Tree) (h : SibOk S) (attr : Nat) : IsCmp (fun t => t ∈ S) (cmpByAttr attr) := by
  refine (lexAttrs_isCmp S h (tieBreakers attr)).congr ?_
  intro a b ha hb
  unfold cmpByAttr
  split
  · rename_i he
    have : addrOrd a b = some .eq := by simpa using he
    exact (lexAttrs_same S h a b ha hb this _).symm
  · rfl

/-! ### antisymmetry for all nodes (no well-formedness needed) -/

theorem thenCmp_swap (a b : Ordering) : (thenCmp a b).swap = thenCmp a.swap b.swap := by
  cases a <;> rfl

theorem strCmp_swap (a b : String) : strCmp b a = (strCmp a b).swap := by
  unfold strCmp
  exact byteLex_isCmp.swap _ _ trivial trivial

theorem natCompare_swap (a b : Nat) : compare b a = (compare a b).swap := (Nat.compare_swap a b).symm
theorem intCompare_swap (a b : Int) : compare b a = (compare a b).swap := by
  rcases Int.lt_trichotomy a b with h | h | h
  · rw [(Int.compare_eq_lt).2 h, (Int.compare_eq_gt).2 h]; rfl
  · subst h; simp
  · rw [(Int.compare_eq_gt).2 h, (Int.compare_eq_lt).2 h]; rfl

theorem locCmp_swap (a b : Loc) : b.cmp a = (a.cmp b).swap := by
  simp only [Loc.cmp, thenCmp_swap, strCmp_swap a.file b.file, natCompare_swap a.line b.line, natCompare_swap a.col b.col]

theorem optLocCmp_swap (a b : Option Loc) : optLocCmp b a = (optLocCmp a b).swap := by
  cases a with
  | none => cases b <;> rfl
  | some x => cases b with
    | none => rfl
    | some y => exact locCmp_swap x y

theorem constCmp_swap (a b : Const) : constCmp b a = (constCmp a b).map Ordering.swap := by
  cases a with
  | int x => cases b with
    | int y => simp only [constCmp, Option.map_some]; rw [intCompare_swap x y]
    | str y => rfl
    | chr y => rfl
  | str x => cases b with
    | int y => rfl
    | str y => simp only [constCmp, Option.map_some]; rw [strCmp_swap x y]
    | chr y => rfl
  | chr x => cases b with
    | int y => rfl
    | str y => rfl
    | chr y => simp only [constCmp, Option.map_some]; rw [natCompare_swap x y]

theorem bne_eq_swap (o : Ordering) : (o.swap != .eq) = (o != .eq) := by cases o <;> rfl

/-- `cmp_display_name` is antisymmetric -/
theorem cmpDisplayName_swap (a b : Tree) : cmpDisplayName b a = (cmpDisplayName a b).swap := by
  have hn : ∀ x y : String, naturalCmp (bytesOf y) (bytesOf x) = (naturalCmp (bytesOf x) (bytesOf y)).swap :=
    fun x y => naturalCmp_swap _ _
  unfold cmpDisplayName
  cases a with
  | parent r g ch => cases b <;> exact hn _ _
  | leaf ea aa => cases b with
    | parent r g ch => exact hn _ _
    | leaf eb ab =>
      simp only
      by_cases h1 : ea.generic = true <;> by_cases h2 : eb.generic = true <;> simp only [h1, h2, Bool.and_true, Bool.and_false, Bool.true_and, Bool.false_and, if_true, if_false, Bool.false_eq_true] <;> try exact hn _ _
      cases hca : ea.const with
      | none => cases eb.const <;> exact hn _ _
      | some ca => cases hcb : eb.const with
        | none => exact hn _ _
        | some cb =>
          simp only
          rw [constCmp_swap ca cb]
          cases hc : constCmp ca cb with
          | none => exact hn _ _
          | some o =>
            simp only [Option.map_some, bne_eq_swap]
            split
            · rfl
            · exact hn _ _

theorem addrOrd_swap (a b : Tree) : addrOrd b a = (addrOrd a b).map Ordering.swap := by
  unfold addrOrd
  cases a.addr? <;> cases b.addr? <;> simp only [Option.map_none, Option.map_some] <;> try rfl
  rename_i x y; rw [natCompare_swap x y]

theorem optOrd_eq_swap (o : Option Ordering) : (o.map Ordering.swap == some .eq) = (o == some .eq) := by
  cases o with
  | none => rfl
  | some x => cases x <;> rfl

theorem attrCmp_swap (a b : Tree) (k : Nat) : attrCmp b a k = (attrCmp a b k).swap := by
  unfold attrCmp
  match k with
  | 0 => exact natCompare_swap _ _
  | 1 => exact cmpDisplayName_swap a b
  | n + 2 =>
    simp only [optLocCmp_swap a.location b.location, addrOrd_swap a b]
    cases optLocCmp a.location b.location <;> simp
    cases addrOrd a b <;> rfl

theorem lexAttrs_swap (a b : Tree) (l : List Nat) : lexAttrs b a l = (lexAttrs a b l).swap := by
  unfold lexAttrs
  suffices h : ∀ acc : Ordering,
      l.foldl (fun acc at' => thenCmp acc (attrCmp b a at')) acc.swap =
      (l.foldl (fun acc at' => thenCmp acc (attrCmp a b at')) acc).swap from h .eq
  induction l with
  | nil => intro acc; rfl
  | cons x xs ih =>
    intro acc
    simp only [List.foldl_cons]
    rw [← ih, thenCmp_swap, attrCmp_swap]

/-- **the sibling comparator is antisymmetric for every attribute**: `cmp(b, a)` is the reverse of
    `cmp(a, b)` for all nodes (so ascending order under `--sort` is descending under `--sortr`) -/
theorem cmpByAttr_swap (attr : Nat) (a b : Tree) : cmpByAttr attr b a = (cmpByAttr attr a b).swap := by
  unfold cmpByAttr
  rw [addrOrd_swap a b, optOrd_eq_swap]
  split
  · rfl
  · exact lexAttrs_swap a b _

end Prog
