/-! Prototype: `SplitVec::insert` and `FilterSet::is_match` (C13). Core only.
    A filter matches a path through an oracle `m : F → P → Bool` (regex engine / string equality). -/
namespace Filter

structure SplitVec (α : Type) where
  items : List α
  split : Nat

/-- `SplitVec::insert(value, after_split)`: appending after the split pushes to the end; inserting before the
    split writes at the split index and moves the element that was there (if any) to the end. -/
def SplitVec.insert {α} (v : SplitVec α) (x : α) (afterSplit : Bool) : SplitVec α :=
  if afterSplit then { v with items := v.items ++ [x] }
  else
    match v.items.drop v.split with
    | [] => { items := v.items.take v.split ++ [x], split := v.split + 1 }
    | y :: rest => { items := v.items.take v.split ++ [x] ++ rest ++ [y], split := v.split + 1 }

def build {α} (ops : List (α × Bool)) : SplitVec α :=
  ops.foldl (fun v o => v.insert o.1 o.2) { items := [], split := 0 }

/-- index of the first element satisfying `q` -/
def position {α} (q : α → Bool) : List α → Option Nat
  | [] => none
  | x :: xs => if q x then some 0 else (position q xs).map (· + 1)

/-- `FilterSet::is_match` -/
def isMatch {F P} (m : F → P → Bool) (v : SplitVec F) (p : P) : Bool :=
  match position (fun f => m f p) v.items with
  | some i => decide (i ≥ v.split)
  | none => decide (v.items.length = v.split)

/-! ### the split invariant -/
structure Inv {α} (v : SplitVec α) (ops : List (α × Bool)) : Prop where
  le   : v.split ≤ v.items.length
  excl : ∀ x, x ∈ v.items.take v.split ↔ (x, false) ∈ ops
  incl : ∀ x, x ∈ v.items.drop v.split ↔ (x, true) ∈ ops

theorem inv_insert {α} (v : SplitVec α) (ops : List (α × Bool)) (x : α) (b : Bool) (h : Inv v ops) :
    Inv (v.insert x b) (ops ++ [(x, b)]) := by
  obtain ⟨le, excl, incl⟩ := h
  cases b with
  | true =>
    simp only [SplitVec.insert, if_true]
    refine ⟨by simp; omega, ?_, ?_⟩
    · intro y
      rw [List.take_append_of_le_length le]
      simp [excl y]
    · intro y
      rw [List.drop_append_of_le_length le]
      simp [incl y]
  | false =>
    simp only [SplitVec.insert, Bool.false_eq_true, if_false]
    have hlen : (v.items.take v.split).length = v.split := by simp; omega
    cases hd : v.items.drop v.split with
    | nil =>
      simp only []
      refine ⟨by simp; omega, ?_, ?_⟩
      · intro y
        have : (List.take v.split v.items ++ [x]).length = v.split + 1 := by simp; omega
        rw [List.take_of_length_le (by dsimp only; omega)]
        simp [excl y]
      · intro y
        have : (List.take v.split v.items ++ [x]).length = v.split + 1 := by simp; omega
        rw [List.drop_of_length_le (by dsimp only; omega)]
        have := incl y; rw [hd] at this
        simp at this ⊢; exact this
    | cons z rest =>
      simp only []
      have e : List.take v.split v.items ++ [x] ++ rest ++ [z] = (List.take v.split v.items ++ [x]) ++ (rest ++ [z]) := by
        simp
      have l1 : (List.take v.split v.items ++ [x]).length = v.split + 1 := by simp; omega
      refine ⟨by simp; omega, ?_, ?_⟩
      · intro y
        rw [e, List.take_append_of_le_length (by dsimp only; omega), List.take_of_length_le (by dsimp only; omega)]
        simp [excl y]
      · intro y
        rw [e, List.drop_append_of_le_length (by dsimp only; omega), List.drop_of_length_le (by dsimp only; omega)]
        have := incl y; rw [hd] at this
        simp at this ⊢
        constructor
        · intro h; rcases h with h | h
          · exact this.1 (Or.inr h)
          · exact this.1 (Or.inl h)
        · intro h; rcases this.2 h with h | h
          · exact Or.inr h
          · exact Or.inl h

theorem inv_build {α} (ops : List (α × Bool)) : Inv (build ops) ops := by
  have gen : ∀ (rest done : List (α × Bool)) (v : SplitVec α), Inv v done →
      Inv (rest.foldl (fun v o => v.insert o.1 o.2) v) (done ++ rest) := by
    intro rest
    induction rest with
    | nil => intro done v h; simpa using h
    | cons o rest ih =>
      intro done v h
      have := ih (done ++ [o]) (v.insert o.1 o.2) (inv_insert v done o.1 o.2 h)
      simpa using this
  have := gen ops [] { items := [], split := 0 } ⟨by simp, by simp, by simp⟩
  simpa [build] using this

/-! ### `position` facts -/
theorem position_none {α} (q : α → Bool) (l : List α) : position q l = none ↔ ∀ x ∈ l, q x = false := by
  induction l with
  | nil => simp [position]
  | cons x xs ih =>
    simp only [position]
    by_cases h : q x = true
    · simp [h]
    · simp [h, ih]

theorem position_append {α} (q : α → Bool) (a b : List α) :
    position q (a ++ b) =
      match position q a with
      | some i => some i
      | none => (position q b).map (· + a.length) := by
  induction a with
  | nil => simp [position]
  | cons x xs ih =>
    simp only [List.cons_append, position]
    by_cases h : q x = true
    · simp [h]
    · simp only [h, Bool.false_eq_true, if_false, ih]
      cases position q xs with
      | some i => simp
      | none => cases position q b <;> simp <;> omega

theorem position_lt {α} (q : α → Bool) (l : List α) (i : Nat) (h : position q l = some i) : i < l.length := by
  induction l generalizing i with
  | nil => simp [position] at h
  | cons x xs ih =>
    simp only [position] at h
    by_cases hq : q x = true
    · simp [hq] at h; subst h; simp
    · simp [hq] at h
      obtain ⟨j, hj, rfl⟩ := h
      have := ih j hj; simp; omega

/-- C13: first-match-position semantics = "no skip filter matches, and either there are no positive
    filters or one of them matches". -/
theorem isMatch_iff_split {F P} (m : F → P → Bool) (v : SplitVec F) (p : P) (hle : v.split ≤ v.items.length) :
    isMatch m v p = true ↔
      (∀ f ∈ v.items.take v.split, m f p = false) ∧
      (v.items.drop v.split = [] ∨ ∃ f ∈ v.items.drop v.split, m f p = true) := by
  have hlen : (v.items.take v.split).length = v.split := by simp; omega
  have hsplit : v.items = v.items.take v.split ++ v.items.drop v.split := (List.take_append_drop _ _).symm
  unfold isMatch
  rw [hsplit, position_append]
  simp only [List.take_append_drop]
  cases ha : position (fun f => m f p) (v.items.take v.split) with
  | some i =>
    have hi := position_lt _ _ _ ha
    have hne : ¬ (∀ f ∈ v.items.take v.split, m f p = false) := by
      intro hall; have := (position_none _ _).2 hall; rw [ha] at this; cases this
    simp only []
    constructor
    · intro h; simp at h; omega
    · intro h; exact absurd h.1 hne
  | none =>
    have hall := (position_none _ _).1 ha
    simp only []
    cases hb : position (fun f => m f p) (v.items.drop v.split) with
    | some j =>
      have hj := position_lt _ _ _ hb
      simp only [Option.map_some]
      have hex : ∃ f ∈ v.items.drop v.split, m f p = true := by
        apply Classical.byContradiction; intro hne
        have : ∀ x ∈ v.items.drop v.split, m x p = false := by
          intro x hx; cases hm : m x p with
          | false => rfl
          | true => exact absurd ⟨x, hx, hm⟩ hne
        have := (position_none _ _).2 this; rw [hb] at this; cases this
      constructor
      · intro _; exact ⟨hall, Or.inr hex⟩
      · intro _; simp; omega
    | none =>
      have hnone := (position_none _ _).1 hb
      simp only [Option.map_none]
      constructor
      · intro h
        simp at h
        refine ⟨hall, Or.inl ?_⟩
        have : (v.items.drop v.split).length = 0 := by simp; omega
        exact List.eq_nil_of_length_eq_zero this
      · intro h
        rcases h.2 with h2 | ⟨f, hf, hm⟩
        · have : (v.items.drop v.split).length = 0 := by rw [h2]; rfl
          simp at this ⊢; omega
        · have := hnone f hf; simp [this] at hm

/-- C13, in terms of what the user inserted: positive filters `(f, true)`, skip filters `(f, false)`,
    inserted in any order and any interleaving. -/
theorem isMatch_iff {F P} (m : F → P → Bool) (ops : List (F × Bool)) (p : P) :
    isMatch m (build ops) p = true ↔
      (∀ f, (f, false) ∈ ops → m f p = false) ∧
      ((∀ f, (f, true) ∉ ops) ∨ ∃ f, (f, true) ∈ ops ∧ m f p = true) := by
  have inv := inv_build ops
  rw [isMatch_iff_split m _ p inv.le]
  constructor
  · rintro ⟨h1, h2⟩
    refine ⟨fun f hf => h1 f ((inv.excl f).2 hf), ?_⟩
    rcases h2 with h2 | ⟨f, hf, hm⟩
    · left; intro f hf; have := (inv.incl f).2 hf; rw [h2] at this; simp at this
    · right; exact ⟨f, (inv.incl f).1 hf, hm⟩
  · rintro ⟨h1, h2⟩
    refine ⟨fun f hf => h1 f ((inv.excl f).1 hf), ?_⟩
    rcases h2 with h2 | ⟨f, hf, hm⟩
    · left
      cases hd : (build ops).items.drop (build ops).split with
      | nil => rfl
      | cons y ys =>
        have : y ∈ (build ops).items.drop (build ops).split := by rw [hd]; simp
        exact absurd ((inv.incl y).1 this) (h2 y)
    · right; exact ⟨f, (inv.incl f).2 hf, hm⟩

-- the unit test `mixed` of split_vec.rs, replayed on the model
#eval (build [("abc", false), ("xyz", true), ("123", false), ("456", true), ("789", false)]).items
end Filter
