/-! Prototype: preorder-with-depth rendering of a rose tree and its inverse. -/
namespace TreeRT

inductive Tree where
  | node (name : Nat) (children : List Tree)
  deriving Repr

mutual
  def toPre (d : Nat) : Tree → List (Nat × Nat)
    | .node n cs => (d, n) :: toPreF (d+1) cs
  def toPreF (d : Nat) : List Tree → List (Nat × Nat)
    | [] => []
    | t :: ts => toPre d t ++ toPreF d ts
end

/-- Parse a forest of trees at depth `d` from a line list, with fuel. Returns the forest and the rest. -/
def parseF : Nat → Nat → List (Nat × Nat) → List Tree × List (Nat × Nat)
  | 0, _, ls => ([], ls)
  | _+1, _, [] => ([], [])
  | fuel+1, d, (d', n) :: ls =>
    if d' = d then
      let (cs, rest) := parseF fuel (d+1) ls
      let (sibs, rest') := parseF fuel d rest
      (.node n cs :: sibs, rest')
    else ([], (d', n) :: ls)

#eval parseF 100 0 (toPreF 0 [.node 1 [.node 2 [], .node 3 [.node 4 []]], .node 5 []])

/-- head of the remainder is shallower than `d` (or there is none) -/
def Shallow (d : Nat) : List (Nat × Nat) → Prop
  | [] => True
  | (d', _) :: _ => d' < d

theorem parseF_shallow (f d : Nat) (rest : List (Nat × Nat)) (h : Shallow d rest) :
    parseF f d rest = ([], rest) := by
  cases f with
  | zero => simp [parseF]
  | succ f =>
    cases rest with
    | nil => simp [parseF]
    | cons x xs =>
      obtain ⟨d', n⟩ := x
      simp [Shallow] at h
      have : d' ≠ d := by omega
      simp [parseF, this]

theorem shallow_succ_toPreF (d : Nat) (ts : List Tree) (rest : List (Nat × Nat)) (h : Shallow d rest) :
    Shallow (d+1) (toPreF d ts ++ rest) := by
  cases ts with
  | nil =>
    simp [toPreF]
    cases rest with
    | nil => trivial
    | cons x xs => obtain ⟨d', n⟩ := x; simp [Shallow] at h ⊢; omega
  | cons t ts' =>
    cases t with
    | node n cs => simp [toPreF, toPre, Shallow]

mutual
  theorem parse_toPre (t : Tree) : ∀ (d : Nat) (R : List (Nat × Nat)) (f : Nat),
      Shallow (d+1) R → (toPre d t ++ R).length ≤ f →
      ∀ sibs rest, parseF (f-1) d R = (sibs, rest) →
      parseF f d (toPre d t ++ R) = (t :: sibs, rest) := by
    cases t with
    | node n cs =>
      intro d R f hsh hf sibs rest hs
      cases f with
      | zero => simp [toPre] at hf
      | succ f' =>
        simp [toPre] at hf
        have hc := parse_toPreF cs (d+1) R f' hsh (by simp; omega)
        simp only [toPre, List.cons_append, parseF, if_true, hc]
        simp at hs
        simp [hs]
  theorem parse_toPreF (ts : List Tree) : ∀ (d : Nat) (rest : List (Nat × Nat)) (f : Nat),
      Shallow d rest → (toPreF d ts ++ rest).length ≤ f →
      parseF f d (toPreF d ts ++ rest) = (ts, rest) := by
    cases ts with
    | nil => intro d rest f hsh _; simp [toPreF]; exact parseF_shallow f d rest hsh
    | cons t ts' =>
      intro d rest f hsh hf
      simp only [toPreF, List.append_assoc] at hf ⊢
      have hR := shallow_succ_toPreF d ts' rest hsh
      have hlen : 1 ≤ (toPre d t).length := by cases t; simp [toPre]
      have hsib := parse_toPreF ts' d rest (f-1) hsh (by simp at hf ⊢; omega)
      exact parse_toPre t d (toPreF d ts' ++ rest) f hR (by simpa using hf) ts' rest hsib
end

/-- Round trip: any forest can be parsed back from its depth-annotated preorder. -/
theorem parse_render (ts : List Tree) : parseF (toPreF 0 ts).length 0 (toPreF 0 ts) = (ts, []) := by
  have := parse_toPreF ts 0 [] (toPreF 0 ts).length trivial (by simp)
  simpa using this

end TreeRT
