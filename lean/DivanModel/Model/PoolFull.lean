/-! Prototype (full scope + ghost state for C06: run counters, release/acquire publication): histories of broadcasts on one pool, stale workers, pool drop (C06/C07). Core only.
    Workers are indices 0..m-1 (index i runs task index i+1); the caller runs index 0 itself. -/
namespace PoolFull

inductive CPc | idle | send (i : Nat) | run | check | park
  deriving DecidableEq, Repr

/-- `unparkS` / `afterS`: still finishing the *previous* broadcast (a stale unpark / result drop in flight);
    `fin`: finished the current task, blocked in `recv` again; `exited`: left its loop after the pool was dropped. -/
inductive WPc | idle | run | clone | dec | unpark | after | fin | unparkS | afterS | exited
  deriving DecidableEq, Repr

structure Sys where
  todo    : List Nat          -- aux-thread counts of the broadcasts still to come
  n       : Nat               -- aux-thread count of the current broadcast
  m       : Nat               -- worker threads spawned so far
  c       : CPc
  w       : Nat → WPc
  rc      : Nat               -- ref_count of the current task block
  tok     : Bool              -- caller's park token
  valid   : Bool              -- current task block alive
  dropped : Bool              -- pool dropped (senders gone)
  done    : Nat               -- broadcasts completed
  -- ghost state (does not influence any guard)
  runs    : Nat → Nat         -- how often worker j executed the current task
  pub     : Nat → Bool        -- worker j's call end has been released into the counter's release chain
  seen    : Nat → Bool        -- ... and acquired by the caller
  relOk   : Bool              -- the decrement is (at least) a Release RMW
  acqOk   : Bool              -- the caller's load is (at least) an Acquire load

def updG {α} (f : Nat → α) (i : Nat) (v : α) : Nat → α := fun j => if j = i then v else f j
@[simp] theorem updG_same {α} (f : Nat → α) (i v) : updG f i v i = v := by simp [updG]
@[simp] theorem updG_other {α} (f : Nat → α) (i v j) (h : j ≠ i) : updG f i v j = f j := by simp [updG, h]

def upd (f : Nat → WPc) (i : Nat) (v : WPc) : Nat → WPc := fun j => if j = i then v else f j
@[simp] theorem upd_same (f i v) : upd f i v i = v := by simp [upd]
@[simp] theorem upd_other (f i v j) (h : j ≠ i) : upd f i v j = f j := by simp [upd, h]

/-- what a worker's state means for the *next* broadcast -/
def restale : WPc → WPc
  | .fin => .idle
  | .unpark => .unparkS
  | .after => .afterS
  | x => x

inductive Step : Sys → Sys → Prop
  /-- take the lock, spawn the missing threads, initialise the task block -/
  | begin (s n' rest) : s.c = .idle → s.todo = n' :: rest → s.dropped = false →
      Step s { s with todo := rest, n := n', m := max s.m n', c := .send 0, rc := n', valid := true,
                      w := fun j => restale (s.w j),
                      runs := fun _ => 0, pub := fun _ => false, seen := fun _ => false }
  | send (s i) : s.c = .send i → i < s.n → s.w i = .idle →
      Step s { s with c := .send (i+1), w := upd s.w i .run }
  | sendDone (s i) : s.c = .send i → ¬ i < s.n → Step s { s with c := .run }
  | crun (s) : s.c = .run → Step s { s with c := .check }
  | checkZero (s) : s.c = .check → s.rc = 0 →
      Step s { s with c := .idle, valid := false, done := s.done + 1,
                      seen := if s.acqOk then (fun j => s.seen j || s.pub j) else s.seen }
  | checkPos (s) : s.c = .check → s.rc ≠ 0 →
      Step s { s with c := .park, seen := if s.acqOk then (fun j => s.seen j || s.pub j) else s.seen }
  | park (s) : s.c = .park → s.tok = true → Step s { s with c := .check, tok := false }
  | wrun (s i) : s.w i = .run → Step s { s with w := upd s.w i .clone, runs := updG s.runs i (s.runs i + 1) }
  | wclone (s i) : s.w i = .clone → s.valid = true → Step s { s with w := upd s.w i .dec }
  | wdecLast (s i) : s.w i = .dec → s.valid = true → s.rc = 1 →
      Step s { s with w := upd s.w i .unpark, rc := s.rc - 1,
                      pub := if s.relOk then updG s.pub i true else s.pub }
  | wdec (s i) : s.w i = .dec → s.valid = true → s.rc ≠ 1 →
      Step s { s with w := upd s.w i .after, rc := s.rc - 1,
                      pub := if s.relOk then updG s.pub i true else s.pub }
  | wunpark (s i) : s.w i = .unpark → Step s { s with w := upd s.w i .after, tok := true }
  | wafter (s i) : s.w i = .after → Step s { s with w := upd s.w i .fin }
  | wunparkS (s i) : s.w i = .unparkS → Step s { s with w := upd s.w i .afterS, tok := true }
  | wafterS (s i) : s.w i = .afterS → Step s { s with w := upd s.w i .idle }
  | dropPool (s) : s.c = .idle → s.todo = [] → s.dropped = false → Step s { s with dropped := true }
  | wexit (s i) : s.dropped = true → i < s.m → (s.w i = .idle ∨ s.w i = .fin) → Step s { s with w := upd s.w i .exited }

/-- not yet decremented the current count (includes workers that still have to receive the task) -/
def notDec : WPc → Bool
  | .idle | .run | .clone | .dec | .unparkS | .afterS => true
  | _ => false

def isUnpark : WPc → Bool | .unpark => true | _ => false

/-- may still be handed the current task -/
def waiting : WPc → Bool | .idle | .unparkS | .afterS => true | _ => false
/-- has been handed the current task -/
def sent : WPc → Bool | .run | .clone | .dec | .unpark | .after | .fin => true | _ => false
/-- touches the task block -/
def busy : WPc → Bool | .run | .clone | .dec => true | _ => false

def cnt (p : WPc → Bool) (f : Nat → WPc) : Nat → Nat
  | 0 => 0
  | k+1 => cnt p f k + (if p (f k) then 1 else 0)

theorem cnt_upd_ge (p : WPc → Bool) (f : Nat → WPc) (i : Nat) (v : WPc) (k : Nat) (h : k ≤ i) :
    cnt p (upd f i v) k = cnt p f k := by
  induction k with
  | zero => rfl
  | succ m ih => simp [cnt, ih (by omega), upd_other f i v m (by omega)]

theorem cnt_upd_lt (p : WPc → Bool) (f : Nat → WPc) (i : Nat) (v : WPc) (k : Nat) (h : i < k) :
    cnt p (upd f i v) k + (if p (f i) then 1 else 0) = cnt p f k + (if p v then 1 else 0) := by
  induction k with
  | zero => omega
  | succ m ih =>
    by_cases hm : i = m
    · subst hm; simp [cnt, cnt_upd_ge p f i v i (Nat.le_refl _)]; omega
    · have := ih (by omega); simp [cnt, upd_other f i v m (by omega)]; omega

/-- an update outside `[0,k)` or one that does not change `p` leaves the count alone -/
theorem cnt_upd_same (p : WPc → Bool) (f : Nat → WPc) (i : Nat) (v : WPc) (k : Nat) (h : p v = p (f i)) :
    cnt p (upd f i v) k = cnt p f k := by
  by_cases hik : i < k
  · have := cnt_upd_lt p f i v k hik; rw [h] at this; omega
  · exact cnt_upd_ge p f i v k (by omega)

theorem cnt_all (p : WPc → Bool) (f : Nat → WPc) (k : Nat) (h : ∀ j, j < k → p (f j) = true) : cnt p f k = k := by
  induction k with
  | zero => rfl
  | succ m ih => simp [cnt, ih (fun j hj => h j (by omega)), h m (by omega)]

theorem cnt_none (p : WPc → Bool) (f : Nat → WPc) (k : Nat) (h : ∀ j, j < k → p (f j) = false) : cnt p f k = 0 := by
  induction k with
  | zero => rfl
  | succ m ih => simp [cnt, ih (fun j hj => h j (by omega)), h m (by omega)]

theorem cnt_pos_exists (p : WPc → Bool) (f : Nat → WPc) (k : Nat) (h : 0 < cnt p f k) :
    ∃ j, j < k ∧ p (f j) = true := by
  induction k with
  | zero => simp [cnt] at h
  | succ m ih =>
    simp only [cnt] at h
    by_cases hp : p (f m) = true
    · exact ⟨m, by omega, hp⟩
    · simp [hp] at h; obtain ⟨j, hj, hpj⟩ := ih h; exact ⟨j, by omega, hpj⟩

theorem cnt_zero_forall (p : WPc → Bool) (f : Nat → WPc) (k : Nat) (h : cnt p f k = 0) :
    ∀ j, j < k → p (f j) = false := by
  induction k with
  | zero => intro j hj; omega
  | succ m ih =>
    simp only [cnt] at h
    intro j hj
    by_cases hjm : j = m
    · subst hjm; by_cases hp : p (f j) = true
      · simp [hp] at h
      · simpa using hp
    · exact ih (by omega) j (by omega)

/-- has executed the task of the current broadcast -/
def called : WPc → Bool | .clone | .dec | .unpark | .after | .fin => true | _ => false

def frontier : CPc → Nat → Nat
  | .send i, _ => i
  | _, n => n

/-- the driver's reaction to a spurious `park` return in an event log: the caller re-checks the count;
    `Props/C07Spurious.spuriousFn_sound`: this is the step `StepS.spurious` -/
def spuriousFn (s : Sys) : Option Sys := if s.c = .park then some { s with c := .check } else none

/-- Invariant. `act` = a broadcast is in progress. -/
structure Inv (s : Sys) : Prop where
  nm    : s.c ≠ .idle → s.n ≤ s.m
  sendB : s.c ≠ .idle → frontier s.c s.n ≤ s.n
  waitB : s.c ≠ .idle → ∀ j, frontier s.c s.n ≤ j → waiting (s.w j) = true
  sentB : s.c ≠ .idle → ∀ j, j < frontier s.c s.n → sent (s.w j) = true
  rcEq  : s.c ≠ .idle → s.rc = cnt notDec s.w s.n
  validB : s.valid = true ↔ s.c ≠ .idle
  unpB  : s.c ≠ .idle → cnt isUnpark s.w s.n ≤ 1 ∧ (0 < cnt isUnpark s.w s.n → s.rc = 0)
  wakeB : s.c = .park → s.rc = 0 → s.tok = true ∨ 0 < cnt isUnpark s.w s.n
  /-- between broadcasts nobody touches a task block -/
  quiet : s.c = .idle → ∀ j, busy (s.w j) = false
  /-- threads that were never spawned do nothing; nobody exits before the pool is dropped -/
  beyond : ∀ j, s.m ≤ j → s.w j = .idle
  noExit : s.dropped = false → ∀ j, s.w j ≠ .exited
  dropI : s.dropped = true → s.c = .idle ∧ s.todo = []

def init (todo : List Nat) (tok relOk acqOk : Bool) : Sys :=
  { todo, n := 0, m := 0, c := .idle, w := fun _ => .idle, rc := 0, tok, valid := false, dropped := false, done := 0,
    runs := fun _ => 0, pub := fun _ => false, seen := fun _ => false, relOk, acqOk }

theorem inv_init (todo tok r a) : Inv (init todo tok r a) := by
  constructor <;> simp [init, busy]


theorem restale_waiting (x : WPc) (h1 : busy x = false) (h2 : x ≠ .exited) : waiting (restale x) = true := by
  cases x <;> simp_all [busy, restale, waiting]

theorem waiting_notDec (x : WPc) (h : waiting x = true) : notDec x = true ∧ isUnpark x = false ∧ sent x = false ∧ busy x = false := by
  cases x <;> simp_all [waiting, notDec, isUnpark, sent, busy]

/-- a worker in a `sent` state during a broadcast has an index below the frontier -/
theorem sent_lt (s : Sys) (h : Inv s) (hc : s.c ≠ .idle) (i : Nat) (hs : sent (s.w i) = true) :
    i < frontier s.c s.n ∧ i < s.n := by
  have hw := h.waitB hc i
  have hf := h.sendB hc
  by_cases hi : frontier s.c s.n ≤ i
  · have := (waiting_notDec _ (hw hi)).2.2.1; rw [this] at hs; cases hs
  · omega

theorem busy_active (s : Sys) (h : Inv s) (i : Nat) (hb : busy (s.w i) = true) : s.c ≠ .idle := by
  intro hc; have := h.quiet hc i; rw [this] at hb; cases hb

theorem inv_begin (s : Sys) (h : Inv s) (n' : Nat) (rest : List Nat) (hc : s.c = .idle) (ht : s.todo = n' :: rest) (hd : s.dropped = false) :
    Inv { s with todo := rest, n := n', m := max s.m n', c := .send 0, rc := n', valid := true, w := fun j => restale (s.w j) } := by
  have hI := h
  obtain ⟨nm, sendB, waitB, sentB, rcEq, validB, unpB, wakeB, quiet, beyond, noExit, dropI⟩ := h
  have hq := quiet hc
  have hne := noExit hd
  have hw : ∀ j, waiting (restale (s.w j)) = true := fun j => restale_waiting _ (hq j) (hne j)
  have c1 : cnt notDec (fun j => restale (s.w j)) n' = n' :=
    cnt_all _ _ _ (fun j _ => (waiting_notDec _ (hw j)).1)
  have c2 : cnt isUnpark (fun j => restale (s.w j)) n' = 0 :=
    cnt_none _ _ _ (fun j _ => (waiting_notDec _ (hw j)).2.1)
  refine ⟨?_, ?_, ?_, ?_, ?_, ?_, ?_, ?_, ?_, ?_, ?_, ?_⟩
  · intro _; exact Nat.le_max_right _ _
  · intro _; simp [frontier]
  · intro _ j _; exact hw j
  · intro _ j hj; simp [frontier] at hj
  · intro _; simp [c1]
  · simp
  · intro _; simp [c2]
  · intro hp; simp at hp
  · intro hp; simp at hp
  · intro j hj
    dsimp only at hj ⊢
    have : s.m ≤ j := by have := Nat.le_max_left s.m n'; omega
    simp [beyond j this, restale]
  · intro _ j he
    dsimp only at he
    have := hw j; rw [he] at this; simp [waiting] at this
  · intro hdd; simp [hd] at hdd

theorem inv_send (s : Sys) (h : Inv s) (i : Nat) (hc : s.c = .send i) (hlt : i < s.n) (hidle : s.w i = .idle) :
    Inv { s with c := .send (i+1), w := upd s.w i .run } := by
  have hI := h
  obtain ⟨nm, sendB, waitB, sentB, rcEq, validB, unpB, wakeB, quiet, beyond, noExit, dropI⟩ := h
  have hcne : s.c ≠ .idle := by simp [hc]
  have hc1 := cnt_upd_lt notDec s.w i .run s.n hlt
  have hc2 := cnt_upd_lt isUnpark s.w i .run s.n hlt
  constructor <;> simp_all [frontier, notDec, isUnpark, waiting, sent, busy] <;> grind [upd, waiting, sent, busy]

theorem inv_sendDone (s : Sys) (h : Inv s) (i : Nat) (hc : s.c = .send i) (hlt : ¬ i < s.n) :
    Inv { s with c := .run } := by
  have hI := h
  obtain ⟨nm, sendB, waitB, sentB, rcEq, validB, unpB, wakeB, quiet, beyond, noExit, dropI⟩ := h
  have hcne : s.c ≠ .idle := by simp [hc]
  constructor <;> simp_all [frontier] <;> grind

theorem inv_crun (s : Sys) (h : Inv s) (hc : s.c = .run) :
    Inv { s with c := .check } := by
  have hI := h
  obtain ⟨nm, sendB, waitB, sentB, rcEq, validB, unpB, wakeB, quiet, beyond, noExit, dropI⟩ := h
  constructor <;> simp_all [frontier]

theorem inv_checkZero (s : Sys) (h : Inv s) (hc : s.c = .check) (hz : s.rc = 0) :
    Inv { s with c := .idle, valid := false, done := s.done + 1 } := by
  have hI := h
  obtain ⟨nm, sendB, waitB, sentB, rcEq, validB, unpB, wakeB, quiet, beyond, noExit, dropI⟩ := h
  have hcne : s.c ≠ .idle := by simp [hc]
  have hz' : cnt notDec s.w s.n = 0 := by rw [← rcEq hcne]; exact hz
  have hall := cnt_zero_forall notDec s.w s.n hz'
  refine ⟨by simp, by simp, by simp, by simp, by simp, by simp, by simp, by simp, ?_, beyond, noExit, ?_⟩
  · intro _ j
    by_cases hj : j < s.n
    · have := hall j hj
      cases hw : s.w j <;> simp_all [notDec, busy]
    · have := waitB hcne j (by simp [hc, frontier]; omega)
      exact (waiting_notDec _ this).2.2.2
  · intro hd; have := dropI hd; simp [hc] at this

theorem inv_checkPos (s : Sys) (h : Inv s) (hc : s.c = .check) (hz : s.rc ≠ 0) :
    Inv { s with c := .park } := by
  have hI := h
  obtain ⟨nm, sendB, waitB, sentB, rcEq, validB, unpB, wakeB, quiet, beyond, noExit, dropI⟩ := h
  constructor <;> simp_all [frontier]

theorem inv_park (s : Sys) (h : Inv s) (hc : s.c = .park) (ht : s.tok = true) :
    Inv { s with c := .check, tok := false } := by
  have hI := h
  obtain ⟨nm, sendB, waitB, sentB, rcEq, validB, unpB, wakeB, quiet, beyond, noExit, dropI⟩ := h
  constructor <;> simp_all [frontier]

theorem inv_wrun (s : Sys) (h : Inv s) (i : Nat) (hw : s.w i = .run) :
    Inv { s with w := upd s.w i .clone } := by
  have hI := h
  obtain ⟨nm, sendB, waitB, sentB, rcEq, validB, unpB, wakeB, quiet, beyond, noExit, dropI⟩ := h
  have hcne := busy_active s hI i (by simp [hw, busy])
  obtain ⟨hf, hlt⟩ := sent_lt s hI hcne i (by simp [hw, sent])
  have hc1 := cnt_upd_same notDec s.w i .clone s.n (by simp [hw, notDec])
  have hc2 := cnt_upd_same isUnpark s.w i .clone s.n (by simp [hw, isUnpark])
  constructor <;> simp_all [frontier] <;> grind [upd, waiting, sent, busy]

theorem inv_wclone (s : Sys) (h : Inv s) (i : Nat) (hw : s.w i = .clone) (hv : s.valid = true) :
    Inv { s with w := upd s.w i .dec } := by
  have hI := h
  obtain ⟨nm, sendB, waitB, sentB, rcEq, validB, unpB, wakeB, quiet, beyond, noExit, dropI⟩ := h
  have hcne := busy_active s hI i (by simp [hw, busy])
  obtain ⟨hf, hlt⟩ := sent_lt s hI hcne i (by simp [hw, sent])
  have hc1 := cnt_upd_same notDec s.w i .dec s.n (by simp [hw, notDec])
  have hc2 := cnt_upd_same isUnpark s.w i .dec s.n (by simp [hw, isUnpark])
  constructor <;> simp_all [frontier] <;> grind [upd, waiting, sent, busy]

theorem inv_wdecLast (s : Sys) (h : Inv s) (i : Nat) (hw : s.w i = .dec) (hv : s.valid = true) (h1 : s.rc = 1) :
    Inv { s with w := upd s.w i .unpark, rc := s.rc - 1 } := by
  have hI := h
  obtain ⟨nm, sendB, waitB, sentB, rcEq, validB, unpB, wakeB, quiet, beyond, noExit, dropI⟩ := h
  have hcne := busy_active s hI i (by simp [hw, busy])
  obtain ⟨hf, hlt⟩ := sent_lt s hI hcne i (by simp [hw, sent])
  have hc1 := cnt_upd_lt notDec s.w i .unpark s.n hlt
  have hc2 := cnt_upd_lt isUnpark s.w i .unpark s.n hlt
  constructor <;> simp_all [frontier, notDec, isUnpark] <;> grind [upd, waiting, sent, busy]

theorem inv_wdec (s : Sys) (h : Inv s) (i : Nat) (hw : s.w i = .dec) (hv : s.valid = true) (h1 : s.rc ≠ 1) :
    Inv { s with w := upd s.w i .after, rc := s.rc - 1 } := by
  have hI := h
  obtain ⟨nm, sendB, waitB, sentB, rcEq, validB, unpB, wakeB, quiet, beyond, noExit, dropI⟩ := h
  have hcne := busy_active s hI i (by simp [hw, busy])
  obtain ⟨hf, hlt⟩ := sent_lt s hI hcne i (by simp [hw, sent])
  have hc1 := cnt_upd_lt notDec s.w i .after s.n hlt
  have hc2 := cnt_upd_lt isUnpark s.w i .after s.n hlt
  constructor <;> simp_all [frontier, notDec, isUnpark] <;> grind [upd, waiting, sent, busy]

theorem inv_wunpark (s : Sys) (h : Inv s) (i : Nat) (hw : s.w i = .unpark) :
    Inv { s with w := upd s.w i .after, tok := true } := by
  have hI := h
  obtain ⟨nm, sendB, waitB, sentB, rcEq, validB, unpB, wakeB, quiet, beyond, noExit, dropI⟩ := h
  by_cases hci : s.c = .idle
  · constructor <;> simp_all [frontier] <;> grind [upd, busy]
  · obtain ⟨hf, hlt⟩ := sent_lt s hI hci i (by simp [hw, sent])
    have hc1 := cnt_upd_same notDec s.w i .after s.n (by simp [hw, notDec])
    have hc2 := cnt_upd_lt isUnpark s.w i .after s.n hlt
    constructor <;> simp_all [frontier, isUnpark] <;> grind [upd, waiting, sent, busy]

theorem inv_wafter (s : Sys) (h : Inv s) (i : Nat) (hw : s.w i = .after) :
    Inv { s with w := upd s.w i .fin } := by
  have hI := h
  obtain ⟨nm, sendB, waitB, sentB, rcEq, validB, unpB, wakeB, quiet, beyond, noExit, dropI⟩ := h
  have hc1 := cnt_upd_same notDec s.w i .fin s.n (by simp [hw, notDec])
  have hc2 := cnt_upd_same isUnpark s.w i .fin s.n (by simp [hw, isUnpark])
  constructor <;> simp_all [frontier] <;> grind [upd, waiting, sent, busy]

theorem inv_wunparkS (s : Sys) (h : Inv s) (i : Nat) (hw : s.w i = .unparkS) :
    Inv { s with w := upd s.w i .afterS, tok := true } := by
  have hI := h
  obtain ⟨nm, sendB, waitB, sentB, rcEq, validB, unpB, wakeB, quiet, beyond, noExit, dropI⟩ := h
  have hc1 := cnt_upd_same notDec s.w i .afterS s.n (by simp [hw, notDec])
  have hc2 := cnt_upd_same isUnpark s.w i .afterS s.n (by simp [hw, isUnpark])
  constructor <;> simp_all [frontier] <;> grind [upd, waiting, sent, busy]

theorem inv_wafterS (s : Sys) (h : Inv s) (i : Nat) (hw : s.w i = .afterS) :
    Inv { s with w := upd s.w i .idle } := by
  have hI := h
  obtain ⟨nm, sendB, waitB, sentB, rcEq, validB, unpB, wakeB, quiet, beyond, noExit, dropI⟩ := h
  have hc1 := cnt_upd_same notDec s.w i .idle s.n (by simp [hw, notDec])
  have hc2 := cnt_upd_same isUnpark s.w i .idle s.n (by simp [hw, isUnpark])
  constructor <;> simp_all [frontier] <;> grind [upd, waiting, sent, busy]

theorem inv_dropPool (s : Sys) (h : Inv s) (hc : s.c = .idle) (ht : s.todo = []) (hd : s.dropped = false) :
    Inv { s with dropped := true } := by
  have hI := h
  obtain ⟨nm, sendB, waitB, sentB, rcEq, validB, unpB, wakeB, quiet, beyond, noExit, dropI⟩ := h
  constructor <;> simp_all [frontier]

theorem inv_wexit (s : Sys) (h : Inv s) (i : Nat) (hd : s.dropped = true) (hi : i < s.m)
    (hw : s.w i = .idle ∨ s.w i = .fin) : Inv { s with w := upd s.w i .exited } := by
  have hI := h
  obtain ⟨nm, sendB, waitB, sentB, rcEq, validB, unpB, wakeB, quiet, beyond, noExit, dropI⟩ := h
  have hci := (dropI hd).1
  constructor <;> simp_all [frontier] <;> grind [upd, busy]

/-- the invariant does not look at the ghost fields -/
theorem inv_ghost_irrel (s : Sys) (r : Nat → Nat) (p q : Nat → Bool) (h : Inv s) :
    Inv { s with runs := r, pub := p, seen := q } := by
  obtain ⟨nm, sendB, waitB, sentB, rcEq, validB, unpB, wakeB, quiet, beyond, noExit, dropI⟩ := h
  exact ⟨nm, sendB, waitB, sentB, rcEq, validB, unpB, wakeB, quiet, beyond, noExit, dropI⟩

theorem inv_step (s s' : Sys) (h : Inv s) (hs : Step s s') : Inv s' := by
  cases hs with
  | begin n' rest hc ht hd => exact inv_ghost_irrel _ _ _ _ (inv_begin s h n' rest hc ht hd)
  | send i hc hlt hidle => exact inv_send s h i hc hlt hidle
  | sendDone i hc hlt => exact inv_sendDone s h i hc hlt
  | crun hc => exact inv_crun s h hc
  | checkZero hc hz => exact inv_ghost_irrel _ _ _ _ (inv_checkZero s h hc hz)
  | checkPos hc hz => exact inv_ghost_irrel _ _ _ _ (inv_checkPos s h hc hz)
  | park hc ht => exact inv_park s h hc ht
  | wrun i hw => exact inv_ghost_irrel _ _ _ _ (inv_wrun s h i hw)
  | wclone i hw hv => exact inv_wclone s h i hw hv
  | wdecLast i hw hv h1 => exact inv_ghost_irrel _ _ _ _ (inv_wdecLast s h i hw hv h1)
  | wdec i hw hv h1 => exact inv_ghost_irrel _ _ _ _ (inv_wdec s h i hw hv h1)
  | wunpark i hw => exact inv_wunpark s h i hw
  | wafter i hw => exact inv_wafter s h i hw
  | wunparkS i hw => exact inv_wunparkS s h i hw
  | wafterS i hw => exact inv_wafterS s h i hw
  | dropPool hc ht hd => exact inv_dropPool s h hc ht hd
  | wexit i hd hi hw => exact inv_wexit s h i hd hi hw

/-- every reachable state satisfies the invariant -/
inductive Reach (todo : List Nat) (tok r a : Bool) : Sys → Prop
  | init : Reach todo tok r a (init todo tok r a)
  | step (s s') : Reach todo tok r a s → Step s s' → Reach todo tok r a s'

theorem reach_inv (todo tok r a s) (h : Reach todo tok r a s) : Inv s := by
  induction h with
  | init => exact inv_init todo tok r a
  | step s s' _ hs ih => exact inv_step s s' ih hs

/-- C06: whenever a broadcast completes (the caller observes the count at zero and returns), every worker
    that was handed the task has finished its call and published it, and nobody is still inside the block. -/
theorem returns_after_all_calls (s : Sys) (h : Inv s) (hc : s.c = .check) (hz : s.rc = 0) :
    ∀ j, j < s.n → notDec (s.w j) = false ∧ busy (s.w j) = false := by
  have hcne : s.c ≠ .idle := by simp [hc]
  have hz' : cnt notDec s.w s.n = 0 := by rw [← h.rcEq hcne]; exact hz
  intro j hj
  have := cnt_zero_forall notDec s.w s.n hz' j hj
  refine ⟨this, ?_⟩
  cases hw : s.w j <;> simp_all [notDec, busy]


/-! ### C07 on histories: deadlock freedom -/

def Final (s : Sys) : Prop := s.c = .idle ∧ s.todo = [] ∧ s.dropped = true ∧ ∀ j, j < s.m → s.w j = .exited

/-- a worker that is neither blocked in `recv` nor exited can always move (given a live block if it needs one) -/
theorem worker_moves (s : Sys) (j : Nat) (hni : s.w j ≠ .idle) (hnf : s.w j ≠ .fin) (hne : s.w j ≠ .exited)
    (hv : busy (s.w j) = true → s.valid = true) : ∃ s', Step s s' := by
  cases hw : s.w j with
  | idle => exact absurd hw hni
  | fin => exact absurd hw hnf
  | exited => exact absurd hw hne
  | run => exact ⟨_, Step.wrun s j hw⟩
  | clone => exact ⟨_, Step.wclone s j hw (hv (by simp [hw, busy]))⟩
  | dec =>
    have hval := hv (by simp [hw, busy])
    by_cases h1 : s.rc = 1
    · exact ⟨_, Step.wdecLast s j hw hval h1⟩
    · exact ⟨_, Step.wdec s j hw hval h1⟩
  | unpark => exact ⟨_, Step.wunpark s j hw⟩
  | after => exact ⟨_, Step.wafter s j hw⟩
  | unparkS => exact ⟨_, Step.wunparkS s j hw⟩
  | afterS => exact ⟨_, Step.wafterS s j hw⟩

theorem deadlock_free (s : Sys) (h : Inv s) (hnf : ¬ Final s) : ∃ s', Step s s' := by
  have hI := h
  obtain ⟨nm, sendB, waitB, sentB, rcEq, validB, unpB, wakeB, quiet, beyond, noExit, dropI⟩ := h
  cases hc : s.c with
  | idle =>
    by_cases hd : s.dropped = true
    · -- pool dropped: somebody has not exited yet
      have htodo := (dropI hd).2
      have : ∃ j, j < s.m ∧ s.w j ≠ .exited := by
        apply Classical.byContradiction; intro hne
        apply hnf; refine ⟨hc, htodo, hd, ?_⟩
        intro j hj; apply Classical.byContradiction; intro hj'; exact hne ⟨j, hj, hj'⟩
      obtain ⟨j, hj, hje⟩ := this
      by_cases hi : s.w j = .idle
      · exact ⟨_, Step.wexit s j hd hj (Or.inl hi)⟩
      by_cases hf : s.w j = .fin
      · exact ⟨_, Step.wexit s j hd hj (Or.inr hf)⟩
      exact worker_moves s j hi hf hje (by intro hb; have := quiet hc j; rw [this] at hb; cases hb)
    · have hd' : s.dropped = false := by simpa using hd
      cases ht : s.todo with
      | nil => exact ⟨_, Step.dropPool s hc ht hd'⟩
      | cons n' rest => exact ⟨_, Step.begin s n' rest hc ht hd'⟩
  | send i =>
    have hcne : s.c ≠ .idle := by simp [hc]
    by_cases hi : i < s.n
    · have hwait := waitB hcne i (by simp [hc, frontier])
      by_cases hidle : s.w i = .idle
      · exact ⟨_, Step.send s i hc hi hidle⟩
      · -- the worker is still finishing the previous broadcast; it can move
        apply worker_moves s i hidle
        · intro hf; rw [hf] at hwait; simp [waiting] at hwait
        · intro hf; rw [hf] at hwait; simp [waiting] at hwait
        · intro hb; have := (waiting_notDec _ hwait).2.2.2; rw [this] at hb; cases hb
    · exact ⟨_, Step.sendDone s i hc hi⟩
  | run => exact ⟨_, Step.crun s hc⟩
  | check =>
    by_cases hz : s.rc = 0
    · exact ⟨_, Step.checkZero s hc hz⟩
    · exact ⟨_, Step.checkPos s hc hz⟩
  | park =>
    have hcne : s.c ≠ .idle := by simp [hc]
    have hval : s.valid = true := validB.2 hcne
    by_cases ht : s.tok = true
    · exact ⟨_, Step.park s hc ht⟩
    · by_cases hz : s.rc = 0
      · have hpos : 0 < cnt isUnpark s.w s.n := by
          rcases wakeB hc hz with h | h
          · exact absurd h ht
          · exact h
        obtain ⟨j, hj, hp⟩ := cnt_pos_exists _ _ _ hpos
        have hw : s.w j = .unpark := by cases hw : s.w j <;> simp [hw, isUnpark] at hp ⊢
        exact ⟨_, Step.wunpark s j hw⟩
      · have hpos : 0 < cnt notDec s.w s.n := by rw [← rcEq hcne]; omega
        obtain ⟨j, hj, hp⟩ := cnt_pos_exists _ _ _ hpos
        have hsent := sentB hcne j (by simp [hc, frontier]; exact hj)
        apply worker_moves s j
        · intro hf; rw [hf] at hsent; simp [sent] at hsent
        · intro hf; rw [hf] at hp; simp [notDec] at hp
        · intro hf; rw [hf] at hsent; simp [sent] at hsent
        · intro _; exact hval


/-! ### C07 on histories: every run terminates (lexicographic measure) -/

def wRem : WPc → Nat
  | .exited => 0 | .idle => 1 | .fin => 1 | .after => 2 | .unpark => 3 | .dec => 4 | .clone => 5 | .run => 6
  | .afterS => 2 | .unparkS => 3

def sumW (f : Nat → WPc) : Nat → Nat
  | 0 => 0
  | k+1 => sumW f k + wRem (f k)

theorem sumW_upd_ge (f : Nat → WPc) (i : Nat) (v : WPc) (k : Nat) (h : k ≤ i) :
    sumW (upd f i v) k = sumW f k := by
  induction k with
  | zero => rfl
  | succ m ih => simp [sumW, ih (by omega), upd_other f i v m (by omega)]

theorem sumW_upd_lt (f : Nat → WPc) (i : Nat) (v : WPc) (k : Nat) (h : i < k) :
    sumW (upd f i v) k + wRem (f i) = sumW f k + wRem v := by
  induction k with
  | zero => omega
  | succ m ih =>
    by_cases hm : i = m
    · subst hm; simp [sumW, sumW_upd_ge f i v i (Nat.le_refl _)]; omega
    · have := ih (by omega); simp [sumW, upd_other f i v m (by omega)]; omega

def isUnparkAny : WPc → Bool | .unpark => true | .unparkS => true | _ => false
def b2n (b : Bool) : Nat := if b then 1 else 0

def pot (s : Sys) : Nat := b2n s.tok + cnt isUnparkAny s.w s.m + (if s.rc = 0 then 0 else 1)

def rank (s : Sys) : Nat :=
  match s.c with
  | .idle   => 0
  | .send i => 6 * (s.n - i) + 2 * pot s + 4
  | .run    => 2 * pot s + 3
  | .check  => 2 * pot s + 2
  | .park   => 2 * pot s + 1

/-- outer component: broadcasts still to start, plus the final drop -/
def mA (s : Sys) : Nat := s.todo.length + (if s.dropped then 0 else 1)
/-- inner component: work left inside the current phase -/
def mB (s : Sys) : Nat := sumW s.w s.m + rank s

def lexLt (s' s : Sys) : Prop := mA s' < mA s ∨ (mA s' = mA s ∧ mB s' < mB s)

/-- a worker that is not `idle` has been spawned -/
theorem spawned (s : Sys) (h : Inv s) (i : Nat) (hne : s.w i ≠ .idle) : i < s.m := by
  apply Classical.byContradiction; intro hn
  exact hne (h.beyond i (by omega))

theorem inner_worker (s : Sys) (i : Nat) (v : WPc) (tok' : Bool) (rc' : Nat) (him : i < s.m)
    (hw : wRem v < wRem (s.w i))
    (hp : b2n tok' + cnt isUnparkAny (upd s.w i v) s.m + (if rc' = 0 then 0 else 1) ≤ pot s) :
    mB { s with w := upd s.w i v, tok := tok', rc := rc' } < mB s := by
  have h1 := sumW_upd_lt s.w i v s.m him
  simp only [mB, rank, pot] at hp ⊢
  cases s.c <;> simp <;> omega

theorem meas_decreases (s s' : Sys) (h : Inv s) (hs : Step s s') : lexLt s' s := by
  have hI := h
  obtain ⟨nm, sendB, waitB, sentB, rcEq, validB, unpB, wakeB, quiet, beyond, noExit, dropI⟩ := h
  cases hs with
  | begin n' rest hc ht hd => left; simp [mA, ht, hd]
  | dropPool hc ht hd => left; simp [mA, ht, hd]
  | send i hc hlt hidle =>
    right; refine ⟨rfl, ?_⟩
    have hcne : s.c ≠ .idle := by simp [hc]
    have him : i < s.m := by have := nm hcne; omega
    have h1 := sumW_upd_lt s.w i .run s.m him
    have h2 := cnt_upd_same isUnparkAny s.w i .run s.m (by simp [hidle, isUnparkAny])
    simp [mB, rank, pot, hc, hidle, wRem, h2] at h1 ⊢; omega
  | sendDone i hc hlt => right; refine ⟨rfl, ?_⟩; simp [mB, rank, pot, hc]; omega
  | crun hc => right; refine ⟨rfl, ?_⟩; simp [mB, rank, pot, hc]
  | checkZero hc hz => right; refine ⟨rfl, ?_⟩; simp [mB, rank, pot, hc]
  | checkPos hc hz => right; refine ⟨rfl, ?_⟩; simp [mB, rank, pot, hc]
  | park hc ht => right; refine ⟨rfl, ?_⟩; simp [mB, rank, pot, hc, ht, b2n]; omega
  | wrun i hw =>
    right; refine ⟨rfl, ?_⟩
    have him := spawned s hI i (by simp [hw])
    have h2 := cnt_upd_same isUnparkAny s.w i .clone s.m (by simp [hw, isUnparkAny])
    exact inner_worker s i .clone s.tok s.rc him (by simp [hw, wRem]) (by simp [pot, h2])
  | wclone i hw hv =>
    right; refine ⟨rfl, ?_⟩
    have him := spawned s hI i (by simp [hw])
    have h2 := cnt_upd_same isUnparkAny s.w i .dec s.m (by simp [hw, isUnparkAny])
    exact inner_worker s i .dec s.tok s.rc him (by simp [hw, wRem]) (by simp [pot, h2])
  | wdecLast i hw hv h1 =>
    right; refine ⟨rfl, ?_⟩
    have him := spawned s hI i (by simp [hw])
    have h2 := cnt_upd_lt isUnparkAny s.w i .unpark s.m him
    simp [hw, isUnparkAny] at h2
    exact inner_worker s i .unpark s.tok (s.rc - 1) him (by simp [hw, wRem]) (by simp [pot, h1]; omega)
  | wdec i hw hv h1 =>
    right; refine ⟨rfl, ?_⟩
    have him := spawned s hI i (by simp [hw])
    have h2 := cnt_upd_same isUnparkAny s.w i .after s.m (by simp [hw, isUnparkAny])
    have hcne := busy_active s hI i (by simp [hw, busy])
    obtain ⟨_, hlt⟩ := sent_lt s hI hcne i (by simp [hw, sent])
    have h3 := cnt_upd_lt notDec s.w i .after s.n hlt
    simp [hw, notDec] at h3
    have hrc := rcEq hcne
    have e1 : ¬ (s.rc - 1 = 0) := by omega
    have e2 : ¬ (s.rc = 0) := by omega
    exact inner_worker s i .after s.tok (s.rc - 1) him (by simp [hw, wRem]) (by simp [pot, h2, e1, e2])
  | wunpark i hw =>
    right; refine ⟨rfl, ?_⟩
    have him := spawned s hI i (by simp [hw])
    have h2 := cnt_upd_lt isUnparkAny s.w i .after s.m him
    simp [hw, isUnparkAny] at h2
    exact inner_worker s i .after true s.rc him (by simp [hw, wRem])
      (by simp only [pot, b2n]; cases s.tok <;> simp <;> omega)
  | wafter i hw =>
    right; refine ⟨rfl, ?_⟩
    have him := spawned s hI i (by simp [hw])
    have h2 := cnt_upd_same isUnparkAny s.w i .fin s.m (by simp [hw, isUnparkAny])
    exact inner_worker s i .fin s.tok s.rc him (by simp [hw, wRem]) (by simp [pot, h2])
  | wunparkS i hw =>
    right; refine ⟨rfl, ?_⟩
    have him := spawned s hI i (by simp [hw])
    have h2 := cnt_upd_lt isUnparkAny s.w i .afterS s.m him
    simp [hw, isUnparkAny] at h2
    exact inner_worker s i .afterS true s.rc him (by simp [hw, wRem])
      (by simp only [pot, b2n]; cases s.tok <;> simp <;> omega)
  | wafterS i hw =>
    right; refine ⟨rfl, ?_⟩
    have him := spawned s hI i (by simp [hw])
    have h2 := cnt_upd_same isUnparkAny s.w i .idle s.m (by simp [hw, isUnparkAny])
    exact inner_worker s i .idle s.tok s.rc him (by simp [hw, wRem]) (by simp [pot, h2])
  | wexit i hd hi hw =>
    right; refine ⟨rfl, ?_⟩
    have h2 := cnt_upd_same isUnparkAny s.w i .exited s.m
      (by rcases hw with hw | hw <;> simp [hw, isUnparkAny])
    exact inner_worker s i .exited s.tok s.rc hi
      (by rcases hw with hw | hw <;> simp [hw, wRem]) (by simp [pot, h2])

/-- no infinite run: the step relation restricted to invariant states is well founded -/
theorem terminates : WellFounded (fun s' s : Sys => Inv s ∧ Step s s') := by
  have wf : WellFounded (fun s' s : Sys => lexLt s' s) := by
    have := (Prod.lex (WellFoundedRelation.mk (· < ·) Nat.lt_wfRel.wf) (WellFoundedRelation.mk (· < ·) Nat.lt_wfRel.wf)).wf
    refine Subrelation.wf ?_ (InvImage.wf (fun s : Sys => (mA s, mB s)) this)
    intro s' s h
    rcases h with h | ⟨h1, h2⟩
    · exact Prod.Lex.left _ _ h
    · simp only [InvImage]; rw [h1]; exact Prod.Lex.right _ h2
  exact Subrelation.wf (fun {s' s} h => meas_decreases s s' h.1 h.2) wf


/-! ### C06 ghost invariants: exactly once per index, and release/acquire publication -/

structure GInv (s : Sys) : Prop where
  /-- a worker's run counter is 1 exactly when it has executed the current task, else 0 -/
  runsB : s.c ≠ .idle → ∀ j, j < s.n → s.runs j = if called (s.w j) then 1 else 0
  /-- with a Release decrement, whoever has decremented has published the end of its call -/
  pubB  : s.c ≠ .idle → s.relOk = true → ∀ j, j < s.n → notDec (s.w j) = false → s.pub j = true

theorem ginv_init (todo tok r a) : GInv (init todo tok r a) := by
  constructor <;> simp [init]

theorem waiting_not_called (x : WPc) (h : waiting x = true) : called x = false := by
  cases x <;> simp_all [waiting, called]

theorem ginv_step (s s' : Sys) (h : Inv s) (g : GInv s) (hs : Step s s') : GInv s' := by
  have hI := h
  obtain ⟨nm, sendB, waitB, sentB, rcEq, validB, unpB, wakeB, quiet, beyond, noExit, dropI⟩ := h
  obtain ⟨runsB, pubB⟩ := g
  cases hs with
  | begin n' rest hc ht hd =>
    have hw : ∀ j, waiting (restale (s.w j)) = true :=
      fun j => restale_waiting _ (quiet hc j) (noExit hd j)
    constructor
    · intro _ j _; simp [waiting_not_called _ (hw j)]
    · intro _ _ j _ hnd; have := (waiting_notDec _ (hw j)).1; simp_all
  | send i hc hlt hidle =>
    have hcne : s.c ≠ .idle := by simp [hc]
    constructor
    · intro _ j hj
      have := runsB hcne j hj
      by_cases hji : j = i
      · subst hji; simp_all [called]
      · simp_all [upd]
    · intro _ hr j hj hnd
      by_cases hji : j = i
      · subst hji; simp [notDec] at hnd
      · simp [upd, hji] at hnd; exact pubB hcne hr j hj hnd
  | sendDone i hc hlt =>
    have hcne : s.c ≠ .idle := by simp [hc]
    exact ⟨fun _ => runsB hcne, fun _ => pubB hcne⟩
  | crun hc =>
    have hcne : s.c ≠ .idle := by simp [hc]
    exact ⟨fun _ => runsB hcne, fun _ => pubB hcne⟩
  | checkZero hc hz => constructor <;> simp
  | checkPos hc hz =>
    have hcne : s.c ≠ .idle := by simp [hc]
    exact ⟨fun _ => runsB hcne, fun _ => pubB hcne⟩
  | park hc ht =>
    have hcne : s.c ≠ .idle := by simp [hc]
    exact ⟨fun _ => runsB hcne, fun _ => pubB hcne⟩
  | wrun i hw =>
    constructor
    · intro hcne j hj
      have := runsB hcne j hj
      by_cases hji : j = i
      · subst hji; simp_all [called]
      · simp_all [upd, updG]
    · intro hcne hr j hj hnd
      by_cases hji : j = i
      · subst hji; simp [notDec] at hnd
      · simp [upd, hji] at hnd; exact pubB hcne hr j hj hnd
  | wclone i hw hv =>
    constructor
    · intro hcne j hj
      have := runsB hcne j hj
      by_cases hji : j = i
      · subst hji; simp_all [called]
      · simp_all [upd]
    · intro hcne hr j hj hnd
      by_cases hji : j = i
      · subst hji; simp [notDec] at hnd
      · simp [upd, hji] at hnd; exact pubB hcne hr j hj hnd
  | wdecLast i hw hv h1 =>
    constructor
    · intro hcne j hj
      have := runsB hcne j hj
      by_cases hji : j = i
      · subst hji; simp_all [called]
      · simp_all [upd]
    · intro hcne hr j hj hnd
      have hr' : s.relOk = true := hr
      by_cases hji : j = i
      · subst hji; simp [hr']
      · simp [upd, hji] at hnd; simp [hr', updG, hji]; exact pubB hcne hr' j hj hnd
  | wdec i hw hv h1 =>
    constructor
    · intro hcne j hj
      have := runsB hcne j hj
      by_cases hji : j = i
      · subst hji; simp_all [called]
      · simp_all [upd]
    · intro hcne hr j hj hnd
      have hr' : s.relOk = true := hr
      by_cases hji : j = i
      · subst hji; simp [hr']
      · simp [upd, hji] at hnd; simp [hr', updG, hji]; exact pubB hcne hr' j hj hnd
  | wunpark i hw =>
    constructor
    · intro hcne j hj
      have := runsB hcne j hj
      by_cases hji : j = i
      · subst hji; simp_all [called]
      · simp_all [upd]
    · intro hcne hr j hj hnd
      by_cases hji : j = i
      · subst hji; exact pubB hcne hr j hj (by simp [hw, notDec])
      · simp [upd, hji] at hnd; exact pubB hcne hr j hj hnd
  | wafter i hw =>
    constructor
    · intro hcne j hj
      have := runsB hcne j hj
      by_cases hji : j = i
      · subst hji; simp_all [called]
      · simp_all [upd]
    · intro hcne hr j hj hnd
      by_cases hji : j = i
      · subst hji; exact pubB hcne hr j hj (by simp [hw, notDec])
      · simp [upd, hji] at hnd; exact pubB hcne hr j hj hnd
  | wunparkS i hw =>
    constructor
    · intro hcne j hj
      have := runsB hcne j hj
      by_cases hji : j = i
      · subst hji; simp_all [called]
      · simp_all [upd]
    · intro hcne hr j hj hnd
      by_cases hji : j = i
      · subst hji; simp [notDec] at hnd
      · simp [upd, hji] at hnd; exact pubB hcne hr j hj hnd
  | wafterS i hw =>
    constructor
    · intro hcne j hj
      have := runsB hcne j hj
      by_cases hji : j = i
      · subst hji; simp_all [called]
      · simp_all [upd]
    · intro hcne hr j hj hnd
      by_cases hji : j = i
      · subst hji; simp [notDec] at hnd
      · simp [upd, hji] at hnd; exact pubB hcne hr j hj hnd
  | dropPool hc ht hd => constructor <;> simp [hc]
  | wexit i hd hi hw =>
    have hci := (dropI hd).1
    constructor <;> simp [hci]

/-- C06: when the caller observes the count at zero, every worker index of the broadcast has executed the
    task exactly once. -/
theorem once_per_index (s : Sys) (h : Inv s) (g : GInv s) (hc : s.c = .check) (hz : s.rc = 0) :
    ∀ j, j < s.n → s.runs j = 1 := by
  have hcne : s.c ≠ .idle := by simp [hc]
  intro j hj
  have hnd := (returns_after_all_calls s h hc hz j hj).1
  have hsent := h.sentB hcne j (by simp [hc, frontier]; exact hj)
  have := g.runsB hcne j hj
  rw [this]
  cases hw : s.w j <;> simp_all [notDec, sent, called]

/-- C06: if the decrement is a Release RMW and the caller's load an Acquire load, then after the load that
    reads zero — the step on which `broadcast` returns — the end of every call happens-before the caller. -/
theorem visible_after_return (s s' : Sys) (h : Inv s) (g : GInv s) (hr : s.relOk = true) (ha : s.acqOk = true)
    (hc : s.c = .check) (hz : s.rc = 0)
    (hs' : s' = { s with c := .idle, valid := false, done := s.done + 1,
                         seen := if s.acqOk then (fun j => s.seen j || s.pub j) else s.seen }) :
    ∀ j, j < s.n → s'.seen j = true := by
  have hcne : s.c ≠ .idle := by simp [hc]
  intro j hj
  have hnd := (returns_after_all_calls s h hc hz j hj).1
  have := g.pubB hcne hr j hj hnd
  subst hs'; simp [ha, this]


/-! ### executable step function (what the driver's trace acceptor runs) and its soundness -/

inductive Act
  | begin | send | sendDone | crun | check | park | worker (i : Nat) | dropPool | wexit (i : Nat)
  deriving Repr

def stepFn (s : Sys) : Act → Option Sys
  | .begin =>
    match s.c, s.todo, s.dropped with
    | .idle, n' :: rest, false =>
      some { s with todo := rest, n := n', m := max s.m n', c := .send 0, rc := n', valid := true,
                    w := fun j => restale (s.w j),
                    runs := fun _ => 0, pub := fun _ => false, seen := fun _ => false }
    | _, _, _ => none
  | .send =>
    match s.c with
    | .send i => if i < s.n ∧ s.w i = .idle then some { s with c := .send (i+1), w := upd s.w i .run } else none
    | _ => none
  | .sendDone =>
    match s.c with
    | .send i => if ¬ i < s.n then some { s with c := .run } else none
    | _ => none
  | .crun => if s.c = .run then some { s with c := .check } else none
  | .check =>
    if s.c = .check then
      if s.rc = 0 then
        some { s with c := .idle, valid := false, done := s.done + 1,
                      seen := if s.acqOk then (fun j => s.seen j || s.pub j) else s.seen }
      else some { s with c := .park, seen := if s.acqOk then (fun j => s.seen j || s.pub j) else s.seen }
    else none
  | .park => if s.c = .park ∧ s.tok = true then some { s with c := .check, tok := false } else none
  | .worker i =>
    match s.w i with
    | .run => some { s with w := upd s.w i .clone, runs := updG s.runs i (s.runs i + 1) }
    | .clone => if s.valid = true then some { s with w := upd s.w i .dec } else none
    | .dec =>
      if s.valid = true then
        if s.rc = 1 then
          some { s with w := upd s.w i .unpark, rc := s.rc - 1, pub := if s.relOk then updG s.pub i true else s.pub }
        else
          some { s with w := upd s.w i .after, rc := s.rc - 1, pub := if s.relOk then updG s.pub i true else s.pub }
      else none
    | .unpark => some { s with w := upd s.w i .after, tok := true }
    | .after => some { s with w := upd s.w i .fin }
    | .unparkS => some { s with w := upd s.w i .afterS, tok := true }
    | .afterS => some { s with w := upd s.w i .idle }
    | _ => none
  | .dropPool =>
    match s.c, s.todo, s.dropped with
    | .idle, [], false => some { s with dropped := true }
    | _, _, _ => none
  | .wexit i =>
    if s.dropped = true ∧ i < s.m ∧ (s.w i = .idle ∨ s.w i = .fin) then some { s with w := upd s.w i .exited } else none

theorem stepFn_sound (s s' : Sys) (a : Act) (h : stepFn s a = some s') : Step s s' := by
  cases a with
  | begin =>
    simp only [stepFn] at h
    split at h
    · rename_i n' rest hc ht hd; cases h; exact Step.begin s n' rest hc ht hd
    · cases h
  | send =>
    simp only [stepFn] at h
    split at h
    · rename_i i hc
      split at h
      · rename_i hg; cases h; exact Step.send s i hc hg.1 hg.2
      · cases h
    · cases h
  | sendDone =>
    simp only [stepFn] at h
    split at h
    · rename_i i hc
      split at h
      · rename_i hg; cases h; exact Step.sendDone s i hc hg
      · cases h
    · cases h
  | crun =>
    simp only [stepFn] at h
    split at h
    · rename_i hc; cases h; exact Step.crun s hc
    · cases h
  | check =>
    simp only [stepFn] at h
    split at h
    · rename_i hc
      split at h
      · rename_i hz; cases h; exact Step.checkZero s hc hz
      · rename_i hz; cases h; exact Step.checkPos s hc hz
    · cases h
  | park =>
    simp only [stepFn] at h
    split at h
    · rename_i hg; cases h; exact Step.park s hg.1 hg.2
    · cases h
  | worker i =>
    simp only [stepFn] at h
    split at h
    · rename_i hw; cases h; exact Step.wrun s i hw
    · rename_i hw
      split at h
      · rename_i hv; cases h; exact Step.wclone s i hw hv
      · cases h
    · rename_i hw
      split at h
      · rename_i hv
        split at h
        · rename_i h1; cases h; exact Step.wdecLast s i hw hv h1
        · rename_i h1; cases h; exact Step.wdec s i hw hv h1
      · cases h
    · rename_i hw; cases h; exact Step.wunpark s i hw
    · rename_i hw; cases h; exact Step.wafter s i hw
    · rename_i hw; cases h; exact Step.wunparkS s i hw
    · rename_i hw; cases h; exact Step.wafterS s i hw
    · cases h
  | dropPool =>
    simp only [stepFn] at h
    split at h
    · rename_i hc ht hd; cases h; exact Step.dropPool s hc ht hd
    · cases h
  | wexit i =>
    simp only [stepFn] at h
    split at h
    · rename_i hg; cases h; exact Step.wexit s i hg.1 hg.2.1 hg.2.2
    · cases h

/-- replay an observed action sequence; `none` = the model rejects it at that point -/
def replay (s : Sys) : List Act → Option Sys
  | [] => some s
  | a :: as => (stepFn s a).bind (replay · as)

/-- whatever the acceptor accepts is a run of the relation the theorems are about, hence satisfies the invariants -/
theorem replay_inv (s : Sys) (as : List Act) (s' : Sys) (h : Inv s) (g : GInv s) (hr : replay s as = some s') :
    Inv s' ∧ GInv s' := by
  induction as generalizing s with
  | nil => simp [replay] at hr; subst hr; exact ⟨h, g⟩
  | cons a as ih =>
    simp only [replay] at hr
    cases hs : stepFn s a with
    | none => simp [hs] at hr
    | some s1 =>
      simp [hs] at hr
      have st := stepFn_sound s s1 a hs
      exact ih s1 (inv_step s s1 h st) (ginv_step s s1 h g st) hr

-- one broadcast with two workers, the second finishing last, then drop
#eval (replay (init [2] false true true)
  [.begin, .send, .send, .sendDone, .crun, .worker 0, .worker 0, .worker 0, .check, .worker 1, .worker 1,
   .worker 1, .worker 1, .park, .check, .worker 0, .worker 1, .dropPool, .wexit 0, .wexit 1]).map
  (fun s => (s.done, s.rc, s.tok, s.dropped, (List.range 2).map s.runs, (List.range 2).map s.seen))

end PoolFull
