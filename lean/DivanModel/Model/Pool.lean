/-! Prototype of the single-broadcast pool protocol with stale token, spurious wake-ups,
    safety, deadlock-freedom and a termination measure. Workers: indices 1..n (index 0 = caller). -/
namespace Pool

inductive CPc | send (i : Nat) | run | check | park | done
  deriving DecidableEq, Repr
/-- `idle` = blocked in recv, not yet given this task; `fin` = gave the result back, blocked in recv again. -/
inductive WPc | idle | run | clone | dec | unpark | after | fin
  deriving DecidableEq, Repr

structure Sys where
  n     : Nat
  c     : CPc
  w     : Nat → WPc
  rc    : Nat
  tok   : Bool
  valid : Bool
  /-- number of stale unparks still in flight from the previous broadcast -/
  stale : Nat

def upd (f : Nat → WPc) (i : Nat) (v : WPc) : Nat → WPc := fun j => if j = i then v else f j
@[simp] theorem upd_same (f i v) : upd f i v i = v := by simp [upd]
@[simp] theorem upd_other (f i v j) (h : j ≠ i) : upd f i v j = f j := by simp [upd, h]

inductive Step : Sys → Sys → Prop
  | send (s i) : s.c = .send i → i < s.n → s.w i = .idle →
      Step s { s with c := .send (i+1), w := upd s.w i .run }
  | sendDone (s i) : s.c = .send i → ¬ i < s.n → Step s { s with c := .run }
  | crun (s) : s.c = .run → Step s { s with c := .check }
  | checkZero (s) : s.c = .check → s.rc = 0 → Step s { s with c := .done, valid := false }
  | checkPos (s) : s.c = .check → s.rc ≠ 0 → Step s { s with c := .park }
  | park (s) : s.c = .park → s.tok = true → Step s { s with c := .check, tok := false }
  | staleUnpark (s) : 0 < s.stale → Step s { s with stale := s.stale - 1, tok := true }
  | wrun (s i) : i < s.n → s.w i = .run → Step s { s with w := upd s.w i .clone }
  | wclone (s i) : i < s.n → s.w i = .clone → s.valid = true → Step s { s with w := upd s.w i .dec }
  | wdecLast (s i) : i < s.n → s.w i = .dec → s.valid = true → s.rc = 1 →
      Step s { s with w := upd s.w i .unpark, rc := s.rc - 1 }
  | wdec (s i) : i < s.n → s.w i = .dec → s.valid = true → s.rc ≠ 1 →
      Step s { s with w := upd s.w i .after, rc := s.rc - 1 }
  | wunpark (s i) : i < s.n → s.w i = .unpark → Step s { s with w := upd s.w i .after, tok := true }
  | wafter (s i) : i < s.n → s.w i = .after → Step s { s with w := upd s.w i .fin }

/-- spurious wake-up: separate relation, budgeted in the termination theorem -/
inductive Spurious : Sys → Sys → Prop
  | wake (s) : s.c = .park → Spurious s { s with c := .check }

def notDec : WPc → Bool
  | .idle | .run | .clone | .dec => true
  | _ => false

def cnt (p : WPc → Bool) (f : Nat → WPc) : Nat → Nat
  | 0 => 0
  | k+1 => cnt p f k + (if p (f k) then 1 else 0)

theorem cnt_upd_ge (p : WPc → Bool) (f : Nat → WPc) (i : Nat) (v : WPc) (k : Nat) (h : k ≤ i) :
    cnt p (upd f i v) k = cnt p f k := by
  induction k with
  | zero => rfl
  | succ m ih => simp [cnt, ih (by omega), upd_other f i v m (by omega)]

theorem cnt_upd_lt (p : WPc → Bool) (f : Nat → WPc) (i : Nat) (v : WPc) (k : Nat) (h : i < k) :
    cnt p (upd f i v) k + (if p (f i) then 1 else 0) = cnt p f k + (if p v then 1 else 0) := by
  induction k with
  | zero => omega
  | succ m ih =>
    by_cases hm : i = m
    · subst hm; simp [cnt, cnt_upd_ge p f i v i (Nat.le_refl _)]; omega
    · have := ih (by omega); simp [cnt, upd_other f i v m (by omega)]; omega

theorem cnt_pos_exists (p : WPc → Bool) (f : Nat → WPc) (k : Nat) (h : 0 < cnt p f k) :
    ∃ j, j < k ∧ p (f j) = true := by
  induction k with
  | zero => simp [cnt] at h
  | succ m ih =>
    simp only [cnt] at h
    by_cases hp : p (f m) = true
    · exact ⟨m, by omega, hp⟩
    · simp [hp] at h; obtain ⟨j, hj, hpj⟩ := ih h; exact ⟨j, by omega, hpj⟩

theorem cnt_zero_forall (p : WPc → Bool) (f : Nat → WPc) (k : Nat) (h : cnt p f k = 0) :
    ∀ j, j < k → p (f j) = false := by
  induction k with
  | zero => intro j hj; omega
  | succ m ih =>
    simp only [cnt] at h
    intro j hj
    by_cases hjm : j = m
    · subst hjm; by_cases hp : p (f j) = true
      · simp [hp] at h
      · simpa using hp
    · exact ih (by omega) j (by omega)

def frontier : CPc → Nat → Nat
  | .send i, _ => i
  | _, n => n

def isUnpark : WPc → Bool | .unpark => true | _ => false

structure Inv (s : Sys) : Prop where
  sendB : frontier s.c s.n ≤ s.n
  idleB : ∀ j, frontier s.c s.n ≤ j → j < s.n → s.w j = .idle
  sentB : ∀ j, j < frontier s.c s.n → s.w j ≠ .idle
  rcEq  : s.rc = cnt notDec s.w s.n
  validB : s.valid = true ↔ s.c ≠ .done
  /-- at most one worker is about to unpark, and only when the count is already zero -/
  unpB  : cnt isUnpark s.w s.n ≤ 1 ∧ (0 < cnt isUnpark s.w s.n → s.rc = 0)
  doneB : s.c = .done → s.rc = 0
  /-- no lost wake-up: a parked caller whose count is already zero has a wake-up pending -/
  wakeB : s.c = .park → s.rc = 0 → s.tok = true ∨ 0 < cnt isUnpark s.w s.n

def init (n : Nat) (tok : Bool) (stale : Nat) : Sys :=
  { n, c := .send 0, w := fun _ => .idle, rc := n, tok, valid := true, stale }

theorem cnt_const (p : WPc → Bool) (v : WPc) (k : Nat) :
    cnt p (fun _ => v) k = if p v then k else 0 := by
  induction k with
  | zero => simp [cnt]
  | succ m ih => simp only [cnt, ih]; split <;> omega

theorem inv_init (n tok stale) : Inv (init n tok stale) := by
  constructor <;> simp [init, frontier, cnt_const, notDec, isUnpark]

theorem inv_step (s s' : Sys) (h : Inv s) (hs : Step s s') : Inv s' := by
  obtain ⟨sendB, idleB, sentB, rcEq, validB, unpB, doneB, wakeB⟩ := h
  cases hs with
  | send i hc hlt hidle =>
    have hc1 := cnt_upd_lt notDec s.w i .run s.n hlt
    have hc2 := cnt_upd_lt isUnpark s.w i .run s.n hlt
    constructor <;> simp_all [frontier, notDec, isUnpark] <;> grind [upd]
  | sendDone i hc hlt => constructor <;> simp_all [frontier] <;> grind
  | crun hc => constructor <;> simp_all [frontier]
  | checkZero hc hz => constructor <;> simp_all [frontier]
  | checkPos hc hz => constructor <;> simp_all [frontier]
  | park hc ht => constructor <;> simp_all [frontier]
  | staleUnpark hst => constructor <;> simp_all [frontier]
  | wrun i hlt hw =>
    have hc1 := cnt_upd_lt notDec s.w i .clone s.n hlt
    have hc2 := cnt_upd_lt isUnpark s.w i .clone s.n hlt
    constructor <;> simp_all [frontier, notDec, isUnpark] <;> grind [upd]
  | wclone i hlt hw hv =>
    have hc1 := cnt_upd_lt notDec s.w i .dec s.n hlt
    have hc2 := cnt_upd_lt isUnpark s.w i .dec s.n hlt
    constructor <;> simp_all [frontier, notDec, isUnpark] <;> grind [upd]
  | wdecLast i hlt hw hv h1 =>
    have hc1 := cnt_upd_lt notDec s.w i .unpark s.n hlt
    have hc2 := cnt_upd_lt isUnpark s.w i .unpark s.n hlt
    constructor <;> simp_all [frontier, notDec, isUnpark] <;> grind [upd]
  | wdec i hlt hw hv h1 =>
    have hc1 := cnt_upd_lt notDec s.w i .after s.n hlt
    have hc2 := cnt_upd_lt isUnpark s.w i .after s.n hlt
    constructor <;> simp_all [frontier, notDec, isUnpark] <;> grind [upd]
  | wunpark i hlt hw =>
    have hc1 := cnt_upd_lt notDec s.w i .after s.n hlt
    have hc2 := cnt_upd_lt isUnpark s.w i .after s.n hlt
    constructor <;> simp_all [frontier, notDec, isUnpark] <;> grind [upd]
  | wafter i hlt hw =>
    have hc1 := cnt_upd_lt notDec s.w i .fin s.n hlt
    have hc2 := cnt_upd_lt isUnpark s.w i .fin s.n hlt
    constructor <;> simp_all [frontier, notDec, isUnpark] <;> grind [upd]

/-- C06 safety: when the caller is done, every worker has decremented, i.e. its call has ended. -/
theorem returns_after_all_calls (s : Sys) (h : Inv s) (hd : s.c = .done) :
    ∀ j, j < s.n → notDec (s.w j) = false :=
  cnt_zero_forall notDec s.w s.n (by rw [← h.rcEq]; exact h.doneB hd)


/-! ### C07: deadlock freedom -/

def Final (s : Sys) : Prop := s.c = .done ∧ (∀ j, j < s.n → s.w j = .fin) ∧ s.stale = 0

theorem deadlock_free (s : Sys) (h : Inv s) (hnf : ¬ Final s) : ∃ s', Step s s' := by
  obtain ⟨sendB, idleB, sentB, rcEq, validB, unpB, doneB, wakeB⟩ := h
  by_cases hst : 0 < s.stale
  · exact ⟨_, Step.staleUnpark s hst⟩
  have hst0 : s.stale = 0 := by omega
  -- any worker that is past `idle` and not `fin` can move, provided the block is valid when needed
  have workerMoves : ∀ j, j < s.n → s.w j ≠ .idle → s.w j ≠ .fin → (s.valid = true ∨ notDec (s.w j) = false) →
      ∃ s', Step s s' := by
    intro j hj hni hnf' hv
    cases hw : s.w j with
    | idle => exact absurd hw hni
    | fin => exact absurd hw hnf'
    | run => exact ⟨_, Step.wrun s j hj hw⟩
    | clone =>
      have : s.valid = true := by rcases hv with hv | hv; exact hv; simp [hw, notDec] at hv
      exact ⟨_, Step.wclone s j hj hw this⟩
    | dec =>
      have : s.valid = true := by rcases hv with hv | hv; exact hv; simp [hw, notDec] at hv
      by_cases h1 : s.rc = 1
      · exact ⟨_, Step.wdecLast s j hj hw this h1⟩
      · exact ⟨_, Step.wdec s j hj hw this h1⟩
    | unpark => exact ⟨_, Step.wunpark s j hj hw⟩
    | after => exact ⟨_, Step.wafter s j hj hw⟩
  cases hc : s.c with
  | send i =>
    by_cases hi : i < s.n
    · have := idleB i (by simp [hc, frontier]) hi
      exact ⟨_, Step.send s i hc hi this⟩
    · exact ⟨_, Step.sendDone s i hc hi⟩
  | run => exact ⟨_, Step.crun s hc⟩
  | check =>
    by_cases hz : s.rc = 0
    · exact ⟨_, Step.checkZero s hc hz⟩
    · exact ⟨_, Step.checkPos s hc hz⟩
  | park =>
    by_cases ht : s.tok = true
    · exact ⟨_, Step.park s hc ht⟩
    · have hv : s.valid = true := by rw [validB]; simp [hc]
      by_cases hz : s.rc = 0
      · have := wakeB hc hz
        have hpos : 0 < cnt isUnpark s.w s.n := by rcases this with h | h; exact absurd h ht; exact h
        obtain ⟨j, hj, hp⟩ := cnt_pos_exists _ _ _ hpos
        have hw : s.w j = .unpark := by cases hw : s.w j <;> simp [hw, isUnpark] at hp ⊢
        exact ⟨_, Step.wunpark s j hj hw⟩
      · have hpos : 0 < cnt notDec s.w s.n := by omega
        obtain ⟨j, hj, hp⟩ := cnt_pos_exists _ _ _ hpos
        have hni := sentB j (by simp [hc, frontier]; exact hj)
        have hnf' : s.w j ≠ .fin := by intro h; simp [h, notDec] at hp
        exact workerMoves j hj hni hnf' (Or.inl hv)
  | done =>
    -- not final: some worker is not `fin` (stale = 0 here)
    have hrc := doneB hc
    have hall : ¬ (∀ j, j < s.n → s.w j = .fin) := by
      intro hall; exact hnf ⟨hc, hall, hst0⟩
    have : ∃ j, j < s.n ∧ s.w j ≠ .fin := by
      apply Classical.byContradiction; intro hne
      apply hall; intro j hj
      apply Classical.byContradiction; intro hjf; exact hne ⟨j, hj, hjf⟩
    obtain ⟨j, hj, hjf⟩ := this
    have hni := sentB j (by simp [hc, frontier]; exact hj)
    have hnd := cnt_zero_forall notDec s.w s.n (by omega) j hj
    exact workerMoves j hj hni hjf (Or.inr hnd)


/-! ### C07: termination measure -/

def wRem : WPc → Nat
  | .idle => 0 | .run => 5 | .clone => 4 | .dec => 3 | .unpark => 2 | .after => 1 | .fin => 0

def sumW (f : Nat → WPc) : Nat → Nat
  | 0 => 0
  | k+1 => sumW f k + wRem (f k)

theorem sumW_upd_ge (f : Nat → WPc) (i : Nat) (v : WPc) (k : Nat) (h : k ≤ i) :
    sumW (upd f i v) k = sumW f k := by
  induction k with
  | zero => rfl
  | succ m ih => simp [sumW, ih (by omega), upd_other f i v m (by omega)]

theorem sumW_upd_lt (f : Nat → WPc) (i : Nat) (v : WPc) (k : Nat) (h : i < k) :
    sumW (upd f i v) k + wRem (f i) = sumW f k + wRem v := by
  induction k with
  | zero => omega
  | succ m ih =>
    by_cases hm : i = m
    · subst hm; simp [sumW, sumW_upd_ge f i v i (Nat.le_refl _)]; omega
    · have := ih (by omega); simp [sumW, upd_other f i v m (by omega)]; omega

def b2n (b : Bool) : Nat := if b then 1 else 0

/-- wake-up potential -/
def pot (s : Sys) : Nat := b2n s.tok + s.stale + cnt isUnpark s.w s.n + (if s.rc = 0 then 0 else 1)

def rank (s : Sys) : Nat :=
  match s.c with
  | .send i => 6 * (s.n - i) + 2 * pot s + 4
  | .run    => 2 * pot s + 3
  | .check  => 2 * pot s + 2
  | .park   => 2 * pot s + 1
  | .done   => 0

def measure (s : Sys) : Nat := sumW s.w s.n + rank s + s.stale

theorem measure_decreases (s s' : Sys) (h : Inv s) (hs : Step s s') : measure s' < measure s := by
  obtain ⟨sendB, idleB, sentB, rcEq, validB, unpB, doneB, wakeB⟩ := h
  cases hs with
  | send i hc hlt hidle =>
    have h1 := sumW_upd_lt s.w i .run s.n hlt
    have h2 := cnt_upd_lt isUnpark s.w i .run s.n hlt
    simp [measure, rank, pot, hc, hidle, wRem, isUnpark] at h1 h2 ⊢; omega
  | sendDone i hc hlt => simp [measure, rank, pot, hc] at *; omega
  | crun hc => simp [measure, rank, pot, hc]
  | checkZero hc hz => simp [measure, rank, pot, hc]
  | checkPos hc hz => simp [measure, rank, pot, hc]
  | park hc ht => simp [measure, rank, pot, hc, ht, b2n]; omega
  | staleUnpark hst =>
    simp only [measure, rank, pot, b2n]
    cases s.c <;> cases s.tok <;> simp <;> omega
  | wrun i hlt hw =>
    have h1 := sumW_upd_lt s.w i .clone s.n hlt
    have h2 := cnt_upd_lt isUnpark s.w i .clone s.n hlt
    simp only [measure, rank, pot]
    simp [hw, wRem, isUnpark] at h1 h2
    cases s.c <;> simp <;> omega
  | wclone i hlt hw hv =>
    have h1 := sumW_upd_lt s.w i .dec s.n hlt
    have h2 := cnt_upd_lt isUnpark s.w i .dec s.n hlt
    simp only [measure, rank, pot]
    simp [hw, wRem, isUnpark] at h1 h2
    cases s.c <;> simp <;> omega
  | wdecLast i hlt hw hv h1' =>
    have h1 := sumW_upd_lt s.w i .unpark s.n hlt
    have h2 := cnt_upd_lt isUnpark s.w i .unpark s.n hlt
    simp only [measure, rank, pot]
    simp [hw, wRem, isUnpark] at h1 h2
    cases s.c <;> simp [h1'] <;> omega
  | wdec i hlt hw hv h1' =>
    have h1 := sumW_upd_lt s.w i .after s.n hlt
    have h2 := cnt_upd_lt isUnpark s.w i .after s.n hlt
    have h3 := cnt_upd_lt notDec s.w i .after s.n hlt
    simp only [measure, rank, pot]
    simp [hw, wRem, isUnpark, notDec] at h1 h2 h3
    have hrc2 : 2 ≤ s.rc := by omega
    have e1 : (s.rc - 1 = 0) = False := by simp; omega
    have e2 : (s.rc = 0) = False := by simp; omega
    cases s.c <;> simp [e1, e2] <;> omega
  | wunpark i hlt hw =>
    have h1 := sumW_upd_lt s.w i .after s.n hlt
    have h2 := cnt_upd_lt isUnpark s.w i .after s.n hlt
    simp only [measure, rank, pot, b2n]
    simp [hw, wRem, isUnpark] at h1 h2
    cases s.c <;> cases s.tok <;> simp <;> omega
  | wafter i hlt hw =>
    have h1 := sumW_upd_lt s.w i .fin s.n hlt
    have h2 := cnt_upd_lt isUnpark s.w i .fin s.n hlt
    simp only [measure, rank, pot]
    simp [hw, wRem, isUnpark] at h1 h2
    cases s.c <;> simp <;> omega

/-- a spurious wake-up raises the measure by exactly one -/
theorem spurious_bound (s s' : Sys) (hs : Spurious s s') : measure s' = measure s + 1 := by
  cases hs with
  | wake hc => simp [measure, rank, pot, hc]; omega


end Pool
