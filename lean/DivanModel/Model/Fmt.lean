/-! Prototype: `FineDuration` Display with the default 4 significant figures (C18). Core only.
    The model follows the code (scale choice, integer pre-scaling by 10^4, `format_f64`'s string surgery on the
    decimal expansion); the spec says "value in the unit, truncated to max(0, 4 − d) decimals". -/
namespace Fmt

def NS : Nat := 1000
def US : Nat := 1000000
def MS : Nat := 1000000000
def SEC : Nat := 1000000000000
def MIN : Nat := 60000000000000
def HOUR : Nat := 3600000000000000
def DAY : Nat := 86400000000000000

inductive U | ns | us | ms | s | m | h | d
  deriving DecidableEq, Repr

/-- `TimeScale::from_picos` followed by the ps→ns promotion (4 > 3 significant figures) -/
def unitOf (p : Nat) : U × Nat :=
  if p < US then (.ns, NS) else if p < MS then (.us, US) else if p < SEC then (.ms, MS)
  else if p < MIN then (.s, SEC) else if p < HOUR then (.m, MIN) else if p < DAY then (.h, HOUR) else (.d, DAY)

/-- drop trailing zeros of a digit list -/
def stripZ : List Nat → List Nat
  | [] => []
  | x :: xs => let r := stripZ xs; if r = [] ∧ x = 0 then [] else x :: r

def digits4 (x : Nat) : List Nat := [x / 1000 % 10, x / 100 % 10, x / 10 % 10, x % 10]

/-- number of decimal digits of the integer part (a lone 0 counts as one digit) -/
def numDigits (n : Nat) : Nat :=
  if n < 10 then 1 else if n < 100 then 2 else if n < 1000 then 3 else if n < 10000 then 4 else 5

structure Printed where
  ip   : Nat          -- integer part, printed in full
  frac : List Nat     -- fractional digits after the point (none ⇒ no point)
  unit : U
  deriving DecidableEq, Repr

/-- the code: `Display for FineDuration` + `format_f64(val, 4)` -/
def fmt (p : Nat) : Printed :=
  let (u, sc) := unitOf p
  if p ≥ DAY * 10000 then ⟨p / DAY, [], .d⟩ else
  let N := p * 10000 / sc                 -- ((picos * multiple) / scale.picos())
  let ip := N / 10000
  let fs := stripZ (digits4 (N % 10000))  -- fractional digits of `(N as f64 / 1e4).to_string()`
  if fs = [] then ⟨ip, [], u⟩ else        -- no '.' in the string: returned as is
  let k := 4 - numDigits ip               -- `sig_figs.saturating_sub(dot_index)`
  if k = 0 then ⟨ip, [], u⟩ else          -- truncate at the point
  if fs.length < k then ⟨ip, fs, u⟩       -- `str.get(range)` is None: unchanged
  else ⟨ip, stripZ (fs.take k), u⟩        -- cut to k digits, drop trailing zeros (and the point if none left)

/-- `k` zero-padded decimal digits of `x` -/
def digitsK : Nat → Nat → List Nat
  | 0, _ => []
  | k+1, x => (x / 10 ^ k % 10) :: digitsK k x

/-- the specification: exact value in the unit, truncated toward zero to `max 0 (4 − d)` decimals -/
def spec (p : Nat) : Printed :=
  let (u, sc) := unitOf p
  let ip := p / sc
  let k := 4 - numDigits ip
  let t := p * 10 ^ k / sc                -- ⌊value · 10^k⌋
  ⟨ip, stripZ (digitsK k (t % 10 ^ k)), u⟩

/-! ### digit-list lemmas -/

theorem stripZ_take (L : List Nat) : ∀ k,
    (if (stripZ L).length < k then stripZ L else stripZ ((stripZ L).take k)) = stripZ (L.take k) := by
  induction L with
  | nil => intro k; simp [stripZ]
  | cons x xs ih =>
    intro k
    cases k with
    | zero => simp [stripZ]
    | succ k' =>
      have ih' := ih k'
      simp only [List.take_succ_cons, stripZ]
      by_cases hz : stripZ xs = [] ∧ x = 0
      · -- everything from here on is zeros
        simp only [hz, and_self, if_true]
        have : stripZ (List.take k' xs) = [] := by
          rw [← ih', hz.1]; simp [stripZ]
        simp [this, stripZ]
      · simp only [hz, if_false]
        by_cases hl : (stripZ xs).length < k'
        · have e : stripZ (List.take k' xs) = stripZ xs := by rw [← ih']; simp [hl]
          have hl' : (x :: stripZ xs).length < k' + 1 := by simp; omega
          simp only [hl', if_true, e, hz, if_false]
        · have e : stripZ (List.take k' xs) = stripZ ((stripZ xs).take k') := by rw [← ih']; simp [hl]
          have hl' : ¬ (x :: stripZ xs).length < k' + 1 := by simp; omega
          simp only [hl', if_false, List.take_succ_cons, stripZ, e]

theorem digits4_take1 (x : Nat) (_h : x < 10000) : (digits4 x).take 1 = digitsK 1 (x / 1000) := by
  simp [digits4, digitsK]
theorem digits4_take2 (x : Nat) (_h : x < 10000) : (digits4 x).take 2 = digitsK 2 (x / 100) := by
  simp [digits4, digitsK]; omega
theorem digits4_take3 (x : Nat) (_h : x < 10000) : (digits4 x).take 3 = digitsK 3 (x / 10) := by
  simp [digits4, digitsK]; omega

/-! ### arithmetic: nested truncation -/
theorem ip_eq (p sc : Nat) (hsc : 0 < sc) : p * 10000 / sc / 10000 = p / sc := by
  rw [Nat.div_div_eq_div_mul, Nat.mul_comm sc 10000, Nat.mul_comm p 10000]
  exact Nat.mul_div_mul_left _ _ (by omega)

/-- ⌊⌊p·10^4/sc⌋ / j⌋ = ⌊p·k/sc⌋ when k·j = 10^4 -/
theorem trunc_eq (p sc k j : Nat) (hj : 0 < j) (hkj : k * j = 10000) :
    p * 10000 / sc / j = p * k / sc := by
  rw [Nat.div_div_eq_div_mul, ← hkj, ← Nat.mul_assoc]
  exact Nat.mul_div_mul_right _ _ hj

/-- fractional digits: (N / j) % k = (N % 10^4) / j when k·j = 10^4 -/
theorem frac_eq (N k j : Nat) (hkj : k * j = 10000) : N / j % k = N % 10000 / j := by
  rw [← hkj]; exact (Nat.mod_mul_left_div_self N j k).symm


/-- what `format_f64` leaves of the fractional digits = the first k digits without trailing zeros -/
theorem model_frac (L : List Nat) (k : Nat) :
    (if stripZ L = [] then ([] : List Nat) else if k = 0 then [] else
      if (stripZ L).length < k then stripZ L else stripZ ((stripZ L).take k)) = stripZ (L.take k) := by
  have h := stripZ_take L k
  by_cases hk : k = 0
  · subst hk; simp [stripZ]
  · by_cases he : stripZ L = []
    · simp only [he, if_true]
      rw [he] at h; simp at h
      have : 0 < k := by omega
      simp [this] at h; exact h.symm
    · simp only [he, hk, if_false]; exact h

/-- the spec's k fractional digits are the first k of the four digits the code computes -/
theorem spec_frac (p sc k : Nat) (hk : k = 1 ∨ k = 2 ∨ k = 3) :
    digitsK k (p * 10 ^ k / sc % 10 ^ k) = (digits4 (p * 10000 / sc % 10000)).take k := by
  have hlt : p * 10000 / sc % 10000 < 10000 := Nat.mod_lt _ (by omega)
  rcases hk with rfl | rfl | rfl
  · rw [digits4_take1 _ hlt, ← frac_eq (p * 10000 / sc) 10 1000 (by omega),
        trunc_eq p sc 10 1000 (by omega) (by omega)]
  · rw [digits4_take2 _ hlt, ← frac_eq (p * 10000 / sc) 100 100 (by omega),
        trunc_eq p sc 100 100 (by omega) (by omega)]
  · rw [digits4_take3 _ hlt, ← frac_eq (p * 10000 / sc) 1000 10 (by omega),
        trunc_eq p sc 1000 10 (by omega) (by omega)]

theorem numDigits_range (n : Nat) : 1 ≤ numDigits n ∧ numDigits n ≤ 5 := by
  unfold numDigits; repeat' (first | omega | split)

/-- core of the theorem, for a fixed unit/scale: model and spec agree on the float path -/
theorem core (p sc : Nat) (u : U) (hsc : 0 < sc) :
    (let N := p * 10000 / sc
     let ip := N / 10000
     let fs := stripZ (digits4 (N % 10000))
     if fs = [] then (⟨ip, [], u⟩ : Printed) else
     let k := 4 - numDigits ip
     if k = 0 then ⟨ip, [], u⟩ else
     if fs.length < k then ⟨ip, fs, u⟩ else ⟨ip, stripZ (fs.take k), u⟩)
    = ⟨p / sc, stripZ (digitsK (4 - numDigits (p / sc)) (p * 10 ^ (4 - numDigits (p / sc)) / sc % 10 ^ (4 - numDigits (p / sc)))), u⟩ := by
  simp only [ip_eq p sc hsc]
  have hr := numDigits_range (p / sc)
  have hm := model_frac (digits4 (p * 10000 / sc % 10000)) (4 - numDigits (p / sc))
  -- rewrite the right-hand side's digits
  have hrhs : stripZ (digitsK (4 - numDigits (p / sc)) (p * 10 ^ (4 - numDigits (p / sc)) / sc % 10 ^ (4 - numDigits (p / sc))))
      = stripZ ((digits4 (p * 10000 / sc % 10000)).take (4 - numDigits (p / sc))) := by
    by_cases hk0 : 4 - numDigits (p / sc) = 0
    · rw [hk0]; simp [digitsK, stripZ]
    · rw [spec_frac p sc _ (by omega)]
  rw [hrhs, ← hm]
  by_cases h1 : stripZ (digits4 (p * 10000 / sc % 10000)) = []
  · simp [h1]
  · by_cases h2 : 4 - numDigits (p / sc) = 0
    · simp [h1, h2]
    · by_cases h3 : (stripZ (digits4 (p * 10000 / sc % 10000))).length < 4 - numDigits (p / sc)
      · simp [h1, h2, h3]
      · simp [h1, h2, h3]

theorem unitOf_pos (p : Nat) : 0 < (unitOf p).2 := by
  unfold unitOf
  by_cases h1 : p < US
  · simp only [h1, if_true]; simp [NS]
  by_cases h2 : p < MS
  · simp only [h1, h2, if_true, if_false]; simp [US]
  by_cases h3 : p < SEC
  · simp only [h1, h2, h3, if_true, if_false]; simp [MS]
  by_cases h4 : p < MIN
  · simp only [h1, h2, h3, h4, if_true, if_false]; simp [SEC]
  by_cases h5 : p < HOUR
  · simp only [h1, h2, h3, h4, h5, if_true, if_false]; simp [MIN]
  by_cases h6 : p < DAY
  · simp only [h1, h2, h3, h4, h5, h6, if_true, if_false]; simp [HOUR]
  · simp only [h1, h2, h3, h4, h5, h6, if_false]; simp [DAY]

/-- C18: the unit is the largest one not exceeding the value (values below 1 ns are shown in ns). -/
theorem unit_is_largest (p : Nat) :
    (unitOf p).2 ≤ p ∨ (p < NS ∧ unitOf p = (.ns, NS)) := by
  unfold unitOf
  by_cases h1 : p < US
  · simp only [h1, if_true]
    by_cases h0 : p < NS
    · right; exact ⟨h0, trivial⟩
    · left; simp only [NS] at h0 ⊢; omega
  by_cases h2 : p < MS
  · left; simp only [h1, h2, if_true, if_false]; simp only [US] at h1 ⊢; omega
  by_cases h3 : p < SEC
  · left; simp only [h1, h2, h3, if_true, if_false]; simp only [MS] at h2 ⊢; omega
  by_cases h4 : p < MIN
  · left; simp only [h1, h2, h3, h4, if_true, if_false]; simp only [SEC] at h3 ⊢; omega
  by_cases h5 : p < HOUR
  · left; simp only [h1, h2, h3, h4, h5, if_true, if_false]; simp only [MIN] at h4 ⊢; omega
  by_cases h6 : p < DAY
  · left; simp only [h1, h2, h3, h4, h5, h6, if_true, if_false]; simp only [HOUR] at h5 ⊢; omega
  · left; simp only [h1, h2, h3, h4, h5, h6, if_false]; omega

/-- C18: for **every** picosecond value the printed duration is the truthful truncation. -/
theorem fmt_eq_spec (p : Nat) : fmt p = spec p := by
  unfold fmt spec
  by_cases hbig : p ≥ DAY * 10000
  · -- integer-days branch
    have hu : unitOf p = (.d, DAY) := by
      simp only [DAY] at hbig
      have h1 : ¬ p < US := by simp only [US]; omega
      have h2 : ¬ p < MS := by simp only [MS]; omega
      have h3 : ¬ p < SEC := by simp only [SEC]; omega
      have h4 : ¬ p < MIN := by simp only [MIN]; omega
      have h5 : ¬ p < HOUR := by simp only [HOUR]; omega
      have h6 : ¬ p < DAY := by simp only [DAY]; omega
      simp only [unitOf, h1, h2, h3, h4, h5, h6, if_false]
    have hip : 10000 ≤ p / DAY := by
      rw [Nat.le_div_iff_mul_le (by simp [DAY])]; rw [Nat.mul_comm]; exact hbig
    have hd : numDigits (p / DAY) = 5 := by
      unfold numDigits; repeat' (first | omega | split)
    simp only [hu, hbig, if_true, hd]
    simp [digitsK, stripZ]
  · simp only [hbig, if_false]
    -- float path: split on the unit
    have hsc : 0 < (unitOf p).2 := unitOf_pos p
    have := core p (unitOf p).2 (unitOf p).1 hsc
    cases hu : unitOf p with
    | mk u sc =>
      rw [hu] at this
      simpa using this

#eval (fmt 1234567, spec 1234567, fmt 59999000000000, fmt 1, fmt 0, fmt 100200000)
end Fmt
