/-! Prototype: `FineDuration` Display with the default 4 significant figures (C18). Core only.
    The model follows the code (scale choice, integer pre-scaling by 10^4, `format_f64`'s string surgery on the
    decimal expansion); the spec says "value in the unit, truncated to max(0, 4 − d) decimals". -/
namespace Fmt

def NS : Nat := 1000
def US : Nat := 1000000
def MS : Nat := 1000000000
def SEC : Nat := 1000000000000
def MIN : Nat := 60000000000000
def HOUR : Nat := 3600000000000000
def DAY : Nat := 86400000000000000

inductive U | ns | us | ms | s | m | h | d
  deriving DecidableEq, Repr

/-- `TimeScale::from_picos` followed by the ps→ns promotion (4 > 3 significant figures) -/
def unitOf (p : Nat) : U × Nat :=
  if p < US then (.ns, NS) else if p < MS then (.us, US) else if p < SEC then (.ms, MS)
  else if p < MIN then (.s, SEC) else if p < HOUR then (.m, MIN) else if p < DAY then (.h, HOUR) else (.d, DAY)

/-- drop trailing zeros of a digit list -/
def stripZ : List Nat → List Nat
  | [] => []
  | x :: xs => let r := stripZ xs; if r = [] ∧ x = 0 then [] else x :: r

def digits4 (x : Nat) : List Nat := [x / 1000 % 10, x / 100 % 10, x / 10 % 10, x % 10]

/-- number of decimal digits of the integer part (a lone 0 counts as one digit) -/
def numDigits (n : Nat) : Nat :=
  if n < 10 then 1 else if n < 100 then 2 else if n < 1000 then 3 else if n < 10000 then 4 else 5

structure Printed where
  ip   : Nat          -- integer part, printed in full
  frac : List Nat     -- fractional digits after the point (none ⇒ no point)
  unit : U
  deriving DecidableEq, Repr

/-- the code: `Display for FineDuration` + `format_f64(val, 4)` -/
def fmt (p : Nat) : Printed :=
  let (u, sc) := unitOf p
  if p ≥ DAY * 10000 then ⟨p / DAY, [], .d⟩ else
  let N := p * 10000 / sc                 -- ((picos * multiple) / scale.picos())
  let ip := N / 10000
  let fs := stripZ (digits4 (N % 10000))  -- fractional digits of `(N as f64 / 1e4).to_string()`
  if fs = [] then ⟨ip, [], u⟩ else        -- no '.' in the string: returned as is
  let k := 4 - numDigits ip               -- `sig_figs.saturating_sub(dot_index)`
  if k = 0 then ⟨ip, [], u⟩ else          -- truncate at the point
  if fs.length < k then ⟨ip, fs, u⟩       -- `str.get(range)` is None: unchanged
  else ⟨ip, stripZ (fs.take k), u⟩        -- cut to k digits, drop trailing zeros (and the point if none left)

/-- `k` zero-padded decimal digits of `x` -/
def digitsK : Nat → Nat → List Nat
  | 0, _ => []
  | k+1, x => (x / 10 ^ k % 10) :: digitsK k x

/-- the specification: exact value in the unit, truncated toward zero to `max 0 (4 − d)` decimals -/
def spec (p : Nat) : Printed :=
  let (u, sc) := unitOf p
  let ip := p / sc
  let k := 4 - numDigits ip
  let t := p * 10 ^ k / sc                -- ⌊value · 10^k⌋
  ⟨ip, stripZ (digitsK k (t % 10 ^ k)), u⟩

/-! ### rendering (shared by model and spec: nothing is proved about `Nat.repr`) -/
def U.suffix : U → String
  | .ns => "ns" | .us => "µs" | .ms => "ms" | .s => "s" | .m => "m" | .h => "h" | .d => "d"

def digitChar (d : Nat) : Char := Char.ofNat (d + 48)

def Printed.render (p : Printed) : String :=
  toString p.ip ++ (if p.frac = [] then "" else "." ++ String.ofList (p.frac.map digitChar)) ++ " " ++ p.unit.suffix

/-! ### `format_f64` as string surgery on the decimal text Rust's `f64::to_string` produced -/

def idxOfDot : List Char → Option Nat
  | [] => none
  | c :: cs => if c = '.' then some 0 else (idxOfDot cs).map (· + 1)

/-- number of trailing `'0'` characters -/
def trailingZeros (l : List Char) : Nat := (l.reverse.takeWhile (· = '0')).length

/-- `util::fmt::format_f64(val, sig)` where `s = val.to_string()` -/
def formatDecimal (s : List Char) (sig : Nat) : List Char :=
  match idxOfDot s with
  | none => s
  | some dot =>
    let fd := sig - dot                       -- `sig_figs.saturating_sub(dot_index)`
    if fd = 0 then s.take dot else
    let fs := dot + 1
    let fe := fs + fd
    if fe ≤ s.length then                     -- `str.get(fract_range)` is `Some`
      let fract := (s.drop fs).take fd
      let tz := trailingZeros fract
      if tz = fract.length then s.take dot    -- all zeros: cut at the point
      else s.take (fe - tz)
    else s

/-! ### scale (prefix) selection for byte sizes and throughputs: `Scale::from_f64` over `scale_starts` -/

/-- `scale_starts`: where each prefix starts, decimal (10^3k) or binary (1024^k) -/
def starts (binary : Bool) : List Nat :=
  if binary then [1, 1024, 1024^2, 1024^3, 1024^4, 1024^5] else [1, 10^3, 10^6, 10^9, 10^12, 10^15]

/-- index of the scale of the value `num / 10^sc`: first `i` with value < starts[i+1], else 5 (the
    code's if-chain) -/
def scaleIdx (num sc : Nat) (binary : Bool) : Nat :=
  let st := starts binary
  let lt (i : Nat) : Bool := num < st.getD i 0 * 10 ^ sc
  if lt 1 then 0 else if lt 2 then 1 else if lt 3 then 2 else if lt 4 then 3 else if lt 5 then 4 else 5

end Fmt
