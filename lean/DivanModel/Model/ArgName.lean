import DivanModel.Model.NatCmp
import DivanModel.Model.ArgCmp
/-! Executable model of `SortingAttr::cmp_bench_arg_names` on byte strings (C16).
    `u128`/`i128` parsing is modelled exactly; `f64` parsing is Rust's (the lab sends the bits of
    `parse::<f64>()` with each name) and only the comparison of two floats is modelled, on bit patterns. -/
namespace ArgName
open NatCmp ArgCmp

/-- value of a non-empty all-digit byte string -/
def digitsVal? (l : List Nat) : Option Nat :=
  if l = [] then none else if l.all isDigit then some (val l) else none

/-- Rust `str::parse::<u128>()`: optional `+`, at least one digit, no overflow -/
def parseU128 (l : List Nat) : Option Nat :=
  let body := match l with | 43 :: r => r | _ => l      -- '+'
  match digitsVal? body with
  | some v => if v < 2 ^ 128 then some v else none
  | none => none

/-- Rust `str::parse::<i128>()`: optional `+`/`-`, at least one digit, range −2¹²⁷ … 2¹²⁷−1 -/
def parseI128 (l : List Nat) : Option Int :=
  match l with
  | 45 :: r => match digitsVal? r with                   -- '-'
    | some v => if v ≤ 2 ^ 127 then some (-(v : Int)) else none
    | none => none
  | _ =>
    let body := match l with | 43 :: r => r | _ => l
    match digitsVal? body with
    | some v => if v < 2 ^ 127 then some (v : Int) else none
    | none => none

/-- `f64::partial_cmp` on IEEE-754 bit patterns -/
def f64cmp (x y : Nat) : Option Ordering :=
  let isNan (b : Nat) : Bool := b / 2 ^ 52 % 2 ^ 11 == 2047 && b % 2 ^ 52 != 0
  if isNan x || isNan y then none else
  let key (b : Nat) : Int := if b ≥ 2 ^ 63 then -((b % 2 ^ 63 : Nat) : Int) else (b : Int)
  some (compare (key x) (key y))

structure Name where
  bytes : List Nat
  f     : Option Nat        -- bits of `parse::<f64>()`, `none` = parse error

def Name.parsed (n : Name) : Parsed Nat := ⟨parseU128 n.bytes, parseI128 n.bytes, n.f⟩

/-- the `Name` arm of `cmp_bench_arg_names` -/
def cmpNameArm (a b : Name) : Ordering :=
  cmpName f64cmp a.parsed b.parsed (naturalCmp a.bytes b.bytes)

/-- tie-breaker order of `with_tie_breakers`: 0 = kind, 1 = name, 2 = location -/
def tieBreakers : Nat → List Nat
  | 0 => [0, 1, 2]
  | 1 => [1, 2, 0]
  | _ => [2, 0, 1]

def thenCmp (a b : Ordering) : Ordering := match a with | .eq => b | o => o

/-- `cmp_bench_arg_names` on elements `i`, `j` of one names slice (addresses compare as indices) -/
def cmpArgs (attr : Nat) (names : List Name) (i j : Nat) : Ordering :=
  (tieBreakers attr).foldl (fun acc at' => thenCmp acc (match at' with
    | 0 => .eq
    | 1 => match names[i]?, names[j]? with
      | some a, some b => cmpNameArm a b
      | _, _ => .eq
    | _ => compare i j)) .eq

def applyRev (rev : Bool) (o : Ordering) : Ordering := if rev then o.swap else o

/-- the sorted index list (`sort_by` on `&&str`s): any correct algorithm gives this when the comparator
    is a strict total order (`SortLaws.sorted_unique`) -/
def sortArgs (attr : Nat) (rev : Bool) (names : List Name) : List Nat :=
  (List.range names.length).mergeSort (fun i j => applyRev rev (cmpArgs attr names i j) != .gt)

/-- is the comparator a consistent total order on this list? (antisymmetric and transitive);
    the comparison matrix is computed once -/
def consistent (attr : Nat) (names : List Name) : Bool :=
  let n := names.length
  let idx := List.range n
  let mat : Array (Array Ordering) := (idx.map fun i => (idx.map fun j => cmpArgs attr names i j).toArray).toArray
  let c (i j : Nat) : Ordering := (mat.getD i #[]).getD j .eq
  idx.all fun i => idx.all fun j =>
    c j i == (c i j).swap &&
    (c i j == .gt || idx.all fun k => c j k == .gt || c i k != .gt)

end ArgName
