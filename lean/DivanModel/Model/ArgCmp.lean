/-! Prototype: `SortingAttr::cmp_bench_arg_names`, name component (C16; findings F1 and F8). Core only.
    Parsing is Rust's: a name comes with the results of `parse::<u128>()`, `parse::<i128>()`, `parse::<f64>()`;
    floats are an abstract type with a partial comparison; `nat` is the `natural_cmp` fallback. -/
namespace ArgCmp

structure Parsed (F : Type) where
  u : Option Nat
  i : Option Int
  f : Option F

variable {F : Type} (cmpF : F → F → Option Ordering)

def floatOr (pa pb : Parsed F) (nat : Ordering) : Ordering :=
  match pa.f, pb.f with
  | some x, some y => match cmpF x y with
    | some o => o
    | none => nat
  | _, _ => nat

/-- the repaired code (F1): operands `a` and `b` -/
def cmpName (pa pb : Parsed F) (nat : Ordering) : Ordering :=
  match pa.u, pb.u with
  | some x, some y => compare x y
  | some _, none => if pb.i.isSome then .gt else floatOr cmpF pa pb nat
  | none, some _ => if pa.i.isSome then .lt else floatOr cmpF pa pb nat
  | none, none =>
    match pa.i, pb.i with
    | some x, some y => compare x y
    | _, _ => floatOr cmpF pa pb nat

/-- the pinned code: both scrutinees parse `a` -/
def cmpNameCurrent (pa pb : Parsed F) (nat : Ordering) : Ordering :=
  match pa.u, pa.u with
  | some x, some y => compare x y
  | some _, none => if pb.i.isSome then .gt else floatOr cmpF pa pb nat
  | none, some _ => if pa.i.isSome then .lt else floatOr cmpF pa pb nat
  | none, none =>
    match pa.i, pa.i with
    | some x, some y => compare x y
    | _, _ => floatOr cmpF pa pb nat

/-- `p` is what Rust's parsers return for the canonical decimal rendering of the integer `v`
    (non-negative: both parsers succeed; negative: only the signed one) -/
def IntLike (p : Parsed F) (v : Int) : Prop :=
  (0 ≤ v → p.u = some v.toNat) ∧ (v < 0 → p.u = none ∧ p.i = some v)

/-- C16 (after F1): argument names that denote integers are ordered by value. -/
theorem ints_by_value (pa pb : Parsed F) (va vb : Int) (nat : Ordering)
    (ha : IntLike pa va) (hb : IntLike pb vb) : cmpName cmpF pa pb nat = compare va vb := by
  unfold cmpName
  by_cases hna : 0 ≤ va <;> by_cases hnb : 0 ≤ vb
  · rw [ha.1 hna, hb.1 hnb]
    simp only []
    rcases Int.lt_trichotomy va vb with h | h | h
    · rw [(Nat.compare_eq_lt).2 (by omega), (Int.compare_eq_lt).2 h]
    · subst h; simp
    · rw [(Nat.compare_eq_gt).2 (by omega), (Int.compare_eq_gt).2 h]
  · have hb' := hb.2 (by omega)
    rw [ha.1 hna, hb'.1]
    simp only [hb'.2, Option.isSome_some, if_true]
    symm; rw [Int.compare_eq_gt]; omega
  · have ha' := ha.2 (by omega)
    rw [ha'.1, hb.1 hnb]
    simp only [ha'.2, Option.isSome_some, if_true]
    symm; rw [Int.compare_eq_lt]; omega
  · have ha' := ha.2 (by omega); have hb' := hb.2 (by omega)
    rw [ha'.1, hb'.1]
    simp only [ha'.2, hb'.2]

/-- F1 witness: under the pinned code `10` and `9` compare `Equal` on the name attribute (so declaration order
    decides), although 10 > 9. -/
theorem f1_witness :
    let p10 : Parsed Nat := ⟨some 10, some 10, some 10⟩
    let p9 : Parsed Nat := ⟨some 9, some 9, some 9⟩
    cmpNameCurrent (fun x y => some (compare x y)) p10 p9 .gt = .eq ∧
    cmpName (fun x y => some (compare x y)) p10 p9 .gt = .gt := by decide

/-- F8 witness: a cycle on mixed names even after F1. Names "2x", "1e3", "5" (floats scaled to integers here);
    natural_cmp("2x","1e3") = gt and natural_cmp("5","2x") = gt (values computed by `NatCmp.naturalCmp`). -/
theorem f8_cycle :
    let cf : Nat → Nat → Option Ordering := fun x y => some (compare x y)
    let p2x : Parsed Nat := ⟨none, none, none⟩
    let p1e3 : Parsed Nat := ⟨none, none, some 1000⟩
    let p5 : Parsed Nat := ⟨some 5, some 5, some 5⟩
    cmpName cf p2x p1e3 .gt = .gt ∧ cmpName cf p1e3 p5 .lt = .gt ∧ cmpName cf p5 p2x .gt = .gt := by decide

end ArgCmp
