/-! IEEE-754 binary64 arithmetic on bit patterns, for non-negative normal numbers and zero, rounding to
    nearest, ties to even. Used only by the correspondence driver (Lean's `Float` is opaque to proof and
    its operations are not the object of any theorem here). Core only. -/
namespace SoftFloat

/-- floor(log2 n) for n > 0 -/
def log2 (n : Nat) : Nat := Nat.log2 n

/-- bits of the double nearest to `p / q` (p ≥ 0, q > 0; result assumed normal or zero) -/
def ofRat (p q : Nat) : Nat :=
  if p = 0 ∨ q = 0 then 0 else
  -- choose e with 2^52 ≤ p / (q * 2^e) < 2^53  (e may be negative)
  let e0 : Int := (log2 p : Int) - (log2 q : Int) - 52
  let scaled (e : Int) : Nat × Nat :=      -- numerator, denominator of p / (q * 2^e)
    if e ≥ 0 then (p, q * 2 ^ e.toNat) else (p * 2 ^ (-e).toNat, q)
  -- e0 is off by at most one
  let e : Int := let (n, d) := scaled e0; if n / d ≥ 2 ^ 53 then e0 + 1 else if n / d < 2 ^ 52 then e0 - 1 else e0
  let (n, d) := scaled e
  let m := n / d
  let r := n % d
  let m := if 2 * r > d ∨ (2 * r = d ∧ m % 2 = 1) then m + 1 else m
  let m2 : Nat := if m = 2 ^ 53 then 2 ^ 52 else m
  let e2 : Int := if m = 2 ^ 53 then e + 1 else e
  ((e2 + 52 + 1023).toNat) * 2 ^ 52 + (m2 - 2 ^ 52)

/-- exact value of a non-negative finite double as numerator / denominator -/
def toRat (bits : Nat) : Nat × Nat :=
  let ex : Nat := bits / 2 ^ 52 % 2 ^ 11
  let fr : Nat := bits % 2 ^ 52
  if ex = 0 then (fr, 2 ^ 1074) else
  let m := 2 ^ 52 + fr
  let e : Int := (ex : Int) - 1075
  if e ≥ 0 then (m * 2 ^ e.toNat, 1) else (m, 2 ^ (-e).toNat)

def ofNat (n : Nat) : Nat := ofRat n 1

def div (a b : Nat) : Nat :=
  let (p1, q1) := toRat a
  let (p2, q2) := toRat b
  ofRat (p1 * q2) (q1 * p2)

def add (a b : Nat) : Nat :=
  let (p1, q1) := toRat a
  let (p2, q2) := toRat b
  ofRat (p1 * q2 + p2 * q1) (q1 * q2)

end SoftFloat
