/-! Model of how `BenchContext` records finished samples (`src/benchmark/mod.rs`, the loop after a
    round; `src/stats/sample.rs` `SampleCollection::clear`; `src/counter/collection.rs`
    `push_counter` / `clear_input_counts`) and of how `compute_stats` finds a sample's allocation
    figures and per-input counts again (by the sample's *index* in `time_samples`). Core only.

    Three stores have to stay aligned: the list of durations, the map from sample index to
    allocation information (an entry only for samples whose tallies are not empty), and one list of
    per-iteration counts for every counter kind that counts inputs. -/
namespace Recording

/-- what one finished sample hands to the recording loop -/
structure Raw where
  dur    : Nat
  alloc  : Option Nat      -- `none`: the sample's tallies are empty, nothing is inserted
  counts : List Nat        -- per-iteration count for each input-counting kind, in `KnownCounterKind::ALL` order
  deriving Repr, DecidableEq

structure Coll where
  times  : List Nat
  allocs : List (Nat × Nat)     -- `HashMap<u32, ThreadAllocInfo>` as an association list
  counts : List (List Nat)      -- one list per input-counting kind
  deriving Repr, DecidableEq

/-- `HashMap::insert`: an existing binding of the key is replaced -/
def insert (m : List (Nat × Nat)) (i a : Nat) : List (Nat × Nat) := m.filter (·.1 ≠ i) ++ [(i, a)]

/-- `HashMap::get` -/
def lookup (m : List (Nat × Nat)) (i : Nat) : Option Nat := (m.find? (·.1 = i)).map (·.2)

def empty (kinds : Nat) : Coll := { times := [], allocs := [], counts := List.replicate kinds [] }

/-- `samples.clear()` and `counters.clear_input_counts()`, as done at the start of every tuning round -/
def clear (c : Coll) : Coll := { times := [], allocs := [], counts := c.counts.map fun _ => [] }

/-- the body of `for raw_sample in raw_samples` -/
def push (c : Coll) (r : Raw) : Coll :=
  let i := c.times.length                      -- `sample_index`, read inside the loop
  { times := c.times ++ [r.dur]
    allocs := match r.alloc with
      | some a => insert c.allocs i a
      | none => c.allocs
    counts := List.zipWith (fun l x => l ++ [x]) c.counts r.counts }

def recordRound (c : Coll) (raws : List Raw) : Coll := raws.foldl push c

inductive Op
  | clear
  | round (raws : List Raw)

def step (c : Coll) : Op → Coll
  | .clear => clear c
  | .round raws => recordRound c raws

def run (kinds : Nat) (ops : List Op) : Coll := ops.foldl step (empty kinds)

/-- the samples recorded since the last clear, oldest first -/
def logStep (log : List Raw) : Op → List Raw
  | .clear => []
  | .round raws => log ++ raws

def logOf (ops : List Op) : List Raw := ops.foldl logStep []

/-- the map entries a log should have left: `(index, tally)` for the samples with non-empty tallies -/
def ent (i : Nat) (r : Raw) : List (Nat × Nat) :=
  match r.alloc with | some a => [(i, a)] | none => []

def entries (i : Nat) : List Raw → List (Nat × Nat)
  | [] => []
  | r :: rs => ent i r ++ entries (i + 1) rs

/-! ### what `compute_stats` reads -/

/-- allocation figure attached to the sample at index `j` (`sample_alloc_info`) -/
def allocOf (c : Coll) (j : Nat) : Option Nat := lookup c.allocs j

/-- count of kind `k` attached to the sample at index `j` (`counter_count_for_sample`) -/
def countOf (c : Coll) (k j : Nat) : Option Nat := (c.counts[k]?).bind (·[j]?)

/-- the sum the mean allocation figures start from (`alloc_info_by_sample.values()`) -/
def allocTotal (c : Coll) : Nat := (c.allocs.map (·.2)).sum

end Recording
