/-! Prototype: per-thread, per-sample model of divan's `sample_recorder` (C01, C02). Core only.
    Three code paths selected by size_of / needs_drop, two ownership modes (by value / by reference). -/
namespace SampleLoop

structure Shape where
  iZst : Bool
  iDrop : Bool
  oZst : Bool
  oDrop : Bool
  deriving DecidableEq, Repr

inductive Entry | values | refs
  deriving DecidableEq, Repr

inductive Path | zst | slots | inputs
  deriving DecidableEq, Repr

/-- the `if size_of::<I>() == 0 && (size_of::<O>() == 0 || !needs_drop::<O>())` / `ONLY_INPUTS` selection -/
def pathOf (sh : Shape) : Path :=
  if sh.iZst && (sh.oZst || !sh.oDrop) then .zst
  else if sh.oDrop then .slots else .inputs

inductive Ev
  | gen (i : Nat) | count (k i : Nat)
  | syncStart | tsStart | call (i : Nat) | tsEnd | syncEnd | snapshot
  | dropOut (i : Nat) | dropIn (i : Nat)
  deriving DecidableEq, Repr

/-- is a destructor of an output observable for this shape? (drop glue exists) -/
def outDropped (sh : Shape) : Bool := sh.oDrop
/-- does divan itself drop the input? only when it was lent by reference and has drop glue -/
def inDropped (sh : Shape) (e : Entry) : Bool := sh.iDrop && e == .refs

def genPart (counters : List Nat) (s : Nat) : List Ev :=
  (List.range s).flatMap fun i => Ev.gen i :: counters.map fun k => Ev.count k i

def callPart (s : Nat) : List Ev := (List.range s).map Ev.call

def dropsOf (sh : Shape) (e : Entry) (i : Nat) : List Ev :=
  (if outDropped sh then [Ev.dropOut i] else []) ++ (if inDropped sh e then [Ev.dropIn i] else [])

/-- Drop phase of each path. In the `inputs` path outputs have no drop glue; in the `zst` path an output is
    re-materialised and dropped only if it is a ZST, which is the only way it can have drop glue there. -/
def dropPart (sh : Shape) (e : Entry) (s : Nat) : List Ev :=
  match pathOf sh with
  | .zst    => (List.range s).flatMap fun i =>
                 (if sh.oZst && sh.oDrop then [Ev.dropOut i] else []) ++
                 (if sh.iDrop && e == .refs then [Ev.dropIn i] else [])
  | .slots  => (List.range s).flatMap fun i =>
                 Ev.dropOut i :: (if sh.iDrop && e == .refs then [Ev.dropIn i] else [])
  | .inputs => if sh.iDrop then (List.range s).flatMap fun i => (if e == .refs then [Ev.dropIn i] else []) else []

def trace (sh : Shape) (e : Entry) (counters : List Nat) (s : Nat) : List Ev :=
  genPart counters s ++ [.syncStart, .tsStart] ++ callPart s ++ [.tsEnd, .syncEnd, .snapshot] ++ dropPart sh e s

/-! ### the drop phase is the same list for all three paths -/
theorem dropPart_eq (sh : Shape) (e : Entry) (s : Nat) :
    dropPart sh e s = (List.range s).flatMap (dropsOf sh e) := by
  have hf : dropsOf sh e = fun i => dropsOf sh e i := rfl
  rw [hf]
  obtain ⟨iz, idr, oz, odr⟩ := sh
  cases iz <;> cases idr <;> cases oz <;> cases odr <;> cases e <;>
    simp [dropPart, pathOf, dropsOf, outDropped, inDropped]

/-! ### per-cell life cycle (what the unsafe code does to slot i), checked for every shape by `decide` -/

inductive Cell | uninit | init | moved | dropped
  deriving DecidableEq, Repr

inductive CellOp | write | read | borrow | dropInPlace
  deriving DecidableEq, Repr

/-- `none` = undefined behaviour (read of uninit/moved/dropped, double drop, overwrite of a live value) -/
def applyOp : Cell → CellOp → Option Cell
  | .uninit, .write => some .init
  | .init, .read => some .moved
  | .init, .borrow => some .init
  | .init, .dropInPlace => some .dropped
  | _, _ => none

def runCell : Cell → List CellOp → Option Cell
  | c, [] => some c
  | c, op :: ops => (applyOp c op).bind (runCell · ops)

/-- operations applied to input slot i over the three loops (sized path; the ZST path conjures values
    instead and is accounted for by `zstBalance`) -/
def inputOps (sh : Shape) (e : Entry) : List CellOp :=
  [.write] ++ (match e with | .values => [.read] | .refs => [.borrow]) ++
  (if sh.iDrop && e == .refs then [.dropInPlace] else [])

/-- operations applied to output slot i (slots path only) -/
def outputOps : List CellOp := [.write, .dropInPlace]

theorem input_lifecycle_ok : ∀ (sh : Shape) (e : Entry), (runCell .uninit (inputOps sh e)).isSome = true := by
  intro sh e; obtain ⟨a, b, c, d⟩ := sh
  cases a <;> cases b <;> cases c <;> cases d <;> cases e <;> decide

theorem input_final : ∀ (sh : Shape) (e : Entry),
    runCell .uninit (inputOps sh e) =
      some (match e with
            | .values => .moved                       -- ownership went to the benchmarked function
            | .refs => if sh.iDrop then .dropped else .init) := by   -- no drop glue: nothing to run
  intro sh e; obtain ⟨a, b, c, d⟩ := sh
  cases a <;> cases b <;> cases c <;> cases d <;> cases e <;> decide

theorem output_lifecycle : runCell .uninit outputOps = some .dropped := by decide

/-- every prefix of a UB-free operation sequence is UB-free: a panic (which truncates the sequence)
    can leak but never double-drops or reads a dead value -/
theorem prefix_ok (c : Cell) (ops : List CellOp) (k : Nat) (h : (runCell c ops).isSome = true) :
    (runCell c (ops.take k)).isSome = true := by
  induction ops generalizing c k with
  | nil => simp [runCell]
  | cons op ops ih =>
    cases k with
    | zero => simp [runCell]
    | succ k =>
      simp only [List.take_succ_cons, runCell] at h ⊢
      cases ha : applyOp c op with
      | none => simp [ha] at h
      | some c' => simp [ha] at h ⊢; exact ih c' k h

/-- ZST path: values are forgotten after generation and re-materialised later. Balance per input:
    +1 forget, −1 when consumed by a by-value call, −1 when divan drops a by-reference input. -/
def zstBalance (sh : Shape) (e : Entry) : Int :=
  1 - (if e == .values then 1 else 0) - (if sh.iDrop && e == .refs then 1 else 0)

theorem zst_balance : ∀ (sh : Shape) (e : Entry),
    zstBalance sh e = if (e == .refs && !sh.iDrop) then 1 else 0 := by
  intro sh e; obtain ⟨a, b, c, d⟩ := sh
  cases a <;> cases b <;> cases c <;> cases d <;> cases e <;> decide

/-! ### C01 / C02 statements about the trace, for every sample size -/

def isCall : Ev → Bool | .call _ => true | _ => false
def isGen : Ev → Bool | .gen _ => true | _ => false
def isDrop : Ev → Bool | .dropOut _ => true | .dropIn _ => true | _ => false
def isTs : Ev → Bool | .tsStart => true | .tsEnd => true | _ => false
def isPre : Ev → Bool | .gen _ => true | .count _ _ => true | _ => false

theorem filter_genPart_call (cs : List Nat) (s : Nat) : (genPart cs s).filter isCall = [] := by
  simp [genPart, List.filter_eq_nil_iff, isCall]
  intro a x _ h; rcases h with h | ⟨k, _, h⟩ <;> subst h <;> simp [isCall]

theorem filter_dropsOf_call (sh e) (s : Nat) : ((List.range s).flatMap (dropsOf sh e)).filter isCall = [] := by
  simp [List.filter_eq_nil_iff, dropsOf]
  intro a x _ h
  rcases h with ⟨_, h⟩ | ⟨_, h⟩ <;> subst h <;> simp [isCall]

/-- C01: the calls are exactly `call 0, …, call (s-1)`, each once, in generation order. -/
theorem calls_exactly (sh e cs s) : (trace sh e cs s).filter isCall = (List.range s).map Ev.call := by
  simp only [trace, dropPart_eq, List.filter_append, filter_genPart_call, filter_dropsOf_call]
  simp [callPart, List.filter_eq_self, isCall]

/-- C02: if the calls are removed, the two timestamps are adjacent up to nothing at all:
    between `tsStart` and `tsEnd` the thread executes only benchmarked calls. -/
theorem timed_section_only_calls (sh e cs s) :
    (trace sh e cs s).filter (fun ev => !isCall ev) =
      genPart cs s ++ [.syncStart, .tsStart] ++ [.tsEnd, .syncEnd, .snapshot] ++ (List.range s).flatMap (dropsOf sh e) := by
  have h1 : (genPart cs s).filter (fun ev => !isCall ev) = genPart cs s := by
    rw [List.filter_eq_self]; intro a ha
    have := filter_genPart_call cs s
    rw [List.filter_eq_nil_iff] at this; simpa using this a ha
  have h2 : ((List.range s).flatMap (dropsOf sh e)).filter (fun ev => !isCall ev) = (List.range s).flatMap (dropsOf sh e) := by
    rw [List.filter_eq_self]; intro a ha
    have := filter_dropsOf_call sh e s
    rw [List.filter_eq_nil_iff] at this; simpa using this a ha
  have h3 : (callPart s).filter (fun ev => !isCall ev) = [] := by
    simp [callPart, List.filter_eq_nil_iff, isCall]
  simp only [trace, dropPart_eq, List.filter_append, h1, h2, h3]
  simp [isCall]

/-- C01/C02: every drop happens after the end timestamp, output `i` immediately before input `i`. -/
theorem drops_after_end (sh e cs s) :
    (trace sh e cs s).filter (fun ev => isDrop ev || isTs ev) =
      [.tsStart, .tsEnd] ++ (List.range s).flatMap (dropsOf sh e) := by
  have h1 : (genPart cs s).filter (fun ev => isDrop ev || isTs ev) = [] := by
    simp [genPart, List.filter_eq_nil_iff]
    intro a x _ h; rcases h with h | ⟨k, _, h⟩ <;> subst h <;> simp [isDrop, isTs]
  have h2 : (callPart s).filter (fun ev => isDrop ev || isTs ev) = [] := by
    simp [callPart, List.filter_eq_nil_iff, isDrop, isTs]
  have h3 : ((List.range s).flatMap (dropsOf sh e)).filter (fun ev => isDrop ev || isTs ev)
      = (List.range s).flatMap (dropsOf sh e) := by
    rw [List.filter_eq_self]; intro a ha
    simp [dropsOf] at ha
    obtain ⟨x, _, h⟩ := ha
    rcases h with ⟨_, h⟩ | ⟨_, h⟩ <;> subst h <;> simp [isDrop]
  simp only [trace, dropPart_eq, List.filter_append, h1, h2, h3]
  simp [isDrop, isTs]

/-- C01/C02: generation and counting are over before the start timestamp. -/
theorem gen_before_start (sh e cs s) :
    (trace sh e cs s).filter (fun ev => isPre ev || isTs ev) = genPart cs s ++ [.tsStart, .tsEnd] := by
  have h1 : (genPart cs s).filter (fun ev => isPre ev || isTs ev) = genPart cs s := by
    rw [List.filter_eq_self]; intro a ha
    simp [genPart] at ha
    obtain ⟨x, _, h⟩ := ha
    rcases h with h | ⟨k, _, h⟩ <;> subst h <;> simp [isPre]
  have h2 : (callPart s).filter (fun ev => isPre ev || isTs ev) = [] := by
    simp [callPart, List.filter_eq_nil_iff, isPre, isTs]
  have h3 : ((List.range s).flatMap (dropsOf sh e)).filter (fun ev => isPre ev || isTs ev) = [] := by
    simp [List.filter_eq_nil_iff, dropsOf]
    intro a x _ h
    rcases h with ⟨_, h⟩ | ⟨_, h⟩ <;> subst h <;> simp [isPre, isTs]
  simp only [trace, dropPart_eq, List.filter_append, h1, h2, h3]
  simp [isPre, isTs]

end SampleLoop
