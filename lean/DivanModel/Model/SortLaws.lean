/-! Prototype: uniqueness of the sorted order and `--sortr` = exact reverse (C16). Core only.
    Rust's `sort*_by` is trusted to return *some* sorted permutation when the comparator is a total preorder;
    these theorems say that for a strict comparator there is only one, so the choice of algorithm (and its
    stability) cannot matter, and that sorting by the reversed comparator yields the reversed list. -/
namespace SortLaws
open List

variable {α : Type} (cmp : α → α → Ordering)

def le (a b : α) : Prop := cmp a b ≠ .gt
/-- `apply_reverse`: the comparator with its result reversed -/
def rcmp (a b : α) : Ordering := (cmp a b).swap
def rle (a b : α) : Prop := rcmp cmp a b ≠ .gt

/-- C16: if distinct siblings never compare `Equal`, the sorted permutation is unique. -/
theorem sorted_unique (swap : ∀ a b, cmp b a = (cmp a b).swap)
    (l L L' : List α) (strict : ∀ a b, a ∈ l → b ∈ l → cmp a b = .eq → a = b)
    (hL : L ~ l) (hL' : L' ~ l) (sL : L.Pairwise (le cmp)) (sL' : L'.Pairwise (le cmp)) : L = L' := by
  apply Perm.eq_of_pairwise (le := le cmp) _ sL sL' (hL.trans hL'.symm)
  intro a b ha hb hab hba
  apply strict a b (hL.subset ha) (hL'.subset hb)
  unfold le at hab hba
  rw [swap a b] at hba
  cases h : cmp a b with
  | eq => rfl
  | gt => exact absurd h hab
  | lt => rw [h] at hba; exact absurd rfl hba

/-- C16: `--sortr` shows exactly the reverse of `--sort`. -/
theorem sortr_is_reverse (swap : ∀ a b, cmp b a = (cmp a b).swap)
    (l L R : List α) (strict : ∀ a b, a ∈ l → b ∈ l → cmp a b = .eq → a = b)
    (hL : L ~ l) (hR : R ~ l) (sL : L.Pairwise (le cmp)) (sR : R.Pairwise (rle cmp)) : R = L.reverse := by
  have hrev : L.reverse.Pairwise (rle cmp) := by
    rw [pairwise_reverse]
    refine sL.imp ?_
    intro a b hab
    unfold rle rcmp; unfold le at hab
    -- rle b a  ⇔  (cmp b a).swap ≠ gt  ⇔  cmp a b ≠ gt
    have : (cmp b a).swap = cmp a b := by rw [swap a b]; cases cmp a b <;> rfl
    rw [this]; exact hab
  apply Perm.eq_of_pairwise (le := rle cmp) _ sR hrev (hR.trans ((reverse_perm L).trans hL).symm)
  intro a b ha hb hab hba
  apply strict a b (hR.subset ha) (hL.subset (by simpa using hb))
  unfold rle rcmp at hab hba
  rw [swap a b] at hba
  cases h : cmp a b with
  | eq => rfl
  | gt => rw [h] at hba; exact absurd rfl hba
  | lt => rw [h] at hab; exact absurd rfl hab

end SortLaws
