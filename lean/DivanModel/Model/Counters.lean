/-! `CounterCollection` (src/counter/collection.rs): per counter kind a list of counts and whether the
    kind is counted per input. Configuration (`Bencher::counter`, `input_counter` / `count_inputs_as`, the
    constants resolved from options) comes first, then the runner pushes one per-iteration count per recorded
    sample for every input-counted kind and clears those lists when a tuning round is discarded;
    `compute_stats` looks a sample's count up by sample index for input-counted kinds and at index 0
    otherwise. Core only. -/
namespace Counters

structure Info where
  counts : List Nat := []
  byInput : Bool := false
  deriving Repr, DecidableEq

/-- kind ↦ info (the code has four kinds; nothing here depends on the number) -/
abbrev Coll := Nat → Info

def upd (c : Coll) (k : Nat) (i : Info) : Coll := fun j => if j = k then i else c j

/-- `CounterSet::to_collection`: the constants resolved from attribute / run-time options -/
def ofOptions (opt : Nat → Option Nat) : Coll := fun k =>
  { counts := match opt k with | some v => [v] | none => [], byInput := false }

/-- `set_counter` (repaired, finding F10): a constant count replaces whatever was configured for its
    kind - "override an existing counter of the same type", as `Bencher::counter` documents -/
def setCounter (c : Coll) (k v : Nat) : Coll := upd c k { counts := [v], byInput := false }

/-- `set_counter` as pinned: overwrite the first count or push one; the input closure stays -/
def setCounterPinned (c : Coll) (k v : Nat) : Coll :=
  upd c k { (c k) with counts := match (c k).counts with | [] => [v] | _ :: r => v :: r }

/-- `set_input_counter`: previously set counts are ignored -/
def setInputCounter (c : Coll) (k : Nat) : Coll := upd c k { counts := [], byInput := true }

/-- `push_counter` -/
def pushCounter (c : Coll) (k v : Nat) : Coll := upd c k { (c k) with counts := (c k).counts ++ [v] }

/-- the loop over `KnownCounterKind::ALL` after a sample was stored: one count per input-counted kind -/
def recordSample (kinds : Nat) (c : Coll) (perKind : Nat → Nat) : Coll := fun k =>
  if k < kinds ∧ (c k).byInput then { (c k) with counts := (c k).counts ++ [perKind k] } else c k

/-- `clear_input_counts` -/
def clearInputCounts (c : Coll) : Coll := fun k =>
  if (c k).byInput then { (c k) with counts := [] } else c k

/-- `counter_count_for_sample` -/
def countForSample (c : Coll) (k j : Nat) : Option Nat :=
  (c k).counts[if (c k).byInput then j else 0]?

/-- `mean_count` (only reached when the kind has a count) -/
def meanCount (c : Coll) (k : Nat) : Nat := (c k).counts.sum / (c k).counts.length

/-- configuration calls on the `Bencher`, in program order -/
inductive Cfg
  | counter (k v : Nat)
  | input (k : Nat)
  deriving Repr, DecidableEq

def Cfg.kind : Cfg → Nat
  | .counter k _ => k
  | .input k => k

def applyCfg (c : Coll) : Cfg → Coll
  | .counter k v => setCounter c k v
  | .input k => setInputCounter c k

def applyCfgPinned (c : Coll) : Cfg → Coll
  | .counter k v => setCounterPinned c k v
  | .input k => setInputCounter c k

/-- what happens after configuration: recorded samples (the per-iteration count of each kind) and
    discarded tuning rounds -/
inductive Ev
  | sample (perKind : Nat → Nat)
  | clear

def applyEv (kinds : Nat) (c : Coll) : Ev → Coll
  | .sample f => recordSample kinds c f
  | .clear => clearInputCounts c

def keptStep (acc : List (Nat → Nat)) : Ev → List (Nat → Nat)
  | .sample f => acc ++ [f]
  | .clear => []

/-- the samples recorded since the last clear, oldest first -/
def kept (evs : List Ev) : List (Nat → Nat) := evs.foldl keptStep []

end Counters
