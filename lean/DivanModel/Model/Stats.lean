/-! Prototype: time statistics of `compute_stats` (C05) on an arbitrary sorted sample list. Core only. -/
namespace Stats

def sum (l : List Nat) : Nat := l.foldl (· + ·) 0

/-- `util::slice_middle` -/
def sliceMiddle (l : List Nat) : List Nat :=
  if l.length = 0 then []
  else if l.length % 2 = 0 then (l.drop (l.length / 2 - 1)).take 2
  else (l.drop (l.length / 2)).take 1

structure TimeStats where
  fastest : Nat
  slowest : Nat
  median  : Nat
  mean    : Nat
  deriving Repr, DecidableEq

/-- the time part of `compute_stats`; `sorted` = the samples sorted by duration, `s` = sample size.
    Divisions in the order the code performs them; `checked_div(..).unwrap_or_default()` for the mean. -/
def timeStats (s : Nat) (sorted : List Nat) : TimeStats :=
  let mid := sliceMiddle sorted
  { fastest := match sorted.head? with | some d => d / s | none => 0
    slowest := match sorted.getLast? with | some d => d / s | none => 0
    median  := if mid.isEmpty then 0 else (sum mid / mid.length) / s
    mean    := if s * sorted.length = 0 then 0 else sum sorted / (s * sorted.length) }

theorem sum_cons (a : Nat) (l : List Nat) : sum (a :: l) = a + sum l := by
  simp only [sum, List.foldl_cons]
  have : ∀ (l : List Nat) (x : Nat), l.foldl (· + ·) x = x + l.foldl (· + ·) 0 := by
    intro l; induction l with
    | nil => simp
    | cons y ys ih => intro x; simp only [List.foldl_cons]; rw [ih, ih (0 + y)]; omega
  rw [this]; omega

theorem sum_bounds (l : List Nat) (lo hi : Nat) (h : ∀ x ∈ l, lo ≤ x ∧ x ≤ hi) :
    lo * l.length ≤ sum l ∧ sum l ≤ hi * l.length := by
  induction l with
  | nil => simp [sum]
  | cons a l ih =>
    have ha := h a (by simp)
    have := ih (fun x hx => h x (by simp [hx]))
    simp only [sum_cons, List.length_cons, Nat.mul_succ]; omega

/-- the mean of a non-empty list lies between any bounds of its elements -/
theorem avg_bounds (l : List Nat) (lo hi : Nat) (hne : l ≠ []) (h : ∀ x ∈ l, lo ≤ x ∧ x ≤ hi) :
    lo ≤ sum l / l.length ∧ sum l / l.length ≤ hi := by
  have hl : 0 < l.length := List.length_pos_iff.mpr hne
  have := sum_bounds l lo hi h
  constructor
  · exact (Nat.le_div_iff_mul_le hl).2 this.1
  · exact Nat.div_le_of_le_mul (by rw [Nat.mul_comm]; exact this.2)

theorem sliceMiddle_sub (l : List Nat) : ∀ x ∈ sliceMiddle l, x ∈ l := by
  intro x hx
  unfold sliceMiddle at hx
  split at hx
  · simp at hx
  · split at hx
    · exact List.mem_of_mem_drop (List.mem_of_mem_take hx)
    · exact List.mem_of_mem_drop (List.mem_of_mem_take hx)

theorem sliceMiddle_ne (l : List Nat) (h : l ≠ []) : sliceMiddle l ≠ [] := by
  have hl : 0 < l.length := List.length_pos_iff.mpr h
  unfold sliceMiddle
  have h0 : ¬ l.length = 0 := by omega
  simp only [h0, if_false]
  split
  · intro hc
    have := congrArg List.length hc
    simp at this; omega
  · intro hc
    have := congrArg List.length hc
    simp at this; omega

/-- C05: for every non-empty sorted sample list and positive sample size,
    fastest ≤ median ≤ slowest and fastest ≤ mean ≤ slowest, where fastest/slowest are the smallest/largest
    sample divided by the sample size. -/
theorem time_order (s : Nat) (hs : 0 < s) (sorted : List Nat) (hne : sorted ≠ [])
    (hsorted : sorted.Pairwise (· ≤ ·)) :
    let st := timeStats s sorted
    (∃ mn, sorted.head? = some mn ∧ (∀ x ∈ sorted, mn ≤ x) ∧ st.fastest = mn / s) ∧
    (∃ mx, sorted.getLast? = some mx ∧ (∀ x ∈ sorted, x ≤ mx) ∧ st.slowest = mx / s) ∧
    st.fastest ≤ st.median ∧ st.median ≤ st.slowest ∧ st.fastest ≤ st.mean ∧ st.mean ≤ st.slowest := by
  -- smallest and largest element of a sorted list
  obtain ⟨mn, rest, rfl⟩ : ∃ mn rest, sorted = mn :: rest := by
    cases sorted with
    | nil => exact absurd rfl hne
    | cons a l => exact ⟨a, l, rfl⟩
  have hmin : ∀ x ∈ mn :: rest, mn ≤ x := by
    intro x hx
    simp at hx; rcases hx with rfl | hx
    · exact Nat.le_refl _
    · exact (List.pairwise_cons.1 hsorted).1 x hx
  obtain ⟨mx, hlast⟩ : ∃ mx, (mn :: rest).getLast? = some mx := by
    cases h : (mn :: rest).getLast? with
    | none => simp at h
    | some m => exact ⟨m, rfl⟩
  have hmax : ∀ x ∈ mn :: rest, x ≤ mx := by
    have hmem : mx ∈ mn :: rest := List.mem_of_getLast? hlast
    -- mx is the last element: every element is ≤ it, by sortedness
    obtain ⟨init, hinit⟩ : ∃ init, mn :: rest = init ++ [mx] := by
      have := List.getLast?_eq_some_iff.1 hlast; exact this
    intro x hx
    rw [hinit] at hx hsorted
    simp at hx
    rcases hx with hx | rfl
    · exact (List.pairwise_append.1 hsorted).2.2 x hx mx (by simp)
    · exact Nat.le_refl _
  have hbounds : ∀ x ∈ mn :: rest, mn ≤ x ∧ x ≤ mx := fun x hx => ⟨hmin x hx, hmax x hx⟩
  -- the middle slice
  have hmidne := sliceMiddle_ne (mn :: rest) hne
  have hmid := avg_bounds (sliceMiddle (mn :: rest)) mn mx hmidne
    (fun x hx => hbounds x (sliceMiddle_sub _ x hx))
  have hall := avg_bounds (mn :: rest) mn mx hne hbounds
  have hlen : 0 < (mn :: rest).length := by simp
  have hsl : ¬ (s * (mn :: rest).length = 0) := by
    have : 0 < s * (mn :: rest).length := Nat.mul_pos hs hlen
    omega
  have hmeq : sum (mn :: rest) / (s * (mn :: rest).length) = sum (mn :: rest) / (mn :: rest).length / s := by
    rw [Nat.div_div_eq_div_mul, Nat.mul_comm]
  have hmide : (sliceMiddle (mn :: rest)).isEmpty = false := by
    cases h : sliceMiddle (mn :: rest) with
    | nil => exact absurd h hmidne
    | cons _ _ => rfl
  simp only [timeStats, List.head?_cons, hlast, hmide, hsl, if_false, Bool.false_eq_true]
  refine ⟨⟨mn, rfl, hmin, rfl⟩, ⟨mx, rfl, hmax, rfl⟩, ?_, ?_, ?_, ?_⟩
  · exact Nat.div_le_div_right hmid.1
  · exact Nat.div_le_div_right hmid.2
  · rw [hmeq]; exact Nat.div_le_div_right hall.1
  · rw [hmeq]; exact Nat.div_le_div_right hall.2

/-- C05: nothing divides by zero — the empty sample list and a zero sample size give all-zero statistics. -/
theorem empty_is_zero (s : Nat) : timeStats s [] = ⟨0, 0, 0, 0⟩ := by
  simp [timeStats, sliceMiddle, sum]

/-! ### figures attached to samples: selected through the *index* of the sample that supplied the time -/

/-- `sorted` is the list of sample indices ordered by duration (any sorted permutation) -/
def sliceMiddleIdx (l : List Nat) : List Nat :=
  if l.length = 0 then []
  else if l.length % 2 = 0 then (l.drop (l.length / 2 - 1)).take 2
  else (l.drop (l.length / 2)).take 1

structure Picked (α : Type) where
  fastest : Option α
  slowest : Option α
  median : List α
  deriving Repr

/-- values (allocation tallies, counter values, durations …) of the fastest, slowest and median samples -/
def pick {α} (vals : List α) (sorted : List Nat) : Picked α :=
  { fastest := sorted.head?.bind (vals[·]?)
    slowest := sorted.getLast?.bind (vals[·]?)
    median := (sliceMiddleIdx sorted).filterMap (vals[·]?) }

/-- counter median: `sum / median_samples.len()`; `none` = the division by zero of the pinned code -/
def counterMedianPinned (mid : List Nat) : Option Nat :=
  if mid.length = 0 then none else some (sum mid / mid.length)

/-- repaired (F3): `checked_div(..).unwrap_or_default()` -/
def counterMedian (mid : List Nat) : Nat := if mid.length = 0 then 0 else sum mid / mid.length

/-- per-input counter: value stored for a sample = Σ over its inputs / sample size -/
def perIter (inputCounts : List Nat) (s : Nat) : Nat := sum inputCounts / s

/-- the ascending arrangement of the recorded durations (a reference sorting algorithm; the bench
    driver sorts with this, `Props/C05Multiset` shows every correct sort gives the same list) -/
def ascending (samples : List Nat) : List Nat := samples.mergeSort (fun a b => decide (a ≤ b))

end Stats
