/-! Prototype: entry tree, `retain` (C13), option resolution (C15), terse listing vs run (C14). Core only. -/
namespace Walk

/-- the only option that matters for listing; the other fields resolve the same way (see `Options` below) -/
structure Opts where
  ignore : Option Bool := none
  sampleCount : Option Nat := none
  deriving Repr, DecidableEq

/-- `BenchOptions::overwrite`: `self` wins field by field -/
def Opts.overwrite (self other : Opts) : Opts :=
  { ignore := self.ignore.or other.ignore, sampleCount := self.sampleCount.or other.sampleCount }

inductive Node where
  | parent (name : Nat) (opts : Option Opts) (children : List Node)
  | leaf (name : Nat) (opts : Option Opts) (args : Option (List Nat))
  deriving Repr

abbrev Path := List Nat

/-! ### `EntryTree::retain` -/
mutual
  def retainN (f : Path → Bool) (pre : Path) : Node → Option Node
    | .parent n o cs =>
      let cs' := retainF f (pre ++ [n]) cs
      if cs'.isEmpty then none else some (.parent n o cs')
    | .leaf n o none => if f (pre ++ [n]) then some (.leaf n o none) else none
    | .leaf n o (some as) =>
      let as' := as.filter fun a => f (pre ++ [n, a])
      if as'.isEmpty then none else some (.leaf n o (some as'))
  def retainF (f : Path → Bool) (pre : Path) : List Node → List Node
    | [] => []
    | t :: ts => match retainN f pre t with
      | some t' => t' :: retainF f pre ts
      | none => retainF f pre ts
end

-- all benchmark cases below a node, as full paths, in tree order
mutual
  def casesN (pre : Path) : Node → List Path
    | .parent n _ cs => casesF (pre ++ [n]) cs
    | .leaf n _ none => [pre ++ [n]]
    | .leaf n _ (some as) => as.map fun a => pre ++ [n, a]
  def casesF (pre : Path) : List Node → List Path
    | [] => []
    | t :: ts => casesN pre t ++ casesF pre ts
end

def casesO (pre : Path) : Option Node → List Path
  | none => []
  | some t => casesN pre t

theorem filter_map_path (f : Path → Bool) (g : Nat → Path) (as : List Nat) :
    (as.map g).filter f = (as.filter fun a => f (g a)).map g := by
  induction as with
  | nil => rfl
  | cons a as ih =>
    simp only [List.map_cons, List.filter_cons]
    by_cases h : f (g a) = true
    · simp [h, ih]
    · simp [h, ih]

-- C13: the cases that survive `retain` are exactly the cases whose path passes the filter (same order)
mutual
  theorem retainN_cases (f : Path → Bool) (t : Node) : ∀ pre,
      casesO pre (retainN f pre t) = (casesN pre t).filter f := by
    cases t with
    | parent n o cs =>
      intro pre
      have ih := retainF_cases f cs (pre ++ [n])
      simp only [retainN, casesN]
      rw [← ih]
      cases hc : retainF f (pre ++ [n]) cs with
      | nil => simp [casesO, casesF]
      | cons c cs' => simp [casesO, casesN]
    | leaf n o as =>
      intro pre
      cases as with
      | none =>
        simp only [retainN, casesN]
        by_cases h : f (pre ++ [n]) = true
        · simp [h, casesO, casesN]
        · simp [h, casesO]
      | some as =>
        simp only [retainN, casesN]
        rw [filter_map_path f (fun a => pre ++ [n, a]) as]
        cases hf : as.filter (fun a => f (pre ++ [n, a])) with
        | nil => simp [casesO]
        | cons a as' => simp [casesO, casesN]
  theorem retainF_cases (f : Path → Bool) (ts : List Node) : ∀ pre,
      casesF pre (retainF f pre ts) = (casesF pre ts).filter f := by
    cases ts with
    | nil => intro pre; simp [retainF, casesF]
    | cons t ts =>
      intro pre
      have h1 := retainN_cases f t pre
      have h2 := retainF_cases f ts pre
      simp only [retainF, casesF, List.filter_append]
      rw [← h1, ← h2]
      cases ht : retainN f pre t with
      | none => simp [casesO]
      | some t' => simp [casesO, casesF]
end

/-- C13: a parent survives only if a selected case lies below it (it keeps at least one child,
    and every kept node has at least one case) -/
theorem kept_parent_nonempty (f : Path → Bool) (pre : Path) (n : Nat) (o) (cs : List Node) (t' : Node)
    (h : retainN f pre (.parent n o cs) = some t') :
    ∃ c cs', t' = .parent n o (c :: cs') := by
  simp only [retainN] at h
  cases hc : retainF f (pre ++ [n]) cs with
  | nil => simp [hc] at h
  | cons c cs' => simp [hc] at h; exact ⟨c, cs', h.symm⟩


/-! ### option resolution (C15) and the two walks (C14) -/

/-- the `match (parent_options, child_options)` of `run_tree` -/
def resolve (parent child : Option Opts) : Option Opts :=
  match parent, child with
  | none, none => none
  | some p, none => some p
  | none, some c => some c
  | some p, some c => some (c.overwrite p)

/-- the leaf step of `run_bench_entry`: run-time options override everything -/
def finalOpts (rt : Opts) (entry : Option Opts) : Opts :=
  match entry with
  | none => rt
  | some e => rt.overwrite e

def firstSome {α} : List (Option α) → Option α
  | [] => none
  | some a :: _ => some a
  | none :: xs => firstSome xs

theorem firstSome_append {α} (a b : List (Option α)) : firstSome (a ++ b) = (firstSome a).or (firstSome b) := by
  induction a with
  | nil => simp [firstSome]
  | cons x xs ih => cases x <;> simp [firstSome, ih]

theorem resolve_field {α} (fld : Opts → Option α) (hov : ∀ a b, fld (a.overwrite b) = (fld a).or (fld b))
    (p c : Option Opts) : (resolve p c).bind fld = (c.bind fld).or (p.bind fld) := by
  cases p <;> cases c <;> simp [resolve, hov]

theorem fold_field {α} (fld : Opts → Option α) (hov : ∀ a b, fld (a.overwrite b) = (fld a).or (fld b)) :
    ∀ (chain : List (Option Opts)) (acc : Option Opts),
      (chain.foldl resolve acc).bind fld = (firstSome (chain.reverse.map (·.bind fld))).or (acc.bind fld) := by
  intro chain
  induction chain with
  | nil => intro acc; simp [firstSome]
  | cons c cs ih =>
    intro acc
    simp only [List.foldl_cons, List.reverse_cons, List.map_append, List.map_cons, List.map_nil]
    rw [ih, resolve_field fld hov, firstSome_append]
    cases firstSome (List.map (fun x => x.bind fld) cs.reverse) <;> cases c.bind fld <;> simp [firstSome]

/-- C15: along a chain of groups (outermost first) ending in the benchmark, every field independently is the
    run-time value, else the innermost level that sets it. Stated once for any field that `overwrite`
    combines with `Option::or` (all of them do, see `overwrite_fieldwise`). -/
theorem resolve_first_some {α} (fld : Opts → Option α) (hov : ∀ a b, fld (a.overwrite b) = (fld a).or (fld b))
    (rt : Opts) (chain : List (Option Opts)) :
    fld (finalOpts rt (chain.foldl resolve none)) = firstSome (fld rt :: chain.reverse.map (·.bind fld)) := by
  have h := fold_field fld hov chain none
  have hf : ∀ r : Option Opts, fld (finalOpts rt r) = (fld rt).or (r.bind fld) := by
    intro r; cases r <;> simp [finalOpts, hov]
  rw [hf, h]
  cases fld rt <;> simp [firstSome]

theorem overwrite_fieldwise (a b : Opts) :
    (a.overwrite b).ignore = a.ignore.or b.ignore ∧ (a.overwrite b).sampleCount = a.sampleCount.or b.sampleCount :=
  ⟨rfl, rfl⟩

/-! ### C14: terse listing vs. what a run executes -/
inductive RunIgnored | no | yes | only
  deriving DecidableEq, Repr

def shouldRun : RunIgnored → Bool → Bool
  | .no, ig => !ig
  | .yes, _ => true
  | .only, ig => ig

def nodeOpts : Node → Option Opts
  | .parent _ o _ => o
  | .leaf _ o _ => o

def leafCases (pre : Path) (n : Nat) : Option (List Nat) → List Path
  | none => [pre ++ [n]]
  | some as => as.map fun a => pre ++ [n, a]

-- the cases a run (`--test` / bench) executes
mutual
  def runN (ri : RunIgnored) (rt : Opts) (pre : Path) (po : Option Opts) : Node → List Path
    | .parent n o cs => runF ri rt (pre ++ [n]) (resolve po o) cs
    | .leaf n o as =>
      let fin := finalOpts rt (resolve po o)
      if shouldRun ri (fin.ignore.getD false) then leafCases pre n as else []
  def runF (ri : RunIgnored) (rt : Opts) (pre : Path) (po : Option Opts) : List Node → List Path
    | [] => []
    | t :: ts => runN ri rt pre po t ++ runF ri rt pre po ts
end

-- `run_tree_list` as it is in the pinned tree: every node is judged by its *own* `ignore` only
mutual
  def terseN (ri : RunIgnored) (pre : Path) : Node → List Path
    | .parent n o cs =>
      if shouldRun ri ((o.bind (·.ignore)).getD false) then terseF ri (pre ++ [n]) cs else []
    | .leaf n o as =>
      if shouldRun ri ((o.bind (·.ignore)).getD false) then leafCases pre n as else []
  def terseF (ri : RunIgnored) (pre : Path) : List Node → List Path
    | [] => []
    | t :: ts => terseN ri pre t ++ terseF ri pre ts
end

-- the repaired walk (candidate fix F4): resolve while descending, decide at leaves
mutual
  def terseFixN (ri : RunIgnored) (pre : Path) (po : Option Opts) : Node → List Path
    | .parent n o cs => terseFixF ri (pre ++ [n]) (resolve po o) cs
    | .leaf n o as =>
      if shouldRun ri (((resolve po o).bind (·.ignore)).getD false) then leafCases pre n as else []
  def terseFixF (ri : RunIgnored) (pre : Path) (po : Option Opts) : List Node → List Path
    | [] => []
    | t :: ts => terseFixN ri pre po t ++ terseFixF ri pre po ts
end

-- C14 for the repaired walk: the terse list is exactly what a run executes (the runner itself never sets `ignore`)
mutual
  theorem terseFix_eq_run (ri : RunIgnored) (rt : Opts) (hrt : rt.ignore = none) (t : Node) :
      ∀ pre po, terseFixN ri pre po t = runN ri rt pre po t := by
    cases t with
    | parent n o cs => intro pre po; simp only [terseFixN, runN]; exact terseFixF_eq_run ri rt hrt cs _ _
    | leaf n o as =>
      intro pre po
      simp only [terseFixN, runN]
      have : (finalOpts rt (resolve po o)).ignore = (resolve po o).bind (·.ignore) := by
        cases resolve po o <;> simp [finalOpts, Opts.overwrite, hrt]
      rw [this]
  theorem terseFixF_eq_run (ri : RunIgnored) (rt : Opts) (hrt : rt.ignore = none) (ts : List Node) :
      ∀ pre po, terseFixF ri pre po ts = runF ri rt pre po ts := by
    cases ts with
    | nil => intro pre po; simp [terseFixF, runF]
    | cons t ts =>
      intro pre po
      simp only [terseFixF, runF]
      rw [terseFix_eq_run ri rt hrt t, terseFixF_eq_run ri rt hrt ts]
end

/-- F4, first witness: `ignore = false` inside an ignored group runs but is not listed. -/
def w1 : Node := .parent 0 (some { ignore := some true }) [.leaf 1 (some { ignore := some false }) none]
theorem current_terse_misses_override :
    runN .no {} [] none w1 = [[0, 1]] ∧ terseN .no [] w1 = [] := by decide

/-- F4, second witness: with `--ignored` the current terse list is empty although an inherited-ignored bench runs. -/
def w2 : Node := .parent 9 none [.parent 0 (some { ignore := some true }) [.leaf 1 none none]]
theorem current_terse_empty_under_ignored :
    runN .only {} [] none w2 = [[9, 0, 1]] ∧ terseN .only [] w2 = [] := by decide

end Walk
