import DivanModel.Model.Painter
/-! Character level of a printed tree row (C20): the glyph groups `TreePainter` writes in front of a
    name - `"│  "` / `"   "` per open ancestor below the top level, then `"├─ "` / `"╰─ "` - and the
    decoder the registry driver applies to the implementation's *text* (`Driver/Reg.parseTLine`,
    `treeGlyphsOk`). Both directions live here so that the round trip is a theorem about the very
    function the driver executes (`Props/C20Codec.lean`). Lists of `Char`, no `String` in proofs. -/
namespace LineCodec
open Painter (Glyph)

/-- the three characters `start_parent` appends to the prefix -/
def glyphChars : Glyph → List Char
  | .bar => ['│', ' ', ' ']
  | .blank => [' ', ' ', ' ']

/-- the branch glyph in front of a name below the top level -/
def branchChars (last : Bool) : List Char := [if last then '╰' else '├', '─', ' ']

def prefixChars : List Glyph → List Char
  | [] => []
  | g :: gs => glyphChars g ++ prefixChars gs

/-- a row below the top level: prefix, branch glyph, then whatever follows (name, padding, cells) -/
def renderRow (pre : List Glyph) (last : Bool) (rest : List Char) : List Char :=
  prefixChars pre ++ (branchChars last ++ rest)

/-- `("│  " | "   ")* ("├─ " | "╰─ ")` split off a row: the glyph groups, corner or branch, and the
    rest of the row; `none` when the row does not start like that -/
def splitPrefix : List Char → Option (List Glyph × Bool × List Char)
  | a :: b :: c :: rest =>
    if a = '│' ∧ b = ' ' ∧ c = ' ' then
      match splitPrefix rest with
      | some (p, l, r) => some (Glyph.bar :: p, l, r)
      | none => none
    else if a = ' ' ∧ b = ' ' ∧ c = ' ' then
      match splitPrefix rest with
      | some (p, l, r) => some (Glyph.blank :: p, l, r)
      | none => none
    else if (a = '├' ∨ a = '╰') ∧ b = '─' ∧ c = ' ' then some ([], decide (a = '╰'), rest)
    else none
  | _ => none

/-- does a cut pattern start here? a double blank (padding before the first column), `" │"` (a column
    separator) or `" T │"` (the thread-count marker) -/
def cutsHere : List Char → Bool
  | a :: b :: r =>
    a == ' ' && (b == ' ' || b == '│' ||
      (b == 'T' && match r with | c :: d :: _ => c == ' ' && d == '│' | _ => false))
  | _ => false

/-- the name printed on a row: everything up to the first cut pattern -/
def cutLabel : List Char → List Char
  | [] => []
  | c :: r => if cutsHere (c :: r) then [] else c :: cutLabel r

/-- what a row says about its node -/
structure Row where
  depth : Nat
  last : Bool
  bars : List Bool       -- one per enclosing level below the top: is a continuation bar drawn?
  label : List Char
  deriving Repr, DecidableEq

/-- does a row start like a continuation row (allocation / counter lines under a leaf) rather than
    like a top-level name? -/
def startsBlank : List Char → Bool
  | c :: _ => c = '│' || c = ' '
  | [] => true

/-- a row that opens a node: depth, corner / branch, bars, label; `none` for continuation rows -/
def parseRow (cs : List Char) : Option Row :=
  if cs.isEmpty then none else
  match splitPrefix cs with
  | some (p, l, r) => some ⟨p.length + 1, l, p.map (· == Glyph.bar), cutLabel r⟩
  | none => if startsBlank cs then none else some ⟨0, true, [], cutLabel cs⟩

/-- a name the cutter leaves alone when padding follows it: no cut pattern inside, no trailing blank -/
def cleanLabel : List Char → Bool
  | [] => true
  | c :: r => !cutsHere (c :: r) && (!r.isEmpty || c != ' ') && cleanLabel r

/-- a name that cannot be taken for glyphs at the start of a top-level row -/
def cleanTop : List Char → Bool
  | c :: _ => c ≠ '│' && c ≠ ' ' && c ≠ '├' && c ≠ '╰'
  | [] => false

/-! ### the cells of a statistics row: `cell │ cell │ ...` -/

/-- column separator -/
def cellSep : List Char := [' ', '│', ' ']

/-- what `TreePainter` writes after the name of a statistics row: the cells joined by the separator -/
def joinCells : List (List Char) → List Char
  | [] => []
  | [c] => c
  | c :: cs => c ++ (cellSep ++ joinCells cs)

/-- split a row at every separator (left to right) -/
def splitCellsGo (cur : List Char) : List Char → List (List Char)
  | ' ' :: '│' :: ' ' :: r => cur.reverse :: splitCellsGo [] r
  | c :: r => splitCellsGo (c :: cur) r
  | [] => [cur.reverse]

def splitCells (s : List Char) : List (List Char) := splitCellsGo [] s

end LineCodec
