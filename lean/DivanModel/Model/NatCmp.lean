/-! Prototype: byte-level model of divan's `natural_cmp` with the order laws (C16). Core only. -/
namespace NatCmp

def isDigit (b : Nat) : Bool := 48 ≤ b && b ≤ 57

/-- Rust `Iterator::cmp`: lexicographic, shorter prefix is `Less`. -/
def lexCmp {α} (c : α → α → Ordering) : List α → List α → Ordering
  | [], [] => .eq
  | [], _ :: _ => .lt
  | _ :: _, [] => .gt
  | a :: as, b :: bs =>
    match c a b with
    | .eq => lexCmp c as bs
    | o => o

/-- `c` is a three-way comparison of a total preorder on the elements satisfying `P`. -/
structure IsCmp {α} (P : α → Prop) (c : α → α → Ordering) : Prop where
  swap  : ∀ a b, P a → P b → c b a = (c a b).swap
  trans : ∀ a b x, P a → P b → P x → c a b ≠ .gt → c b x ≠ .gt → c a x ≠ .gt
  eqL   : ∀ a b x, P a → P b → P x → c a b = .eq → c a x = c b x

theorem IsCmp.refl {α} {P : α → Prop} {c} (h : IsCmp P c) (a : α) (ha : P a) : c a a = .eq := by
  have := h.swap a a ha ha
  cases hc : c a a <;> simp [hc, Ordering.swap] at this ⊢

def All {α} (P : α → Prop) (l : List α) : Prop := ∀ a ∈ l, P a

theorem All.tail {α} {P : α → Prop} {a : α} {l : List α} (h : All P (a :: l)) : All P l :=
  fun x hx => h x (by simp [hx])
theorem All.head {α} {P : α → Prop} {a : α} {l : List α} (h : All P (a :: l)) : P a :=
  h a (by simp)

theorem lexCmp_isCmp {α} {P : α → Prop} {c} (h : IsCmp P c) : IsCmp (All P) (lexCmp c) where
  swap := by
    intro l
    induction l with
    | nil => intro m _ _; cases m <;> simp [lexCmp, Ordering.swap]
    | cons a as ih =>
      intro m hl hm
      cases m with
      | nil => simp [lexCmp, Ordering.swap]
      | cons b bs =>
        have hs := h.swap a b hl.head hm.head
        simp only [lexCmp]
        cases hab : c a b <;> simp [hab, Ordering.swap] at hs ⊢ <;> simp [hs]
        exact ih bs hl.tail hm.tail
  trans := by
    intro l
    induction l with
    | nil => intro m x _ _ _ _ _; cases x <;> simp [lexCmp]
    | cons a as ih =>
      intro m x hl hm hx h1 h2
      cases m with
      | nil => simp [lexCmp] at h1
      | cons b bs =>
        cases x with
        | nil => simp [lexCmp] at h2
        | cons y ys =>
          simp only [lexCmp] at h1 h2 ⊢
          have ha := hl.head; have hb := hm.head; have hy := hx.head
          cases hab : c a b with
          | gt => simp [hab] at h1
          | lt =>
            cases hby : c b y with
            | gt => simp [hby] at h2
            | lt =>
              have := h.trans a b y ha hb hy (by simp [hab]) (by simp [hby])
              cases hay : c a y with
              | gt => exact absurd hay this
              | lt => simp
              | eq =>
                -- a ~ y and a < b ⇒ y < b, contradicting b < y
                have e := h.eqL a y b ha hy hb hay
                have s := h.swap b y hb hy
                rw [hby] at s; rw [hab] at e; simp [Ordering.swap] at s; rw [s] at e; cases e
            | eq =>
              have e := h.eqL b y a hb hy ha hby
              have s1 := h.swap a b ha hb; have s2 := h.swap a y ha hy
              rw [hab] at s1; simp [Ordering.swap] at s1
              rw [s1] at e; rw [← e] at s2
              cases hay : c a y <;> simp [hay, Ordering.swap] at s2 ⊢
          | eq =>
            have e := h.eqL a b y ha hb hy hab
            rw [e]
            cases hby : c b y with
            | gt => simp [hby] at h2
            | lt => simp
            | eq =>
              simp [hab] at h1; simp [hby] at h2
              simpa using ih bs ys hl.tail hm.tail hx.tail h1 h2
  eqL := by
    intro l
    induction l with
    | nil =>
      intro m x _ _ _ he
      cases m with
      | nil => rfl
      | cons _ _ => simp [lexCmp] at he
    | cons a as ih =>
      intro m x hl hm hx he
      cases m with
      | nil => simp [lexCmp] at he
      | cons b bs =>
        simp only [lexCmp] at he
        cases hab : c a b with
        | lt => simp [hab] at he
        | gt => simp [hab] at he
        | eq =>
          simp [hab] at he
          cases x with
          | nil => simp [lexCmp]
          | cons y ys =>
            simp only [lexCmp]
            rw [h.eqL a b y hl.head hm.head hx.head hab]
            cases c b y <;> simp
            exact ih bs ys hl.tail hm.tail hx.tail he

/-- `Nat`'s `compare` is such a comparison. -/
theorem natCmp_isCmp : IsCmp (fun _ : Nat => True) (fun a b => compare a b) where
  swap := by
    intro a b _ _
    rcases Nat.lt_trichotomy a b with h | h | h
    · rw [(Nat.compare_eq_lt).2 h, (Nat.compare_eq_gt).2 h]; rfl
    · subst h; simp [Ordering.swap]
    · rw [(Nat.compare_eq_gt).2 h, (Nat.compare_eq_lt).2 h]; rfl
  trans := by
    intro a b x _ _ _ h1 h2
    have h1' : a ≤ b := by
      apply Classical.byContradiction; intro hn; exact h1 ((Nat.compare_eq_gt).2 (by omega))
    have h2' : b ≤ x := by
      apply Classical.byContradiction; intro hn; exact h2 ((Nat.compare_eq_gt).2 (by omega))
    intro hg; have := (Nat.compare_eq_gt).1 hg; omega
  eqL := by
    intro a b x _ _ _ he
    have : a = b := (Nat.compare_eq_eq).1 he
    subst this; rfl


/-! ### digit runs -/

def dval (d : Nat) : Nat := d - 48

def val : List Nat → Nat
  | [] => 0
  | d :: ds => dval d * 10 ^ ds.length + val ds

def AllDigits (l : List Nat) : Prop := ∀ d ∈ l, isDigit d = true

theorem dval_lt {d} (h : isDigit d = true) : dval d < 10 := by
  simp [isDigit] at h; simp [dval]; omega

theorem val_lt (l : List Nat) (h : AllDigits l) : val l < 10 ^ l.length := by
  induction l with
  | nil => simp [val]
  | cons d ds ih =>
    have h1 := dval_lt (h d (by simp))
    have h2 := ih (fun x hx => h x (by simp [hx]))
    simp only [val, List.length_cons, Nat.pow_succ]
    have : dval d * 10 ^ ds.length ≤ 9 * 10 ^ ds.length := Nat.mul_le_mul_right _ (by omega)
    omega

theorem val_ge (d : Nat) (ds : List Nat) (hd : isDigit d = true) (hnz : d ≠ 48) :
    10 ^ ds.length ≤ val (d :: ds) := by
  simp [isDigit] at hd
  have : 1 ≤ dval d := by simp [dval]; omega
  simp only [val]
  have : 1 * 10 ^ ds.length ≤ dval d * 10 ^ ds.length := Nat.mul_le_mul_right _ this
  omega

theorem lex_eq_val (a b : List Nat) (ha : AllDigits a) (hb : AllDigits b) (hl : a.length = b.length) :
    lexCmp (fun x y => compare x y) a b = compare (val a) (val b) := by
  induction a generalizing b with
  | nil => cases b with
    | nil => simp [lexCmp, val]
    | cons _ _ => simp at hl
  | cons x xs ih =>
    cases b with
    | nil => simp at hl
    | cons y ys =>
      simp at hl
      have hx := ha x (by simp); have hy := hb y (by simp)
      have hxs : AllDigits xs := fun d hd => ha d (by simp [hd])
      have hys : AllDigits ys := fun d hd => hb d (by simp [hd])
      have ih' := ih ys hxs hys hl
      have bx := val_lt xs hxs; have by' := val_lt ys hys
      simp [isDigit] at hx hy
      simp only [lexCmp, val, hl]
      rcases Nat.lt_trichotomy x y with h | h | h
      · have : compare x y = .lt := (Nat.compare_eq_lt).2 h
        simp only [this]
        have hd : dval x + 1 ≤ dval y := by simp [dval]; omega
        have : (dval x + 1) * 10 ^ ys.length ≤ dval y * 10 ^ ys.length := Nat.mul_le_mul_right _ hd
        rw [Nat.add_mul] at this
        symm; rw [Nat.compare_eq_lt]; rw [hl] at bx; omega
      · subst h
        have : compare x x = .eq := by simp
        simp only [this, ih']
        rcases Nat.lt_trichotomy (val xs) (val ys) with h | h | h
        · rw [(Nat.compare_eq_lt).2 h, (Nat.compare_eq_lt).2 (by omega)]
        · rw [h]; simp
        · rw [(Nat.compare_eq_gt).2 h, (Nat.compare_eq_gt).2 (by omega)]
      · have : compare x y = .gt := (Nat.compare_eq_gt).2 h
        simp only [this]
        have hd : dval y + 1 ≤ dval x := by simp [dval]; omega
        have : (dval y + 1) * 10 ^ ys.length ≤ dval x * 10 ^ ys.length := Nat.mul_le_mul_right _ hd
        rw [Nat.add_mul] at this
        symm; rw [Nat.compare_eq_gt]; omega

/-- `trim_start_matches('0')` -/
def stripZeros : List Nat → List Nat
  | [] => []
  | d :: ds => if d = 48 then stripZeros ds else d :: ds

theorem stripZeros_val (l : List Nat) : val (stripZeros l) = val l := by
  induction l with
  | nil => rfl
  | cons d ds ih =>
    simp only [stripZeros]
    split
    · rename_i h; subst h; simp [val, dval, ih]
    · rfl

theorem stripZeros_digits (l : List Nat) (h : AllDigits l) : AllDigits (stripZeros l) := by
  induction l with
  | nil => exact h
  | cons d ds ih =>
    simp only [stripZeros]
    split
    · exact ih (fun x hx => h x (by simp [hx]))
    · exact h

theorem stripZeros_head (l : List Nat) : ∀ d ds, stripZeros l = d :: ds → d ≠ 48 := by
  induction l with
  | nil => intro d ds h; simp [stripZeros] at h
  | cons x xs ih =>
    intro d ds h
    simp only [stripZeros] at h
    split at h
    · exact ih d ds h
    · rename_i hx; simp at h; rw [← h.1]; exact hx

/-- the code of `cmp_int` -/
def cmpInt (a b : List Nat) : Ordering :=
  let a := stripZeros a
  let b := stripZeros b
  match a.isEmpty, b.isEmpty with
  | true, true => .eq
  | true, false => .lt
  | false, true => .gt
  | false, false =>
    match compare a.length b.length with
    | .eq => lexCmp (fun x y => compare x y) a b
    | o => o

theorem val_pos_of_stripped (l : List Nat) (h : AllDigits l) (hne : stripZeros l ≠ []) : 0 < val l := by
  rw [← stripZeros_val]
  cases hs : stripZeros l with
  | nil => exact absurd hs hne
  | cons d ds =>
    have hd := stripZeros_digits l h
    rw [hs] at hd
    have := val_ge d ds (hd d (by simp)) (stripZeros_head l d ds hs)
    have : 0 < 10 ^ ds.length := Nat.pow_pos (by omega)
    omega

/-- C16: digit runs compare by numeric value. -/
theorem cmpInt_eq_numeric (a b : List Nat) (ha : AllDigits a) (hb : AllDigits b) :
    cmpInt a b = compare (val a) (val b) := by
  have hsa := stripZeros_digits a ha; have hsb := stripZeros_digits b hb
  have va := stripZeros_val a; have vb := stripZeros_val b
  unfold cmpInt
  simp only []
  cases ea : stripZeros a with
  | nil =>
    cases eb : stripZeros b with
    | nil =>
      simp
      have : val a = 0 := by rw [← va, ea]; rfl
      have : val b = 0 := by rw [← vb, eb]; rfl
      simp [*]
    | cons y ys =>
      simp
      have h0 : val a = 0 := by rw [← va, ea]; rfl
      have hp := val_pos_of_stripped b hb (by simp [eb])
      symm; rw [Nat.compare_eq_lt]; omega
  | cons x xs =>
    cases eb : stripZeros b with
    | nil =>
      simp
      have h0 : val b = 0 := by rw [← vb, eb]; rfl
      have hp := val_pos_of_stripped a ha (by simp [ea])
      symm; rw [Nat.compare_eq_gt]; omega
    | cons y ys =>
      simp only [List.isEmpty_cons]
      rw [ea] at hsa va; rw [eb] at hsb vb
      have hxs : AllDigits xs := fun d hd => hsa d (by simp [hd])
      have hys : AllDigits ys := fun d hd => hsb d (by simp [hd])
      have gx := val_ge x xs (hsa x (by simp)) (stripZeros_head a x xs ea)
      have gy := val_ge y ys (hsb y (by simp)) (stripZeros_head b y ys eb)
      have lx := val_lt (x :: xs) hsa; have ly := val_lt (y :: ys) hsb
      rcases Nat.lt_trichotomy (x :: xs).length (y :: ys).length with h | h | h
      · rw [(Nat.compare_eq_lt).2 h]; simp only []
        have : 10 ^ (x :: xs).length ≤ 10 ^ ys.length := Nat.pow_le_pow_right (by omega) (by simp at h ⊢; omega)
        symm; rw [Nat.compare_eq_lt]; omega
      · rw [h]; simp only [(Nat.compare_eq_eq).2 rfl]
        rw [lex_eq_val _ _ hsa hsb h, va, vb]
      · rw [(Nat.compare_eq_gt).2 h]; simp only []
        have : 10 ^ (y :: ys).length ≤ 10 ^ xs.length := Nat.pow_le_pow_right (by omega) (by simp at h ⊢; omega)
        symm; rw [Nat.compare_eq_gt]; omega


/-! ### tokens -/

structure Token where
  isInt : Bool
  text  : List Nat

def AllNonDigits (l : List Nat) : Prop := ∀ d ∈ l, isDigit d = false

def Token.WF (t : Token) : Prop :=
  t.text ≠ [] ∧ (if t.isInt = true then AllDigits t.text else AllNonDigits t.text)

def byteLex : List Nat → List Nat → Ordering := lexCmp (fun x y => compare x y)

theorem byteLex_isCmp : IsCmp (fun _ : List Nat => True) byteLex := by
  have h := lexCmp_isCmp natCmp_isCmp
  exact ⟨fun a b _ _ => h.swap a b (fun _ _ => trivial) (fun _ _ => trivial),
         fun a b x _ _ _ => h.trans a b x (fun _ _ => trivial) (fun _ _ => trivial) (fun _ _ => trivial),
         fun a b x _ _ _ => h.eqL a b x (fun _ _ => trivial) (fun _ _ => trivial) (fun _ _ => trivial)⟩

def Token.cmp (a b : Token) : Ordering :=
  if a.isInt && b.isInt then cmpInt a.text b.text else byteLex a.text b.text

theorem byteLex_cons_ne (p q : Nat) (ps qs : List Nat) (h : p ≠ q) :
    byteLex (p :: ps) (q :: qs) = compare p q := by
  simp only [byteLex, lexCmp]
  cases hc : compare p q with
  | eq => exact absurd ((Nat.compare_eq_eq).1 hc) h
  | lt => rfl
  | gt => rfl

theorem byteLex_cons_le (p q : Nat) (ps qs : List Nat) (h : byteLex (p :: ps) (q :: qs) ≠ .gt) : p ≤ q := by
  apply Classical.byContradiction; intro hn
  have : compare p q = .gt := (Nat.compare_eq_gt).2 (by omega)
  simp [byteLex, lexCmp, this] at h

theorem byteLex_eq (a b : List Nat) (h : byteLex a b = .eq) : a = b := by
  induction a generalizing b with
  | nil => cases b with
    | nil => rfl
    | cons _ _ => simp [byteLex, lexCmp] at h
  | cons x xs ih =>
    cases b with
    | nil => simp [byteLex, lexCmp] at h
    | cons y ys =>
      simp only [byteLex, lexCmp] at h
      cases hc : compare x y with
      | lt => simp [hc] at h
      | gt => simp [hc] at h
      | eq =>
        simp [hc] at h
        have := (Nat.compare_eq_eq).1 hc
        subst this
        rw [ih ys h]

/-- a well-formed token starts with a byte of its own kind -/
theorem Token.WF.cons {t : Token} (h : t.WF) :
    ∃ p ps, t.text = p :: ps ∧ (isDigit p = t.isInt) := by
  obtain ⟨hne, hk⟩ := h
  cases ht : t.text with
  | nil => exact absurd ht hne
  | cons p ps =>
    refine ⟨p, ps, rfl, ?_⟩
    cases hi : t.isInt with
    | true => simp [hi, ht] at hk; exact hk p (by simp)
    | false => simp [hi, ht] at hk; exact hk p (by simp)

theorem cmp_int_int (a b : Token) (ha : a.WF) (hb : b.WF) (ia : a.isInt = true) (ib : b.isInt = true) :
    a.cmp b = compare (val a.text) (val b.text) := by
  have da : AllDigits a.text := by have := ha.2; simpa [ia] using this
  have db : AllDigits b.text := by have := hb.2; simpa [ib] using this
  simp [Token.cmp, ia, ib, cmpInt_eq_numeric _ _ da db]

/-- different kinds: decided by the first bytes, which differ -/
theorem cmp_mixed (a b : Token) (p q : Nat) (ps qs : List Nat) (ea : a.text = p :: ps) (eb : b.text = q :: qs)
    (hk : (a.isInt && b.isInt) = false) (hpq : p ≠ q) : a.cmp b = compare p q := by
  simp [Token.cmp, hk, ea, eb, byteLex_cons_ne p q ps qs hpq]

theorem tokenCmp_isCmp : IsCmp Token.WF Token.cmp where
  swap := by
    intro a b ha hb
    obtain ⟨p, ps, ea, ka⟩ := ha.cons; obtain ⟨q, qs, eb, kb⟩ := hb.cons
    cases ia : a.isInt <;> cases ib : b.isInt
    · -- both non-int
      simp [Token.cmp, ia, ib]; exact byteLex_isCmp.swap _ _ trivial trivial
    · have hpq : p ≠ q := by intro h; subst h; rw [ia] at ka; rw [ib] at kb; simp [ka] at kb
      rw [cmp_mixed b a q p qs ps eb ea (by simp [ia, ib]) (Ne.symm hpq),
          cmp_mixed a b p q ps qs ea eb (by simp [ia, ib]) hpq]
      exact natCmp_isCmp.swap p q trivial trivial
    · have hpq : p ≠ q := by intro h; subst h; rw [ia] at ka; rw [ib] at kb; simp [ka] at kb
      rw [cmp_mixed b a q p qs ps eb ea (by simp [ia, ib]) (Ne.symm hpq),
          cmp_mixed a b p q ps qs ea eb (by simp [ia, ib]) hpq]
      exact natCmp_isCmp.swap p q trivial trivial
    · rw [cmp_int_int b a hb ha ib ia, cmp_int_int a b ha hb ia ib]
      exact natCmp_isCmp.swap _ _ trivial trivial
  trans := by
    intro a b x ha hb hx h1 h2
    obtain ⟨p, ps, ea, ka⟩ := ha.cons; obtain ⟨q, qs, eb, kb⟩ := hb.cons; obtain ⟨r, rs, ex, kx⟩ := hx.cons
    have dig : ∀ {d}, isDigit d = true → 48 ≤ d ∧ d ≤ 57 := by intro d h; simpa [isDigit] using h
    have ndig : ∀ {d}, isDigit d = false → d < 48 ∨ 57 < d := by
      intro d h; simp [isDigit] at h; omega
    cases ia : a.isInt <;> cases ib : b.isInt <;> cases ix : x.isInt <;>
      rw [ia] at ka <;> rw [ib] at kb <;> rw [ix] at kx
    · -- N N N
      simp [Token.cmp, ia, ib, ix] at h1 h2 ⊢
      exact byteLex_isCmp.trans _ _ _ trivial trivial trivial h1 h2
    · -- N N I
      have hpq : p ≤ q := by
        simp [Token.cmp, ia, ib, ea, eb] at h1; exact byteLex_cons_le p q ps qs h1
      have hqr : q ≠ r := by intro h; subst h; simp [kb] at kx
      rw [cmp_mixed b x q r qs rs eb ex (by simp [ib, ix]) hqr] at h2
      have hpr : p ≠ r := by intro h; subst h; simp [ka] at kx
      rw [cmp_mixed a x p r ps rs ea ex (by simp [ia, ix]) hpr]
      have := dig kx; have := ndig ka; have := ndig kb
      intro hg; have hg' := (Nat.compare_eq_gt).1 hg
      have : q ≤ r := by
        apply Classical.byContradiction; intro hn; exact h2 ((Nat.compare_eq_gt).2 (by omega))
      omega
    · -- N I N
      have hpq : p ≠ q := by intro h; subst h; simp [ka] at kb
      have hqr : q ≠ r := by intro h; subst h; simp [kb] at kx
      rw [cmp_mixed a b p q ps qs ea eb (by simp [ia, ib]) hpq] at h1
      rw [cmp_mixed b x q r qs rs eb ex (by simp [ib, ix]) hqr] at h2
      have := dig kb; have := ndig ka; have := ndig kx
      have h1' : p ≤ q := by
        apply Classical.byContradiction; intro hn; exact h1 ((Nat.compare_eq_gt).2 (by omega))
      have h2' : q ≤ r := by
        apply Classical.byContradiction; intro hn; exact h2 ((Nat.compare_eq_gt).2 (by omega))
      have hpr : p ≠ r := by omega
      simp [Token.cmp, ia, ix, ea, ex, byteLex_cons_ne p r ps rs hpr]
      intro hg; have := (Nat.compare_eq_gt).1 hg; omega
    · -- N I I
      have hpq : p ≠ q := by intro h; subst h; simp [ka] at kb
      rw [cmp_mixed a b p q ps qs ea eb (by simp [ia, ib]) hpq] at h1
      have hpr : p ≠ r := by intro h; subst h; simp [ka] at kx
      rw [cmp_mixed a x p r ps rs ea ex (by simp [ia, ix]) hpr]
      have := dig kb; have := dig kx; have := ndig ka
      have h1' : p ≤ q := by
        apply Classical.byContradiction; intro hn; exact h1 ((Nat.compare_eq_gt).2 (by omega))
      intro hg; have := (Nat.compare_eq_gt).1 hg; omega
    · -- I N N
      have hpq : p ≠ q := by intro h; subst h; simp [ka] at kb
      rw [cmp_mixed a b p q ps qs ea eb (by simp [ia, ib]) hpq] at h1
      have hqr : q ≤ r := by
        simp [Token.cmp, ib, ix, eb, ex] at h2; exact byteLex_cons_le q r qs rs h2
      have hpr : p ≠ r := by intro h; subst h; simp [ka] at kx
      rw [cmp_mixed a x p r ps rs ea ex (by simp [ia, ix]) hpr]
      have := dig ka; have := ndig kb; have := ndig kx
      have h1' : p ≤ q := by
        apply Classical.byContradiction; intro hn; exact h1 ((Nat.compare_eq_gt).2 (by omega))
      intro hg; have := (Nat.compare_eq_gt).1 hg; omega
    · -- I N I : impossible
      have hpq : p ≠ q := by intro h; subst h; simp [ka] at kb
      have hqr : q ≠ r := by intro h; subst h; simp [kb] at kx
      rw [cmp_mixed a b p q ps qs ea eb (by simp [ia, ib]) hpq] at h1
      rw [cmp_mixed b x q r qs rs eb ex (by simp [ib, ix]) hqr] at h2
      have := dig ka; have := dig kx; have := ndig kb
      have h1' : p ≤ q := by
        apply Classical.byContradiction; intro hn; exact h1 ((Nat.compare_eq_gt).2 (by omega))
      have h2' : q ≤ r := by
        apply Classical.byContradiction; intro hn; exact h2 ((Nat.compare_eq_gt).2 (by omega))
      omega
    · -- I I N
      have hqr : q ≠ r := by intro h; subst h; simp [kb] at kx
      rw [cmp_mixed b x q r qs rs eb ex (by simp [ib, ix]) hqr] at h2
      have hpr : p ≠ r := by intro h; subst h; simp [ka] at kx
      rw [cmp_mixed a x p r ps rs ea ex (by simp [ia, ix]) hpr]
      have := dig ka; have := dig kb; have := ndig kx
      have h2' : q ≤ r := by
        apply Classical.byContradiction; intro hn; exact h2 ((Nat.compare_eq_gt).2 (by omega))
      intro hg; have := (Nat.compare_eq_gt).1 hg; omega
    · -- I I I
      rw [cmp_int_int a b ha hb ia ib] at h1
      rw [cmp_int_int b x hb hx ib ix] at h2
      rw [cmp_int_int a x ha hx ia ix]
      exact natCmp_isCmp.trans _ _ _ trivial trivial trivial h1 h2
  eqL := by
    intro a b x ha hb hx he
    obtain ⟨p, ps, ea, ka⟩ := ha.cons; obtain ⟨q, qs, eb, kb⟩ := hb.cons; obtain ⟨r, rs, ex, kx⟩ := hx.cons
    have dig : ∀ {d}, isDigit d = true → 48 ≤ d ∧ d ≤ 57 := by intro d h; simpa [isDigit] using h
    have ndig : ∀ {d}, isDigit d = false → d < 48 ∨ 57 < d := by
      intro d h; simp [isDigit] at h; omega
    cases ia : a.isInt <;> cases ib : b.isInt <;> rw [ia] at ka <;> rw [ib] at kb
    · -- N N: equal texts
      have : a.text = b.text := by
        simp [Token.cmp, ia, ib] at he; exact byteLex_eq _ _ he
      simp [Token.cmp, ia, ib, this]
    · have hpq : p ≠ q := by intro h; subst h; simp [ka] at kb
      rw [cmp_mixed a b p q ps qs ea eb (by simp [ia, ib]) hpq] at he
      exact absurd ((Nat.compare_eq_eq).1 he) hpq
    · have hpq : p ≠ q := by intro h; subst h; simp [ka] at kb
      rw [cmp_mixed a b p q ps qs ea eb (by simp [ia, ib]) hpq] at he
      exact absurd ((Nat.compare_eq_eq).1 he) hpq
    · -- I I with equal values
      rw [cmp_int_int a b ha hb ia ib] at he
      have hv := (Nat.compare_eq_eq).1 he
      cases ix : x.isInt <;> rw [ix] at kx
      · have hpr : p ≠ r := by intro h; subst h; simp [ka] at kx
        have hqr : q ≠ r := by intro h; subst h; simp [kb] at kx
        rw [cmp_mixed a x p r ps rs ea ex (by simp [ia, ix]) hpr,
            cmp_mixed b x q r qs rs eb ex (by simp [ib, ix]) hqr]
        have := dig ka; have := dig kb; have := ndig kx
        rcases (ndig kx) with h | h
        · rw [(Nat.compare_eq_gt).2 (by omega), (Nat.compare_eq_gt).2 (by omega)]
        · rw [(Nat.compare_eq_lt).2 (by omega), (Nat.compare_eq_lt).2 (by omega)]
      · rw [cmp_int_int a x ha hx ia ix, cmp_int_int b x hb hx ib ix, hv]


/-! ### tokenizer and `natural_cmp` -/

/-- longest prefix of bytes whose digit-ness equals `k` -/
def takeKind (k : Bool) : List Nat → List Nat × List Nat
  | [] => ([], [])
  | d :: ds =>
    if isDigit d = k then
      let r := takeKind k ds
      (d :: r.1, r.2)
    else ([], d :: ds)

def tokenize : Nat → List Nat → List Token
  | 0, _ => []
  | _ + 1, [] => []
  | f + 1, d :: ds =>
    let r := takeKind (isDigit d) ds
    ⟨isDigit d, d :: r.1⟩ :: tokenize f r.2

def tokens (l : List Nat) : List Token := tokenize l.length l

theorem takeKind_kind (k : Bool) (l : List Nat) : ∀ d ∈ (takeKind k l).1, isDigit d = k := by
  induction l with
  | nil => simp [takeKind]
  | cons x xs ih =>
    simp only [takeKind]
    split
    · rename_i h; intro d hd; simp at hd; rcases hd with hd | hd
      · subst hd; exact h
      · exact ih d hd
    · simp

theorem tokenize_wf (f : Nat) (l : List Nat) : All Token.WF (tokenize f l) := by
  induction f generalizing l with
  | zero => intro t ht; simp [tokenize] at ht
  | succ f ih =>
    cases l with
    | nil => intro t ht; simp [tokenize] at ht
    | cons d ds =>
      intro t ht
      simp only [tokenize, List.mem_cons] at ht
      rcases ht with ht | ht
      · subst ht
        refine ⟨by simp, ?_⟩
        have hk := takeKind_kind (isDigit d) ds
        cases hd : isDigit d with
        | true =>
          simp only [if_true]
          intro x hx; simp at hx; rcases hx with hx | hx
          · subst hx; exact hd
          · rw [hd] at hk; exact hk x hx
        | false =>
          simp only [Bool.false_eq_true, if_false]
          intro x hx; simp at hx; rcases hx with hx | hx
          · subst hx; exact hd
          · rw [hd] at hk; exact hk x hx
      · exact ih _ t ht

def naturalCmp (a b : List Nat) : Ordering := lexCmp Token.cmp (tokens a) (tokens b)

/-- C16: `natural_cmp` is the three-way comparison of a total preorder on *all* byte strings. -/
theorem naturalCmp_isCmp : IsCmp (fun _ : List Nat => True) naturalCmp := by
  have h := lexCmp_isCmp tokenCmp_isCmp
  have wf : ∀ l, All Token.WF (tokens l) := fun l => tokenize_wf _ _
  exact ⟨fun a b _ _ => h.swap _ _ (wf a) (wf b),
         fun a b x _ _ _ => h.trans _ _ _ (wf a) (wf b) (wf x),
         fun a b x _ _ _ => h.eqL _ _ _ (wf a) (wf b) (wf x)⟩

theorem naturalCmp_swap (a b : List Nat) : naturalCmp b a = (naturalCmp a b).swap :=
  naturalCmp_isCmp.swap a b trivial trivial

theorem naturalCmp_trans (a b c : List Nat) (h1 : naturalCmp a b ≠ .gt) (h2 : naturalCmp b c ≠ .gt) :
    naturalCmp a c ≠ .gt :=
  naturalCmp_isCmp.trans a b c trivial trivial trivial h1 h2

-- sanity: "A<4>" < "A<16>", "a08" > "a4", "0" ~ "00"
#eval (naturalCmp ("A<4>".toUTF8.toList.map (·.toNat)) ("A<16>".toUTF8.toList.map (·.toNat)),
       naturalCmp ("a08".toUTF8.toList.map (·.toNat)) ("a4".toUTF8.toList.map (·.toNat)),
       naturalCmp ("0".toUTF8.toList.map (·.toNat)) ("00".toUTF8.toList.map (·.toNat)))

end NatCmp
