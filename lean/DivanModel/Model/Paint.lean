/-! Exact model of `tree_painter.rs`: `TreePainter` as a state machine over already serialised cells
    (prefix, depth, column widths that only grow, `start/finish_parent`, `start/finish_leaf`,
    `ignore_leaf`, the row writer with its separator and trailing-space rule). Core only. -/
namespace Paint

/-- one three-column group of the current prefix: `"│  "` under an ancestor that has later siblings,
    `"   "` under a last child -/
inductive Glyph | bar | blank
  deriving DecidableEq, Repr

def Glyph.str : Glyph → String | .bar => "│  " | .blank => "   "

def pfxStr (l : List Glyph) : String := "".intercalate (l.map Glyph.str)

structure P where
  maxSpan : Nat
  widths : List Nat := [0, 0, 0, 0, 0, 0]     -- `column_widths`
  depth : Nat := 0
  pfx : List Glyph := []                      -- `current_prefix`, three characters per element
  out : String := ""                          -- everything printed so far
  deriving Repr

def P.cols (p : P) : Bool := !(p.widths.all (· == 0))        -- `has_columns`

def spaces (n : Nat) : String := String.ofList (List.replicate n ' ')

/-- `right_pad_buffer` / the inline padding of names: pad to `max_name_span + 2`, grow the span -/
def pad (s : String) (maxSpan : Nat) : String × Nat :=
  let len := s.length
  (s ++ spaces (2 + (maxSpan - len)), if len > maxSpan then len else maxSpan)

/-- `TreeColumnData::write`: separators, right padding to the column width, widths grow to fit;
    no trailing space after an empty last cell -/
def writeCells (cells : List String) (widths : List Nat) : String × List Nat :=
  let n := cells.length
  (List.range n).foldl (fun (acc : String × List Nat) i =>
    let (buf, ws) := acc
    let v := cells.getD i ""
    let vw := v.length
    let isLast := i = n - 1
    let sep := if i = 0 then "" else if isLast ∧ vw = 0 then " │" else " │ "
    let buf := buf ++ sep ++ v
    if isLast then (buf, ws) else
    let w := ws.getD i 0
    if vw ≤ w then (buf ++ spaces (w - vw), ws) else (buf, ws.set i vw)) ("", widths)

def branch (isLast : Bool) : String := if isLast then "╰─ " else "├─ "

def headings : List String := ["fastest", "slowest", "median", "mean", "samples", "iters"]
def blanks : List String := ["", "", "", "", "", ""]

def P.startParent (p : P) (name : String) (isLast : Bool) : P :=
  let top := p.depth = 0
  let line := pfxStr p.pfx ++ (if top then "" else branch isLast) ++ name
  let (line, ms) := if p.cols then pad line p.maxSpan else (line, p.maxSpan)
  let (line, ws) := if p.cols then
      let (c, ws) := writeCells (if top then headings else blanks) p.widths
      (line ++ c, ws)
    else (line, p.widths)
  { p with maxSpan := ms, widths := ws, out := p.out ++ line ++ "\n", depth := p.depth + 1,
           pfx := if top then p.pfx else p.pfx ++ [if isLast then .blank else .bar] }

def P.finishParent (p : P) : P :=
  let d := p.depth - 1
  { p with depth := d, out := if d = 0 then p.out ++ "\n" else p.out,
           pfx := p.pfx.dropLast }                 -- the code truncates the last three characters

def P.ignoreLeaf (p : P) (name : String) (isLast : Bool) : P :=
  let (line, ms) := pad (pfxStr p.pfx ++ branch isLast ++ name) p.maxSpan
  if p.cols then
    let (c, ws) := writeCells ("(ignored)" :: blanks.drop 1) p.widths
    { p with maxSpan := ms, widths := ws, out := p.out ++ line ++ c ++ "\n" }
  else { p with maxSpan := ms, out := p.out ++ line ++ "(ignored)" ++ "\n" }

def P.startLeaf (p : P) (name : String) (isLast : Bool) : P :=
  let line := pfxStr p.pfx ++ branch isLast ++ name
  let (line, ms) := if p.cols then pad line p.maxSpan else (line, p.maxSpan)
  { p with maxSpan := ms, out := p.out ++ line }

def P.finishEmptyLeaf (p : P) : P := { p with out := p.out ++ "\n" }

/-- the serialised content of one statistics block -/
structure Cells where
  main : List String                                   -- six cells: four times, samples, iters
  counters : List (List String) := []                  -- one row per counter kind (six cells, possibly all empty)
  maxAlloc : Option (List String × List String) := none     -- count row, size row
  tallies : List (String × Option (List String × List String)) := []   -- `alloc:` `dealloc:` `grow:` `shrink:`
  deriving Repr

/-- the rows `finish_leaf` prints: new widths, new name span, new output -/
def finishLeafCore (p : P) (isLast : Bool) (c : Cells) : List Nat × Nat × String := Id.run do
  -- widen the four time columns to the widest serialised continuation cell
  let extra : List (List String) :=
    c.counters ++ c.tallies.flatMap fun t => match t.2 with | some (a, b) => [a, b] | none => []
  -- the max-alloc rows widen *every* time column to their widest cell of *any* column
  -- (`Option<[String; 6]>::iter().flatten()` walks the whole array)
  let maWidth : Nat := match c.maxAlloc with
    | some (a, b) => (a ++ b).foldl (fun w s => max w s.length) 0
    | none => 0
  let mut ws := p.widths
  for col in [0, 1, 2, 3] do
    let w := extra.foldl (fun w row => max w (row.getD col "").length) (max (ws.getD col 0) maWidth)
    ws := ws.set col w
  let mut ms := p.maxSpan
  let mut out := p.out
  let (row, ws1) := writeCells c.main ws
  ws := ws1
  out := out ++ row ++ "\n"
  let prep (ms : Nat) : String × Nat := pad (pfxStr p.pfx ++ (if isLast then "" else "│")) ms
  let mut line (cells : List String) (ws : List Nat) (ms : Nat) : String × List Nat × Nat :=
    let (b, ms) := prep ms
    let (r, ws) := writeCells cells ws
    (b ++ r ++ "\n", ws, ms)
  for row in c.counters do
    if row.all (·.isEmpty) then continue
    let (l, ws2, ms2) := line row ws ms
    out := out ++ l; ws := ws2; ms := ms2
  match c.maxAlloc with
  | some (a, b) =>
    let (l, ws2, ms2) := line ("max alloc:" :: blanks.drop 1) ws ms
    out := out ++ l; ws := ws2; ms := ms2
    for row in [a, b] do
      let (l, ws2, ms2) := line row ws ms
      out := out ++ l; ws := ws2; ms := ms2
  | none => pure ()
  for (name, t) in c.tallies do
    match t with
    | some (a, b) =>
      let (l, ws2, ms2) := line (name :: blanks.drop 1) ws ms
      out := out ++ l; ws := ws2; ms := ms2
      for row in [a, b] do
        let (l, ws2, ms2) := line row ws ms
        out := out ++ l; ws := ws2; ms := ms2
    | none => pure ()
  return (ws, ms, out)

/-- `finish_leaf` -/
def P.finishLeaf (p : P) (isLast : Bool) (c : Cells) : P :=
  let r := finishLeafCore p isLast c
  { p with widths := r.1, maxSpan := r.2.1, out := r.2.2 }

end Paint
