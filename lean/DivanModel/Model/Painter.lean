/-! Prototype: `TreePainter` prefix discipline and the driver walk (C20). Core only.
    A line is (prefix glyph groups, branch glyph, name); the text rendering of a line is shared with the spec. -/
namespace Painter

inductive Glyph | bar | blank          -- "│  " | "   "
  deriving DecidableEq, Repr

structure Line where
  pre    : List Glyph
  branch : Option Bool                  -- none: top level (no glyph); some false: "├─ "; some true: "╰─ "
  name   : Nat
  deriving DecidableEq, Repr

inductive Tree where
  | parent (name : Nat) (children : List Tree)
  | leaf (name : Nat)
  deriving Repr

structure PS where
  depth : Nat
  pre   : List Glyph
  out   : List Line                     -- newest first

def glyphOf (isLast : Bool) : Glyph := if isLast then .blank else .bar

/-- `start_parent` -/
def startParent (s : PS) (name : Nat) (isLast : Bool) : PS :=
  let top := s.depth = 0
  { depth := s.depth + 1
    pre := if top then s.pre else s.pre ++ [glyphOf isLast]
    out := ⟨s.pre, if top then none else some isLast, name⟩ :: s.out }

/-- `finish_parent`: drop the last three characters of the prefix (nothing if it is empty) -/
def finishParent (s : PS) : PS := { s with depth := s.depth - 1, pre := s.pre.dropLast }

/-- `start_leaf` (+ `finish_*_leaf`) / `ignore_leaf` -/
def startLeaf (s : PS) (name : Nat) (isLast : Bool) : PS :=
  { s with out := ⟨s.pre, some isLast, name⟩ :: s.out }

-- `run_tree`: children in order, `is_last = (i == len - 1)`
mutual
  def paintT (s : PS) (isLast : Bool) : Tree → PS
    | .leaf n => startLeaf s n isLast
    | .parent n cs => finishParent (paintF (startParent s n isLast) cs)
  def paintF (s : PS) : List Tree → PS
    | [] => s
    | t :: ts => paintF (paintT s ts.isEmpty t) ts
end

-- the picture the property describes: a vertical bar exactly under ancestors that have later siblings
mutual
  def linesT (pre : List Glyph) (top : Bool) (isLast : Bool) : Tree → List Line
    | .leaf n => [⟨pre, some isLast, n⟩]
    | .parent n cs =>
      ⟨pre, if top then none else some isLast, n⟩ :: linesF (if top then pre else pre ++ [glyphOf isLast]) cs
  def linesF (pre : List Glyph) : List Tree → List Line
    | [] => []
    | t :: ts => linesT pre false ts.isEmpty t ++ linesF pre ts
end

/-- prefix length = depth − 1 (and empty at top level): three columns per open non-top-level parent -/
def Inv (s : PS) : Prop := s.pre.length = s.depth - 1

mutual
  theorem paintT_spec (t : Tree) : ∀ (s : PS) (isLast : Bool), Inv s →
      paintT s isLast t =
        { s with out := (linesT s.pre (decide (s.depth = 0)) isLast t).reverse ++ s.out } := by
    cases t with
    | leaf n => intro s isLast _; simp [paintT, startLeaf, linesT]
    | parent n cs =>
      intro s isLast hinv
      simp only [paintT]
      have hinv' : Inv (startParent s n isLast) := by
        unfold Inv at hinv ⊢
        by_cases h0 : s.depth = 0
        · simp [startParent, h0] at hinv ⊢; exact hinv
        · simp [startParent, h0]; omega
      have hd : ¬ (startParent s n isLast).depth = 0 := by simp [startParent]
      rw [paintF_spec cs (startParent s n isLast) hinv' hd]
      by_cases h0 : s.depth = 0
      · have hp : s.pre = [] := by
          unfold Inv at hinv; rw [h0] at hinv; simp at hinv; exact hinv
        simp [finishParent, startParent, linesT, h0, hp]
      · simp [finishParent, startParent, linesT, h0]
  theorem paintF_spec (ts : List Tree) : ∀ (s : PS), Inv s → ¬ s.depth = 0 →
      paintF s ts = { s with out := (linesF s.pre ts).reverse ++ s.out } := by
    cases ts with
    | nil => intro s _ _; simp [paintF, linesF]
    | cons t ts =>
      intro s hinv hd
      simp only [paintF]
      rw [paintT_spec t s ts.isEmpty hinv]
      rw [paintF_spec ts _ (by simpa [Inv] using hinv) (by simpa using hd)]
      simp [linesF, hd]
end

/-- C20: painting a whole top-level tree emits exactly the described lines, in depth-first order, and leaves the
    painter in its initial state (depth 0, empty prefix). -/
theorem paint_top (t : Tree) :
    paintT ⟨0, [], []⟩ true t = ⟨0, [], (linesT [] true true t).reverse⟩ := by
  have := paintT_spec t ⟨0, [], []⟩ true (by simp [Inv])
  simpa using this

#eval (paintT ⟨0, [], []⟩ true (.parent 0 [.leaf 1, .parent 2 [.leaf 3, .leaf 4], .leaf 5])).out.reverse
end Painter
