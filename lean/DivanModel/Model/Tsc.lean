/-! Model of `TscTimestamp::duration_since`, `FineDuration::from(Duration)` and
    `Timer::measure_precision` (property C11). Core only. -/
namespace Tsc

def PICOS : Nat := 1000000000000

/-- `checked_sub` then the widening multiply/divide in 128 bits -/
def durationSince (b a f : Nat) : Nat := if a ≤ b then (b - a) * PICOS / f else 0

/-- `From<Duration>`: `as_nanos().checked_mul(1000)`; `none` = the panic branch -/
def ofDuration (secs nanos : Nat) : Option Nat :=
  let p := (secs * 1000000000 + nanos) * 1000
  if p < 2 ^ 128 then some p else none

/-! `measure_precision` as a function of the stream of observed sample durations -/
structure PS where
  minS : Option Nat := none      -- `FineDuration::MAX` initially
  seen : Nat := 0
  delay : Nat := 0
  inBatch : Nat := 0             -- position in the current batch of 100

/-- one observed sample; `some p` = the function returns `p` -/
def pstep (st : PS) (sample : Nat) : PS × Option Nat :=
  let adv (s : PS) : PS :=
    if s.inBatch + 1 = 100 then { s with inBatch := 0, delay := s.delay + 1 } else { s with inBatch := s.inBatch + 1 }
  if sample = 0 then (adv st, none) else
  match st.minS with
  | none => (adv { st with minS := some sample, seen := 0 }, none)
  | some m =>
    if sample > m then (if st.delay > 100 then (st, some m) else (adv st, none))
    else if sample = m then
      (if st.seen + 1 ≥ 100 then (st, some m) else (adv { st with seen := st.seen + 1 }, none))
    else (adv { st with minS := some sample, seen := 0 }, none)

def precision : PS → List Nat → Option Nat
  | _, [] => none
  | st, x :: xs => match pstep st x with
    | (_, some p) => some p
    | (st', none) => precision st' xs

/-- same, also counting the samples consumed (for the correspondence: 2 clock reads per sample) -/
def precisionCount : PS → List Nat → Nat → Option (Nat × Nat)
  | _, [], _ => none
  | st, x :: xs, k => match pstep st x with
    | (_, some p) => some (p, k + 1)
    | (st', none) => precisionCount st' xs (k + 1)

/-- durations of consecutive reading pairs -/
def pairDurations (f : Nat) : List Nat → List Nat
  | a :: b :: rest => durationSince b a f :: pairDurations f rest
  | _ => []

end Tsc
