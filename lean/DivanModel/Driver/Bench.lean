import DivanModel.Driver.Util
import DivanModel.Model.RoundLoop
import DivanModel.Model.Recording
import DivanModel.Model.SampleLoop
import DivanModel.Model.SoftFloat
import DivanModel.Model.Stats
import DivanModel.Model.Counters
/-! Bench lab handler (`bench`): simulates the scripted virtual clocks thread by thread, feeds the
    resulting rounds to the round-loop model (`RoundLoop.continues` / `stepRound`), emits the
    per-thread event traces of the sample model (`SampleLoop.trace`) and computes the statistics the
    way `compute_stats` does (integer picoseconds; allocation figures with IEEE double operations).
    Also evaluates the executable specifications of C01-C05, C08, C19 on the implementation's traces. -/
namespace Driver.Bench
open Driver RoundLoop

structure Req where
  prec : Nat := 1
  T : Nat := 1
  ep : String := "bench"
  inS : String := "zn"
  outS : String := "zn"
  isTest : Bool := false
  sc : Option Nat := none
  ss : Option Nat := none
  maxt : Option Nat := none       -- ns
  mint : Option Nat := none
  sk : Option Bool := none
  ic : Bool := false
  items : Option Nat := none
  cGen : Nat := 0
  cCall : Nat := 0
  cSlope : Nat := 0
  cDropIn : Nat := 0
  cDropOut : Nat := 0
  cRead : Nat := 0
  aGen : Nat := 0
  aCall : Nat := 0
  aDrop : Nat := 0
  aSize : Nat := 0
  panic : Option (Nat × Nat) := none
  cold : Bool := false
  gpanic : Option (Nat × Nat) := none
  skewGen : Nat := 0
  skewCall : Nat := 0
  lazy : Nat := 0              -- if non-zero: only the first `lazy` calls of a thread allocate
  cia : Option Nat := none     -- `count_inputs_as::<C>()`: integer inputs counted by conversion as kind 0..3 (bytes, chars, cycles, items)
  ic2 : Bool := false          -- a second input counter (bytes) next to the items counter
  zre : Bool := false          -- every call reallocates a block to its own size: one grow of 0 bytes
  bar : Bool := false           -- barrier waits are part of the traces (instrumented Barrier)
  cafter : Bool := false        -- `ic=7`: `.input_counter(items) .counter(ItemsCount::new(1000))`: a constant of the same kind set last
  deriving Repr, Inhabited

def optNat (s : String) : Option (Option Nat) := if s = "-" then some none else s.toNat?.map some

def parseReq (args : List String) : Option Req := do
  let mut r : Req := {}
  for t in args do
    match t.splitOn "=" with
    | [k, v] =>
      match k with
      | "prec" => r := { r with prec := ← v.toNat? }
      | "T" => r := { r with T := ← v.toNat? }
      | "ep" => r := { r with ep := v }
      | "in" => r := { r with inS := v }
      | "out" => r := { r with outS := v }
      | "mode" => r := { r with isTest := v = "test" }
      | "sc" => r := { r with sc := ← optNat v }
      | "ss" => r := { r with ss := ← optNat v }
      | "maxt" => r := { r with maxt := ← optNat v }
      | "mint" => r := { r with mint := ← optNat v }
      | "sk" => r := { r with sk := (← optNat v).map (· = 1) }
      | "ic" => r := { r with ic := v ≠ "0", ic2 := v = "2", cafter := v = "7",
                               cia := match v.toNat? with | some n => if n ≥ 3 ∧ n ≤ 6 then some (n - 3) else none | none => none }
      | "items" => r := { r with items := ← optNat v }
      | "cost" =>
        match (v.splitOn ",").mapM String.toNat? with
        | some [a, b, c, d, e, f] => r := { r with cGen := a, cCall := b, cSlope := c, cDropIn := d, cDropOut := e, cRead := f }
        | _ => none
      | "alloc" =>
        match (v.splitOn ",").mapM String.toNat? with
        | some [a, b, c, d] => r := { r with aGen := a, aCall := b, aDrop := c, aSize := d }
        | _ => none
      | "cold" => r := { r with cold := v = "1" }
      | "bar" => r := { r with bar := v = "1" }
      | "lazy" => r := { r with lazy := ← v.toNat? }
      | "zre" => r := { r with zre := v = "1" }
      | "gpanic" =>
        if v = "-" then pure () else
        match (v.splitOn ":").mapM String.toNat? with
        | some [a, b] => r := { r with gpanic := some (a, b) }
        | _ => none
      | "skew" =>
        match (v.splitOn ",").mapM String.toNat? with
        | some [a, b] => r := { r with skewGen := a, skewCall := b }
        | _ => none
      | "panic" =>
        if v = "-" then pure () else
        match (v.splitOn ":").mapM String.toNat? with
        | some [a, b] => r := { r with panic := some (a, b) }
        | _ => none
      | _ => none
    | _ => none
  -- which counter is in force for the items kind is decided by the `CounterCollection` model
  -- (Props/C05Counters: the last configuration call of a kind wins, constants from options first)
  let hasInputs := r.ep ≠ "bench" ∧ r.ep ≠ "bench_local"
  let kind := r.cia.getD 3
  let cfgs : List Counters.Cfg :=
    (if r.ic ∧ hasInputs then [Counters.Cfg.input kind] else []) ++ (if r.cafter ∧ hasInputs then [Counters.Cfg.counter 3 1000] else [])
  let coll := cfgs.foldl Counters.applyCfg (Counters.ofOptions fun k => if k = 3 then r.items else none)
  some { r with ic := r.ic ∧ (!hasInputs ∨ (coll kind).byInput),
                items := if (coll 3).byInput then r.items else (coll 3).counts.head? }

def Req.hasInputs (r : Req) : Bool := r.ep ≠ "bench" ∧ r.ep ≠ "bench_local"
def Req.isLocal (r : Req) : Bool := r.ep = "bench_local" ∨ r.ep = "local_values" ∨ r.ep = "local_refs"
def Req.byRef (r : Req) : Bool := r.ep = "refs" ∨ r.ep = "local_refs"
/-- the thread count in force: the `_local` forms always run on the calling thread alone -/
def Req.threads (r : Req) : Nat := if r.isLocal then 1 else r.T

def Req.shape (r : Req) : SampleLoop.Shape :=
  if r.hasInputs then
    { iZst := r.inS.startsWith "z", iDrop := r.inS.endsWith "d", oZst := r.outS.startsWith "z", oDrop := r.outS.endsWith "d" }
  else { iZst := true, iDrop := false, oZst := r.outS.startsWith "z", oDrop := r.outS.endsWith "d" }

def Req.opts (r : Req) : RoundLoop.Opts :=
  { sampleCount := r.sc, sampleSize := r.ss, minPicos := (r.mint.getD 0) * 1000,
    maxPicos := match r.maxt with | some m => m * 1000 | none => 2 ^ 128 - 1,
    skipExt := r.sk.getD false }

/-- tallies of one sample: grow, shrink, alloc, dealloc (count, size), max count, max size -/
structure Alloc where
  growC : Nat := 0
  growS : Nat := 0
  allocC : Nat := 0
  allocS : Nat := 0
  deallocC : Nat := 0
  deallocS : Nat := 0
  maxC : Nat := 0
  maxS : Nat := 0
  deriving Repr, Inhabited, DecidableEq

def Alloc.isEmpty (a : Alloc) : Bool := a.growC = 0 ∧ a.allocC = 0 ∧ a.deallocC = 0 ∧ a.growS = 0 ∧ a.allocS = 0 ∧ a.deallocS = 0

structure Rec where
  dur : Nat
  alloc : Alloc
  itemsPerIter : Nat
  bytesPerIter : Nat := 0
  deriving Repr, Inhabited, DecidableEq

structure Sim where
  clocks : Array Nat
  nextId : Array Nat
  nextCall : Array Nat
  traces : Array (List String)      -- newest first
  panicked : Bool := false

def Sim.ev (s : Sim) (t : Nat) (e : String) : Sim := { s with traces := s.traces.modify t (e :: ·) }
def Sim.adv (s : Sim) (t d : Nat) : Sim := { s with clocks := s.clocks.modify t (· + d) }

/-- interpreter state while one sample's events are replayed against the scripted costs -/
structure SmpSt where
  sim : Sim
  ids : Array Nat := #[]       -- value id per iteration index
  start : Nat := 0
  stop : Nat := 0
  al : Alloc := {}
  total : Nat := 0
  totalB : Nat := 0
  dead : Bool := false         -- this thread's benchmarked function panicked: it only keeps its barrier appointments
  waits : Nat := 0             -- barrier appointments kept so far in this sample

/-- effect of one event of the sample model on the virtual clock, the trace and the tallies -/
def interp (r : Req) (t : Nat) (x : SmpSt) : SampleLoop.Ev → SmpSt
  | .gen _ =>
    if r.hasInputs then
      let id := x.sim.nextId[t]!
      let sim := { x.sim with nextId := x.sim.nextId.modify t (· + 1) }
      if r.gpanic = some (t, id) then
        { x with sim := { (sim.ev t s!"g{id}") with panicked := true }, dead := true }
      else
      { x with sim := (sim.ev t s!"g{id}").adv t (r.cGen + t * r.skewGen), ids := x.ids.push (if r.shape.iZst then 0 else id) }
    else { x with ids := x.ids.push 0 }
  | .count k i =>
    let shown := x.ids[i]!
    if r.cia.isSome then { x with total := x.total + shown }
    else if k = 0 then { x with sim := x.sim.ev t s!"b{shown}", totalB := x.totalB + (7 + shown % 3) }
    else { x with sim := x.sim.ev t s!"c{shown}", total := x.total + (3 + shown % 5) }
  | .tsStart =>
    let sim := x.sim.adv t r.cRead
    { x with sim := sim.ev t s!"s{sim.clocks[t]!}", start := sim.clocks[t]! }
  | .call i =>
    let j := x.sim.nextCall[t]!
    let sim := { x.sim with nextCall := x.sim.nextCall.modify t (· + 1) }
    let sim := sim.ev t s!"k{x.ids[i]!}"
    if r.panic = some (t, j) then { x with sim := { sim with panicked := true }, dead := true } else
    let sz := max (r.aSize + j) 1
    let al := x.al
    let al := if r.zre then { x.al with growC := x.al.growC + 1 } else if r.aCall > 0 ∧ (r.lazy = 0 ∨ j < r.lazy) then
        { al with allocC := al.allocC + r.aCall, allocS := al.allocS + r.aCall * sz,
                  growC := al.growC + r.aCall, growS := al.growS + r.aCall * sz,
                  deallocC := al.deallocC + r.aCall, deallocS := al.deallocS + r.aCall * 2 * sz,
                  maxC := 1, maxS := max al.maxS (2 * sz) }
      else al
    { x with sim := sim.adv t (r.cCall + r.cSlope * j + (r.threads - 1 - min t (r.threads - 1)) * r.skewCall), al := al }
  | .tsEnd =>
    let sim := x.sim.adv t r.cRead
    { x with sim := sim.ev t s!"e{sim.clocks[t]!}", stop := sim.clocks[t]! }
  | .dropOut i =>
    let oid := if r.shape.oZst then 0 else x.ids[i]!
    { x with sim := (x.sim.ev t s!"o{oid}").adv t r.cDropOut }
  | .dropIn i => { x with sim := (x.sim.ev t s!"i{x.ids[i]!}").adv t r.cDropIn }
  | .syncStart =>
    -- `sync_threads(true)`: wait, clear the tally, wait (only with more than one thread)
    if r.bar ∧ r.threads > 1 then { x with sim := (((x.sim.ev t "W").ev t "w").ev t "W").ev t "w", waits := x.waits + 2 } else x
  | .syncEnd =>
    if r.bar ∧ r.threads > 1 then { x with sim := (x.sim.ev t "W").ev t "w", waits := x.waits + 1 } else x
  | .snapshot => x

/-- one sample on thread `t` with `size` iterations: the events of `SampleLoop.trace`, replayed until
    the end or until the benchmarked function panics; returns start, end, tallies, Σ input counts -/
def sample (r : Req) (t size : Nat) (s : Sim) : Sim × Nat × Nat × Alloc × Nat × Nat :=
  let evs := SampleLoop.trace r.shape (if r.byRef then .refs else .values)
    (if r.ic ∧ r.hasInputs then (if r.ic2 then [0, 3] else [3]) else []) size
  let x := evs.foldl (fun x e => if x.dead then x else interp r t x e) { sim := s }
  -- an unwinding thread keeps its remaining appointments (three per sample) so that nobody hangs
  let x : SmpSt := if x.dead && r.bar && decide (r.threads > 1) then
      (List.range (3 - x.waits)).foldl (fun x _ => { x with sim := (x.sim.ev t "W").ev t "w" }) x
    else x
  (x.sim, x.start, x.stop, x.al, x.total, x.totalB)

structure Out where
  sim : Sim
  st : St
  recs : List Rec
  rounds : Nat

/-- the benchmarking loop: rounds are simulated on demand and handed to `RoundLoop.stepRound` -/
def loop (r : Req) : Out := Id.run do
  let o := r.opts
  let T := r.threads
  let n := max T 1
  let mut sim : Sim := { clocks := Array.replicate 64 0, nextId := Array.replicate 64 0,
                         nextCall := Array.replicate 64 0, traces := Array.replicate 64 [] }
  let mut st := initSt r.isTest o
  -- the recorded samples live in the three stores of `Model/Recording` (durations, index -> allocation
  -- information, one count list per input-counting kind: bytes, items); the allocation payload is an
  -- index into `table`
  let mut coll : Recording.Coll := Recording.empty 2
  let mut table : Array Alloc := #[]
  if o.maxPicos = 0 || !hasSamples o then return ⟨sim, st, [], 0⟩
  -- `timer_precision`: only measured (here: known) when the run starts in tuning mode
  let prec := match st.mode with | .tune _ => r.prec | _ => 0
  -- first benchmark of a process: `bench_overheads()` calibrates now, before the time budget starts
  -- (4 measurements of 100 samples, two clock reads each)
  if r.cold then
    for _ in [0:400] do
      sim := sim.adv 0 r.cRead
      sim := sim.ev 0 s!"s{sim.clocks[0]!}"
      sim := sim.adv 0 r.cRead
      sim := sim.ev 0 s!"e{sim.clocks[0]!}"
  -- `initial_start`
  let mut initial := 0
  if !o.skipExt then
    sim := sim.adv 0 r.cRead
    initial := sim.clocks[0]!
    sim := sim.ev 0 s!"s{initial}"
  let mut rounds := 0
  for _ in [0:20000] do
    if st.stopped || !continues o st then break
    let size := st.mode.size
    let mut durs : List Nat := []
    let mut lastEnd := 0
    let mut new : List Recording.Raw := []
    for t in [0:n] do
      let (s', a, b, al, tot, totB) := sample r t size sim
      sim := s'
      let d := b - a
      durs := durs ++ [d]
      lastEnd := max lastEnd b
      new := new ++ [⟨clampTo prec d, if al.isEmpty then none else some table.size,
                      [if size = 0 then 0 else totB / size, if size = 0 then 0 else tot / size]⟩]
      table := table.push al
    if sim.panicked then break
    let wasTune := match st.mode with | .tune _ => true | _ => false
    st := stepRound o T prec st ⟨durs, lastEnd - initial⟩
    -- a tuning round starts from a cleared collection (`samples.clear()`, `clear_input_counts()`)
    coll := Recording.recordRound (if wasTune then Recording.clear coll else coll) new
    rounds := rounds + 1
  -- what `compute_stats` finds for the sample at index j: read back through the index
  let recs : List Rec := (List.range coll.times.length).map fun j =>
    { dur := coll.times.getD j 0
      alloc := ((Recording.allocOf coll j).map fun i => table.getD i {}).getD {}
      itemsPerIter := (Recording.countOf coll 1 j).getD 0
      bytesPerIter := (Recording.countOf coll 0 j).getD 0 }
  return ⟨sim, st, recs, rounds⟩

def showTraces (sim : Sim) : String :=
  let used := (List.range 64).filter fun t => !(sim.traces[t]!).isEmpty
  let n := max 1 (used.foldl (fun m t => max m (t + 1)) 0)
  " ".intercalate ((List.range n).map fun t => s!"T{t}:" ++ ",".intercalate (sim.traces[t]!).reverse)

def sliceMiddle {α} (l : List α) : List α :=
  if l.length = 0 then [] else if l.length % 2 = 0 then (l.drop (l.length / 2 - 1)).take 2 else (l.drop (l.length / 2)).take 1

/-- the samples `compute_stats` attaches figures to: the first and last of the duration-sorted list
    and its middle one or two -/
structure Picks where
  first : Rec
  last : Rec
  mid : List Rec
  deriving Inhabited

def allocGetters : List (Alloc → Nat) :=
  [(·.maxC), (·.maxS), (·.growC), (·.growS), fun _ => 0, fun _ => 0, (·.allocC), (·.allocS), (·.deallocC), (·.deallocS)]

open SoftFloat in
/-- figures under "fastest" (or, with the last sample, "slowest"): one per allocation column, then the counter -/
def edgeKey (s : Nat) (x : Rec) : List String :=
  (allocGetters.map fun g => toString (div (ofNat (g x.alloc)) (ofNat s))) ++ [toString x.bytesPerIter, toString x.itemsPerIter]

open SoftFloat in
/-- figures under "median" -/
def midKey (s : Nat) (mid : List Rec) : List String :=
  let fmc := ofNat (max mid.length 1)
  (allocGetters.map fun g =>
    let a := g ((mid.getD 0 default).alloc)
    let b := if mid.length > 1 then g ((mid.getD 1 default).alloc) else 0
    toString (div (div (add (ofNat a) (ofNat b)) fmc) (ofNat s))) ++
  [toString (((mid.map (·.bytesPerIter)).foldl (· + ·) 0) / max mid.length 1),
   toString (((mid.map (·.itemsPerIter)).foldl (· + ·) 0) / max mid.length 1)]

/-- the figure groups of a statistics line after `D1 n.. t..`: each `[fastest, slowest, median, mean]` -/
def statGroups (stats : String) : List (List String) :=
  ((stats.splitOn " ").drop 3).flatMap fun p =>
    let body := if p.startsWith "m" then (p.drop 1).toString else ((p.splitOn ":").getD 1 "")
    (body.splitOn "/").map (·.splitOn ",")

def distinctRecs (l : List Rec) : List Rec := l.eraseDups

/-- `sort_unstable_by_key` leaves the order among samples of equal duration unspecified, so the figures
    attached to fastest / slowest / median are those of *some* sample of the tied class. The model
    takes the stable order unless the implementation's line names another member of the same class;
    anything outside the class is a disagreement. -/
def choosePicks (r : Req) (s : Nat) (recs : List Rec) (impl : String) : Picks :=
  let n := recs.length
  let sorted := recs.mergeSort fun a b => a.dur ≤ b.dur
  let dflt : Picks := ⟨sorted.headD default, sorted.getLastD default, sliceMiddle sorted⟩
  let gsI := statGroups impl
  -- the implementation's figures, aligned with `edgeKey` / `midKey` (counter last, if present)
  -- per-input counter columns after the ten allocation columns: bytes (only with two counters), items
  let nC : Nat := if r.ic ∧ r.hasInputs then (if r.ic2 then 2 else 1) else 0
  let trim (k : List String) : List String := k.take 10 ++ (if nC = 2 then k.drop 10 else if nC = 1 then k.drop 11 else [])
  let col (i : Nat) : List String := (gsI.take (10 + nC)).map fun g => g.getD i ""
  if gsI.length < 10 + nC then dflt else
  let cls (d : Nat) : List Rec := distinctRecs (recs.filter (·.dur = d))
  let first := ((cls dflt.first.dur).find? fun x => trim (edgeKey s x) = col 0).getD dflt.first
  let last := ((cls dflt.last.dur).find? fun x => trim (edgeKey s x) = col 1).getD dflt.last
  let mid :=
    if trim (midKey s dflt.mid) = col 2 then dflt.mid else
    match dflt.mid with
    | [a] => (((cls a.dur).find? fun x => trim (midKey s [x]) = col 2).map fun x => [x]).getD dflt.mid
    | [a, b] =>
      let cands : List (List Rec) :=
        if a.dur ≠ b.dur then (cls a.dur).flatMap fun x => (cls b.dur).map fun y => [x, y]
        else
          let all := recs.filter (·.dur = a.dur)
          let ds := distinctRecs all
          ds.flatMap fun x => ds.filterMap fun y =>
            if x ≠ y ∨ (all.filter (· = x)).length ≥ 2 then some [x, y] else none
      (cands.find? fun m => trim (midKey s m) = col 2).getD dflt.mid
    | _ => dflt.mid
  let _ := n
  ⟨first, last, mid⟩

open SoftFloat in
/-- `compute_stats` -/
def showStats (r : Req) (s : Nat) (recs : List Rec) (impl : String := "") : String :=
  let n := recs.length
  if n = 0 then                        -- no sample recorded: every figure is zero, no counter row
    "D1 n0,0 t0,0,0,0 m0,0,0,0/0,0,0,0 a0:0,0,0,0/0,0,0,0 a1:0,0,0,0/0,0,0,0 a2:0,0,0,0/0,0,0,0 a3:0,0,0,0/0,0,0,0" else
  let sortedD := Stats.ascending (recs.map (·.dur))   -- Props/C05Multiset: any correct sort gives this list
  let pk := choosePicks r s recs impl
  let first := pk.first
  let last := pk.last
  let mid := pk.mid
  let iters := s * n
  -- time statistics: `Stats.timeStats` on the sorted durations
  let ts := Stats.timeStats s sortedD
  let tF := ts.fastest
  let tS := ts.slowest
  let tM := ts.median
  let tMean := ts.mean
  -- allocation figures
  let fs := ofNat s
  let fmc := ofNat (max mid.length 1)
  let ftot := ofNat iters
  let stat (g : Alloc → Nat) : String :=
    let f := div (ofNat (g first.alloc)) fs
    let sl := div (ofNat (g last.alloc)) fs
    let a := g ((mid.getD 0 default).alloc)
    let b := if mid.length > 1 then g ((mid.getD 1 default).alloc) else 0
    let m := div (div (add (ofNat a) (ofNat b)) fmc) fs
    let mean := div (ofNat ((recs.map fun x => g x.alloc).foldl (· + ·) 0)) ftot
    s!"{f},{sl},{m},{mean}"
  let zero : Alloc → Nat := fun _ => 0
  let parts := [s!"D1", s!"n{n},{iters}", s!"t{tF},{tS},{tM},{tMean}",
    s!"m{stat (·.maxC)}/{stat (·.maxS)}",
    s!"a0:{stat (·.growC)}/{stat (·.growS)}", s!"a1:{stat zero}/{stat zero}",
    s!"a2:{stat (·.allocC)}/{stat (·.allocS)}", s!"a3:{stat (·.deallocC)}/{stat (·.deallocS)}"]
  let counts : List String :=
    if r.ic ∧ r.hasInputs then
      let row (lbl : String) (c : Rec → Nat) : String :=
        let med := ((mid.map c).foldl (· + ·) 0) / mid.length
        let mean := ((recs.map c).foldl (· + ·) 0) / n
        s!"{lbl}:{c first},{c last},{med},{mean}"
      (if r.ic2 then [row "c0" (·.bytesPerIter)] else []) ++ [row s!"c{r.cia.getD 3}" (·.itemsPerIter)]
    else match r.items with
      | some v => [s!"c3:{v},{v},{v},{v}"]
      | none => []
  " ".intercalate (parts ++ counts)

/-! ### executable specifications on the implementation's traces -/

structure Ev where
  k : Char
  v : Nat
  deriving Repr, Inhabited, DecidableEq

def parseTrace (s : String) : List Ev :=
  ((s.splitOn ",").filter (· ≠ "")).filterMap fun t =>
    match t.toList with
    | c :: rest => if rest.isEmpty then some ⟨c, 0⟩ else (String.ofList rest).toNat?.map fun v => ⟨c, v⟩
    | [] => none

/-- split a thread's events into samples: a sample ends where, after its end timestamp (and the one
    wait that follows it), the next generation / counting / start - or a further wait - begins -/
def samplesOf (evs : List Ev) : List (List Ev) :=
  let rec go (cur : List Ev) (seenEnd postW : Bool) (acc : List (List Ev)) : List Ev → List (List Ev)
    | [] => if cur.isEmpty then acc.reverse else (cur.reverse :: acc).reverse
    | e :: rest =>
      let startsNew := seenEnd ∧ (e.k = 'g' ∨ e.k = 'c' ∨ e.k = 'b' ∨ e.k = 's' ∨ (e.k = 'W' ∧ postW))
      if startsNew then go [e] false false (cur.reverse :: acc) rest
      else go (e :: cur) (seenEnd ∨ e.k = 'e') (postW ∨ (seenEnd ∧ e.k = 'W')) acc rest
  go [] false false [] evs

def count (p : Ev → Bool) (l : List Ev) : Nat := (l.filter p).length

/-- C08: where the barrier waits of a complete sample lie: two between the last generation/counting
    and the start timestamp (the tally is cleared between them), one between the end timestamp and the
    first drop, none anywhere else -/
def waitsOk (smp : List Ev) : Bool :=
  let ks := smp.map (·.k)
  let pre := ks.takeWhile (· ≠ 's')
  let mid := (ks.dropWhile (· ≠ 's')).takeWhile (· ≠ 'e')
  let post := (ks.dropWhile (· ≠ 'e')).drop 1
  let isW (c : Char) : Bool := c = 'W' ∨ c = 'w'
  (pre.dropWhile (fun c => !isW c)) = ['W', 'w', 'W', 'w'] ∧ !mid.any isW ∧
  post.take 2 = ['W', 'w'] ∧ !(post.drop 2).any isW

/-- C01 + C02 on one sample of one thread (sized, identity-carrying values are checked by id) -/
def sampleOk (r : Req) (complete : Bool) (smp0 : List Ev) : List String :=
  let smp := smp0.filter fun e => e.k ≠ 'W' ∧ e.k ≠ 'w'
  (if r.bar ∧ r.threads > 1 ∧ complete ∧ !waitsOk smp0 then
     ["[C08][C02] a sample does not wait twice (around the tally clear) before its start timestamp and once after its end timestamp: a barrier wait lies inside the timed section or is missing"] else []) ++
  let sh := r.shape
  let pre := smp.takeWhile (·.k ≠ 's')
  let rest := smp.dropWhile (·.k ≠ 's')
  let timed := (rest.drop 1).takeWhile (·.k ≠ 'e')
  let post := ((rest.drop 1).dropWhile (·.k ≠ 'e')).drop 1
  let gens := pre.filter (·.k = 'g')
  let calls := timed.filter (·.k = 'k')
  let idsIn := if sh.iZst then [] else gens.map (·.v)
  (if pre.any (fun e => e.k ≠ 'g' ∧ e.k ≠ 'c' ∧ e.k ≠ 'b') then ["[C01][C02] something other than generation/counting happened before the start timestamp"] else []) ++
  (if timed.any (·.k ≠ 'k') then ["[C02] something other than benchmarked calls happened inside the timed section"] else []) ++
  (if post.any (fun e => e.k ≠ 'o' ∧ e.k ≠ 'i') then ["[C01][C02] something other than drops happened after the end timestamp"] else []) ++
  (if r.hasInputs ∧ complete ∧ gens.length ≠ calls.length then ["[C01] generated inputs and benchmarked calls differ in number"] else []) ++
  (if r.hasInputs ∧ !sh.iZst ∧ complete ∧ calls.map (·.v) ≠ idsIn then ["[C01] an input was not passed to exactly one call, in generation order"] else []) ++
  (if r.ic ∧ r.cia.isNone ∧ r.hasInputs ∧ complete ∧ (pre.filter (·.k = 'c')).length ≠ gens.length then ["[C01] an input was not shown exactly once to the input counter"] else []) ++
  (if r.ic2 ∧ r.hasInputs ∧ complete ∧ (pre.filter (·.k = 'b')).length ≠ gens.length then ["[C01] an input was not shown exactly once to every input counter (the second counter, of another kind, was skipped or repeated)"] else []) ++
  (if r.ic ∧ r.cia.isNone ∧ r.hasInputs ∧ !complete ∧ (pre.filter (·.k = 'c')).length > gens.length then ["[C01] an input was shown more than once to the input counter"] else []) ++
  (if complete then
     let wantO := if sh.oDrop then calls.length else 0
     let wantI := if sh.iDrop ∧ r.byRef then calls.length else 0
     (if count (·.k = 'o') post ≠ wantO then ["[C01] outputs were not dropped exactly once each after the timed section"] else []) ++
     (if count (·.k = 'i') post ≠ wantI then ["[C01] lent inputs were not dropped exactly once each after the timed section"] else []) ++
     (if !sh.oZst ∧ sh.oDrop ∧ (post.filter (·.k = 'o')).map (·.v) ≠ calls.map (·.v) then ["[C01] an output was dropped twice or never"] else []) ++
     (if !sh.iZst ∧ sh.iDrop ∧ r.byRef ∧ (post.filter (·.k = 'i')).map (·.v) ≠ calls.map (·.v) then ["[C01] a lent input was dropped twice or never"] else []) ++
     -- output i directly before input i
     (if sh.oDrop ∧ sh.iDrop ∧ r.byRef ∧ (post.map (·.k)) ≠ (List.replicate calls.length ['o', 'i']).flatten then ["[C01] an input was dropped before the output computed from it"] else [])
   else
     -- after a panic: nothing may be dropped twice
     (if !sh.oZst ∧ !sh.iZst ∧ r.hasInputs ∧ ((post.filter (·.k = 'o')).map (·.v)).eraseDups.length ≠ count (·.k = 'o') post then ["[C01] double drop after a panic"] else []))

/-- drop up to `f` leading (start, end) read pairs: the calibration reads of a cold process -/
def stripCal : Nat → List Ev → List Ev
  | 0, l => l
  | f + 1, a :: b :: rest => if a.k = 's' ∧ b.k = 'e' then stripCal f rest else a :: b :: rest
  | _, l => l

/-- (start, end, calls, Σ input-counter values) of one sample of the implementation's trace -/
def sampleSummary (smp : List Ev) : Nat × Nat × Nat × Nat :=
  let st := (smp.find? (·.k = 's')).map (·.v) |>.getD 0
  let en := (smp.find? (·.k = 'e')).map (·.v) |>.getD st
  (st, en, count (·.k = 'k') smp, ((smp.filter (·.k = 'c')).map fun e => 3 + e.v % 5).foldl (· + ·) 0)

/-- C03/C04/C19 on the implementation's own clock history: the round loop model, driven by the
    *observed* readings, must execute exactly the observed rounds with the observed sample sizes -/
def replaySpec (r : Req) (perThread : List (List (Nat × Nat × Nat × Nat))) (initial : Nat) (complete : Bool) : List String := Id.run do
  let o := r.opts
  let T := r.threads
  let K := (perThread.take T).foldl (fun m l => min m l.length) 100000
  let mut st := initSt r.isTest o
  let prec := match st.mode with | .tune _ => r.prec | _ => 0
  let mut errs : List String := []
  for k in [0:K] do
    if st.stopped || !continues o st then
      errs := errs ++ ["[C04] a round was executed although the documented stop rule already held at the previous round boundary"]
      break
    let row := (perThread.take T).map fun l => l.getD k (0, 0, 0, 0)
    let size := st.mode.size
    if !(row.all fun (_, _, c, _) => c = size) ∧ (complete ∨ k + 1 < K) then
      errs := errs ++ [(match st.mode with
        | .tune _ => "[C19] the sample size of a round is not the doubling sequence up to the first round beyond 100 x precision"
        | _ => "[C03] a sample does not consist of exactly sample_size calls")]
      break
    let durs := row.map fun (a, b, _, _) => b - a
    let lastEnd := row.foldl (fun m (_, b, _, _) => max m b) 0
    st := stepRound o T prec st ⟨durs, lastEnd - initial⟩
  if errs.isEmpty ∧ complete ∧ !(st.stopped || !continues o st) ∧ K < 20000 then
    errs := errs ++ [(match st.mode with
      | .tune _ => "[C19][C04] the run ended while still tuning: no round had exceeded 100 x precision and max_time had not been reached"
      | _ => "[C04] sampling stopped although fewer than sample_count samples were recorded or min_time had not elapsed and max_time was not reached")]
  return errs

def handle (args : List String) (obs : String) : Option Reply := do
  let r ← parseReq args
  let out := loop r
  let T := r.threads
  let stats :=
    if out.sim.panicked then "panic"
    else if r.isTest then "D1"
    else showStats r out.st.sampleSize out.recs ((obs.splitOn " | ").getD 0 "")
  let model := s!"{stats} | {showTraces out.sim} | V11"
  -- ---- spec on the implementation's observation
  let segs := obs.splitOn " | "
  let implStats := segs.getD 0 ""
  let implTraces := ((segs.getD 1 "").splitOn " ").filter (· ≠ "")
  let traces : List (List Ev) := implTraces.map fun s => parseTrace ((s.splitOn ":").getD 1 "")
  let panicky := (r.panic.isSome ∨ r.gpanic.isSome) ∧ implStats = "panic"
  let o := r.opts
  let noRun : Bool := o.maxPicos = 0 || !hasSamples o
  let callsPer := traces.map fun t => count (·.k = 'k') t
  let totalCalls : Nat := callsPer.foldl (· + ·) 0
  let v : List String :=
    (if implStats = "hang" then ["[C08] the run did not terminate"] else []) ++
    -- C05: computing statistics never panics
    (if implStats = "panic" ∧ !panicky then ["[C05] computing statistics panicked (no panic was scripted)"] else []) ++
    -- C01/C02 per sample
    ((List.range traces.length).flatMap fun t =>
      let evs := traces.getD t []
      -- the first read on thread 0 is `initial_start` unless external time is skipped
      -- calibration reads of a cold process are not part of any sample
      let evs := if r.cold ∧ t = 0 then stripCal 400 evs else evs
      let evs := if t = 0 ∧ !o.skipExt ∧ !noRun then evs.drop 1 else evs
      let smps := samplesOf evs
      (List.range smps.length).flatMap fun i =>
        sampleOk r (!(panicky ∧ i = smps.length - 1)) (smps.getD i [])) ++
    -- C04: elapsed time runs from just before the first sample
    (match (if r.cold then stripCal 400 (traces.headD []) else traces.headD []) with
     | a :: b :: c :: _ =>
       if !o.skipExt ∧ !noRun ∧ a.k = 's' ∧ b.k = 's' ∧ c.k = 'e' ∧ totalCalls > 0 ∧ r.ss ≠ some 0 then
         ["[C04] timestamp reads between the start of the time budget and the first sample (one-time calibration charged to the first benchmark)"]
       else []
     | _ => []) ++
    -- C03/C04/C19: the documented loop rule on the observed clock history
    (if noRun ∨ implStats = "hang" then [] else
      let per := (List.range traces.length).map fun t =>
        let evs := traces.getD t []
        let evs := if r.cold ∧ t = 0 then stripCal 400 evs else evs
        let evs := if t = 0 ∧ !o.skipExt then evs.drop 1 else evs
        (samplesOf evs).map sampleSummary
      let initial := if o.skipExt then 0 else
        (((if r.cold then stripCal 400 (traces.headD []) else traces.headD []).head?).map (·.v)).getD 0
      replaySpec r per initial (!panicky)) ++
    -- C05: per-input counter figures belong to the samples that supplied the times; mean over all samples
    (if r.ic ∧ r.cia.isNone ∧ r.hasInputs ∧ !r.isTest ∧ !panicky ∧ !noRun then
      let allS := (List.range T).flatMap fun t =>
        let evs := traces.getD t []
        let evs := if r.cold ∧ t = 0 then stripCal 400 evs else evs
        let evs := if t = 0 ∧ !o.skipExt then evs.drop 1 else evs
        (samplesOf evs).map sampleSummary
      -- the recorded samples are the last `n` ones (earlier tuning rounds are discarded)
      let nRec := ((((implStats.splitOn " ").find? (·.startsWith "n")).map fun w => ((w.drop 1).toString.splitOn ",").headD "0").bind String.toNat?).getD 0
      -- samples are stored round by round: re-interleave per-thread lists
      let perT := (List.range T).map fun t =>
        let evs := traces.getD t []
        let evs := if r.cold ∧ t = 0 then stripCal 400 evs else evs
        let evs := if t = 0 ∧ !o.skipExt then evs.drop 1 else evs
        (samplesOf evs).map sampleSummary
      let rounds := (perT.map (·.length)).foldl min 100000
      let ordered := (List.range rounds).flatMap fun k => perT.map fun l => l.getD k (0, 0, 0, 0)
      let recs := ordered.drop (ordered.length - nRec)
      let s := out.st.sampleSize
      let cOf (x : Nat × Nat × Nat × Nat) : Nat := if s = 0 then 0 else x.2.2.2 / s
      let dOf (x : Nat × Nat × Nat × Nat) : Nat := x.2.1 - x.1
      let c3 := (((implStats.splitOn " ").find? (·.startsWith "c3:")).map fun w => ((w.drop 3).toString.splitOn ",").filterMap String.toNat?).getD []
      if recs.isEmpty ∨ c3.length ≠ 4 ∨ allS.isEmpty then [] else
      let mn := (recs.map dOf).foldl min (dOf (recs.headD (0,0,0,0)))
      let mx := (recs.map dOf).foldl max 0
      let okF := (recs.filter fun x => dOf x = mn).any fun x => cOf x = c3.getD 0 0
      let okS := (recs.filter fun x => dOf x = mx).any fun x => cOf x = c3.getD 1 0
      let mean := (recs.map cOf).foldl (· + ·) 0 / recs.length
      (if !okF then ["[C05][C19] the counter figure under fastest is not that of a sample with the smallest duration"] else []) ++
      (if !okS then ["[C05][C19] the counter figure under slowest is not that of a sample with the largest duration"] else []) ++
      (if mean ≠ c3.getD 3 0 then ["[C05][C19] the counter mean is not the mean over all recorded samples (counts of discarded rounds must not be in it)"] else [])
     else []) ++
    -- C05: a constant counter (from options or `Bencher::counter`, not replaced by an input counter later) is
    -- shown as that constant in all four columns, whatever its magnitude and however many samples there are
    (match r.items with
     | some v =>
       if (r.ic ∧ r.hasInputs) ∨ r.isTest ∨ panicky ∨ noRun then [] else
       let c3 := (((implStats.splitOn " ").find? (·.startsWith "c3:")).map fun w => ((w.drop 3).toString.splitOn ",").filterMap String.toNat?).getD []
       if c3.length = 4 ∧ c3 ≠ [v, v, v, v] then
         [s!"[C05] a constant counter of {v} items is not shown as {v} under fastest / slowest / median / mean (got {c3})" ++
          (if r.cafter then ": the constant set after an input counter of the same kind did not replace it (F10)" else "")]
       else []
     | none => []) ++
    -- C19/C03: every reported sample used the final sample size; iterations = samples x that size
    (if !r.isTest ∧ !panicky ∧ !noRun ∧ implStats ≠ "hang" ∧ implStats ≠ "panic" then
      let perT := (List.range T).map fun t =>
        let evs := traces.getD t []
        let evs := if r.cold ∧ t = 0 then stripCal 400 evs else evs
        let evs := if t = 0 ∧ !o.skipExt then evs.drop 1 else evs
        (samplesOf evs).map sampleSummary
      let nums := (((implStats.splitOn " ").find? (·.startsWith "n")).map fun w => ((w.drop 1).toString.splitOn ",").filterMap String.toNat?).getD []
      let nRec := nums.getD 0 0
      let iters := nums.getD 1 0
      let rounds := (perT.map (·.length)).foldl min 100000
      let ordered := (List.range rounds).flatMap fun k => perT.map fun l => l.getD k (0, 0, 0, 0)
      let recs := ordered.drop (ordered.length - nRec)
      if recs.isEmpty ∨ nums.length ≠ 2 ∨ nRec > ordered.length then [] else
      let sizes := recs.map fun x => x.2.2.1
      let final := sizes.getLastD 0
      (if sizes.any (· ≠ final) then ["[C19] the reported samples were not all taken with the final sample size"] else []) ++
      (if iters ≠ nRec * final then ["[C19][C03] the reported iteration count is not the number of samples times the final sample size"] else []) ++
      -- C05: the four time figures are the order statistics of the recorded samples' own durations
      (let precU := if r.ss.isNone then r.prec else 0
       let durs := recs.map fun x => RoundLoop.clampTo precU (x.2.1 - x.1)
       let ts := Stats.timeStats final (Stats.ascending durs)
       let want := s!"t{ts.fastest},{ts.slowest},{ts.median},{ts.mean}"
       if final ≠ 0 ∧ !(implStats.splitOn " ").contains want then
         ["[C05] fastest / slowest / median / mean are not the smallest, largest, middle (mean of the two middle) and total of the recorded samples' durations divided by the sample size (want " ++ want ++ ")"]
       else [])
     else []) ++
    -- C02: the allocation count attributed to the recorded samples is that of their own calls
    (if !r.isTest ∧ !panicky ∧ !noRun ∧ implStats ≠ "hang" ∧ implStats ≠ "panic" ∧ r.aCall > 0 then
      -- per thread: (calls, index of the thread's first call) of every sample, in order
      let perT := (List.range T).map fun t =>
        let evs := traces.getD t []
        let evs := if r.cold ∧ t = 0 then stripCal 400 evs else evs
        let evs := if t = 0 ∧ !o.skipExt then evs.drop 1 else evs
        let cs := (samplesOf evs).map fun smp => count (·.k = 'k') smp
        (cs.foldl (fun (acc : List (Nat × Nat) × Nat) c => (acc.1 ++ [(c, acc.2)], acc.2 + c)) ([], 0)).1
      let nums := (((implStats.splitOn " ").find? (·.startsWith "n")).map fun w => ((w.drop 1).toString.splitOn ",").filterMap String.toNat?).getD []
      let nRec := nums.getD 0 0
      let iters := nums.getD 1 0
      let rounds := (perT.map (·.length)).foldl min 100000
      let ordered := (List.range rounds).flatMap fun k => perT.map fun l => l.getD k (0, 0)
      let recs := ordered.drop (ordered.length - nRec)
      if recs.isEmpty ∨ nums.length ≠ 2 ∨ nRec > ordered.length ∨ iters = 0 then [] else
      let allocsOf (c j0 : Nat) : Nat := ((List.range c).filter fun i => r.lazy = 0 ∨ j0 + i < r.lazy).length * r.aCall
      let total := (recs.map fun (c, j0) => allocsOf c j0).foldl (· + ·) 0
      let want := toString (SoftFloat.div (SoftFloat.ofNat total) (SoftFloat.ofNat iters))
      let got := ((statGroups implStats).getD 6 []).getD 3 ""
      if got ≠ want then ["[C02][C05][C19][C10] the mean allocation count is not that of the allocator operations the recorded samples' own calls performed between their timestamps"] else []
     else []) ++
    -- C08: a panic of the benchmarked function or of the generator, once reached, ends the run with a
    -- panic on the calling thread (the lab reports `panic`), whichever round it happens in
    (let reached : Bool :=
       (match r.panic with
        | some (t, j) => count (·.k = 'k') (traces.getD t []) > j
        | none => false) ||
       (match r.gpanic with
        | some (t, id) => r.hasInputs && count (·.k = 'g') (traces.getD t []) > id
        | none => false)
     if reached ∧ implStats ≠ "panic" ∧ implStats ≠ "hang" then
       ["[C08] a panic of the benchmarked function or input generator did not end the run with a panic on the calling thread"]
     else []) ++
    -- C01/C05: inputs counted by conversion (`count_inputs_as::<C>()`) are reported under the counter kind
    -- that was asked for, and under no other
    (match r.cia with
     | some k =>
       if r.hasInputs ∧ !r.isTest ∧ !panicky ∧ !noRun ∧ implStats ≠ "hang" ∧ implStats ≠ "panic" ∧ totalCalls > 0 then
         let kinds := ((implStats.splitOn " ").filter fun w => w.startsWith "c" ∧ (w.drop 2).toString.startsWith ":").map fun w => (w.drop 1).toString.take 1 |>.toString
         if kinds ≠ [toString k] then
           ["[C01][C05] inputs counted as kind " ++ toString k ++ " (0 bytes, 1 chars, 2 cycles, 3 items) are reported under kind(s) " ++ toString kinds]
         else []
       else []
     | none => []) ++
    -- C05/C02: an operation that moved no bytes is an operation: with one same-size realloc per call the
    -- mean grow count per iteration is exactly 1
    (if r.zre ∧ !r.isTest ∧ !panicky ∧ !noRun ∧ implStats ≠ "hang" ∧ implStats ≠ "panic" ∧ totalCalls > 0 then
       let got := ((statGroups implStats).getD 2 []).getD 3 ""
       if got ≠ toString (SoftFloat.ofNat 1) then
         ["[C05][C02] allocator operations that moved 0 bytes are missing from the allocation figures (mean grow count per iteration is not 1)"]
       else []
     else []) ++
    -- C01: `_local` forms run on the calling thread only
    (if r.isLocal ∧ (traces.drop 1).any (!·.isEmpty) then ["[C01] a _local form ran on a pool thread"] else []) ++
    -- C03: explicit size, no time limit: calls = s * T * ceil(n/T); test mode: one call per thread; zero cases: none
    (if !panicky then
       (if noRun ∧ totalCalls ≠ 0 then ["[C03][C04] calls were made although sample_count, sample_size or max_time is 0"] else []) ++
       (if !noRun ∧ r.isTest ∧ callsPer.take T ≠ List.replicate T 1 then ["[C03] test mode did not call the function exactly once per thread"] else []) ++
       (if !noRun ∧ !r.isTest ∧ r.ss.isSome ∧ r.maxt.isNone ∧ r.mint.isNone then
          let s := r.ss.getD 1; let n := r.sc.getD 100
          let want := s * ((n + T - 1) / T)
          (if callsPer.take T ≠ List.replicate T want then ["[C03] calls per thread differ from s * ceil(n/T)"] else []) ++
          (if !(implStats.splitOn " ").contains s!"n{T * ((n + T - 1) / T)},{s * T * ((n + T - 1) / T)}" then ["[C03] reported samples/iters differ from T*ceil(n/T) and that times s"] else [])
        else [])
     else []) ++
    -- C08: cross-thread overlap flags computed by the harness on the global order
    (if implStats ≠ "hang" ∧ (segs.getD 2 "") ≠ "V11" then ["[C08] one thread's untimed work overlapped another thread's timed section"] else [])
  let verdict := if v.isEmpty then "ok" else "bad:" ++ " ;; ".intercalate v.eraseDups
  let tag :=
    if noRun then "trivial-norun" else
    s!"{r.ep}-{r.inS}{r.outS}-T{T}-" ++ (if r.isTest then "test" else if r.ss.isNone then "tune" else "collect") ++
      (if panicky then "-panic" else "") ++ (if r.skewGen + r.skewCall > 0 then "-skew" else "") ++ (if r.maxt.isSome then "-maxt" else "") ++ (if r.mint.isSome then "-mint" else "") ++
      (if o.skipExt then "-sk" else "") ++
      (match r.cia with | some k => s!"-cia{k}" | none => if r.ic2 then "-ic2" else if r.ic ∧ r.hasInputs then "-ic1" else "") ++
      (if r.zre then "-zre" else "") ++ (if r.lazy > 0 then "-lazy" else "") ++ s!"-r{min out.rounds 9}"
  some { model := model, verdict := verdict, tag := tag }

end Driver.Bench
