import DivanModel.Driver.Util
import DivanModel.Model.Tally
/-! C09/C10 lab handlers: verbs `tally`, `tallymt`, `prof`. -/
namespace Driver.C10
open Driver Tally

def parseOp (t : String) : Option Op :=
  match t.toList with
  | 'a' :: r => (String.ofList r).toNat?.map .alloc
  | 'd' :: r => (String.ofList r).toNat?.map .dealloc
  | 'r' :: r => match (String.ofList r).splitOn ":" with
    | [o, n] => do some (.realloc (← o.toNat?) (← n.toNat?))
    | _ => none
  | _ => none

def showT (t : T) : String :=
  s!"{t.growC} {t.growS} {t.shrinkC} {t.shrinkS} {t.allocC} {t.allocS} {t.deallocC} {t.deallocS} {t.maxC} {t.maxS}"

/-! executable specification, written from the property text (independent of `step`) -/
def maxPrefix (f : List Op → Int) (ops : List Op) : Int :=
  (List.range (ops.length + 1)).foldl (fun m k => max m (f (ops.take k))) 0

def specT (ops : List Op) : String :=
  s!"{total nGrow ops} {total sGrow ops} {total nShrink ops} {total sShrink ops} {total nAlloc ops} {total sAlloc ops} {total nDealloc ops} {total sDealloc ops} {maxPrefix liveC ops} {maxPrefix liveS ops}"

/-- the documented range: every running byte figure stays below 2^63 -/
def inRange (ops : List Op) : Bool :=
  (total sAlloc ops + total sDealloc ops + total sGrow ops + total sShrink ops) < 2 ^ 62

def kinds (ops : List Op) : String :=
  let g := total nGrow ops; let s := total nShrink ops; let a := total nAlloc ops; let d := total nDealloc ops
  if ops = [] then "trivial-empty"
  else if liveC ops < 0 then "net-negative"
  else if g > 0 ∧ s > 0 ∧ a > 0 ∧ d > 0 then "all-kinds" else "some-kinds"

def parseReq (t : String) : Option (Req × Nat) :=
  match t.splitOn ":" with
  | ["a", s, al, r] => do some (.alloc (← s.toNat?) (← al.toNat?), ← r.toNat?)
  | ["z", s, al, r] => do some (.allocZeroed (← s.toNat?) (← al.toNat?), ← r.toNat?)
  | ["r", p, s, al, n, r] => do some (.realloc (← p.toNat?) (← s.toNat?) (← al.toNat?) (← n.toNat?), ← r.toNat?)
  | ["d", p, s, al] => do some (.dealloc (← p.toNat?) (← s.toNat?) (← al.toNat?), 0)
  | _ => none

def showReq : Req → String
  | .alloc s a => s!"a:{s}:{a}"
  | .allocZeroed s a => s!"z:{s}:{a}"
  | .realloc p s a n => s!"r:{p}:{s}:{a}:{n}"
  | .dealloc p s a => s!"d:{p}:{s}:{a}"

def splitBar (l : List String) : List (List String) :=
  let rec go (cur : List String) (acc : List (List String)) : List String → List (List String)
    | [] => (cur.reverse :: acc).reverse
    | "|" :: r => go [] (cur.reverse :: acc) r
    | x :: r => go (x :: cur) acc r
  go [] [] l

def handle (verb : String) (args : List String) (obs : String) : Option Reply := do
  match verb with
  | "tally" =>
    let ops ← args.mapM parseOp
    let m := showT (run {} ops)
    some { model := m, verdict := check (obs.trimAscii.toString = specT ops) "tally differs from the exact counts/sums/peaks",
           tag := kinds ops }
  | "tallymt" =>
    let per ← (splitBar args).mapM (·.mapM parseOp)
    let m := " | ".intercalate (per.map fun ops => showT (run {} ops))
    let s := " | ".intercalate (per.map specT)
    some { model := m, verdict := check (obs.trimAscii.toString = s) "a thread's tally differs from its own operations",
           tag := if per.length ≤ 1 then "trivial-1thread" else s!"threads{per.length}" }
  | "prof" =>
    match args with
    | [] => none
    | mode :: rs =>
      let reqs ← rs.mapM parseReq
      let ops := reqs.map (fun p => opOf p.1)
      -- the model: every request forwarded unchanged, the inner answer returned unchanged
      let outs := reqs.map fun p => (profile true {} p.1 (fun _ => p.2)).2
      let fw := " ".intercalate (outs.map fun o => showReq o.1)
      let rets := " ".intercalate (outs.map fun o => toString o.2)
      let segs := obs.splitOn ";"
      let implTally := (segs.getD 2 "").trimAscii.toString
      let ranged := inRange ops
      let tally := if ranged then showT (run {} ops) else implTally
      let m := s!"{fw};{rets};{tally};{if reqs = [] then 0 else 1} 0"
      -- spec (C09): same requests in the same order, same returns, no extra inner call, no re-entrancy;
      -- (C10) the tally of the thread is exact whenever the slot was available
      let wantFw := " ".intercalate (rs.map fun t => match t.splitOn ":" with
        | "a" :: s :: al :: _ => s!"a:{s}:{al}" | "z" :: s :: al :: _ => s!"z:{s}:{al}"
        | "r" :: p :: s :: al :: n :: _ => s!"r:{p}:{s}:{al}:{n}" | _ => t)
      let wantRets := " ".intercalate (reqs.map fun p => toString p.2)
      let v := checks [
        (segs.length = 4, "malformed observation"),
        ((segs.getD 0 "") = wantFw, "forwarded requests differ from the incoming ones"),
        ((segs.getD 1 "") = wantRets, "returned values differ from the wrapped allocator's"),
        ((words (segs.getD 3 "")).getD 1 "" = "0", "extra calls reached the wrapped allocator"),
        (((words (segs.getD 3 "")).getD 0 "").toNat?.getD 9 ≤ 1, "re-entered the wrapped allocator"),
        (¬ ranged ∨ implTally = "none" ∨ implTally = specT ops, "tally differs from the exact counts/sums/peaks")]
      some { model := m, verdict := v,
             tag := if reqs = [] then "trivial-empty" else
                    s!"{mode}-" ++ (if reqs.any (fun p => p.2 == 0 && (match p.1 with | .dealloc .. => false | _ => true)) then "null" else "nonnull")
                      ++ (if ranged then "" else "-huge") }
  | _ => none

end Driver.C10
