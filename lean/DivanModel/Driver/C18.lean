import DivanModel.Driver.Util
import DivanModel.Model.Fmt
/-! C18 lab handlers: verbs `fd`, `f64`, `bytes`, `thr`. Strings travel hex-encoded (UTF-8 bytes). -/
namespace Driver.C18
open Driver Fmt

def bytesOfString (s : String) : List Nat := s.toUTF8.toList.map (·.toNat)
def hexS (s : String) : String := hexBytes (bytesOfString s)
def asciiOfBytes (bs : List Nat) : List Char := bs.map Char.ofNat

/-- decimal text → exact rational `num / 10^scale` (digits and at most one point) -/
def parseDec (cs : List Char) : Option (Nat × Nat) :=
  let rec go : List Char → Nat → Option Nat → Option (Nat × Nat)
    | [], acc, none => some (acc, 0)
    | [], acc, some k => some (acc, k)
    | c :: r, acc, pt =>
      if c = '.' then (match pt with | none => go r acc (some 0) | some _ => none)
      else if '0' ≤ c ∧ c ≤ '9' then go r (acc * 10 + (c.toNat - 48)) (pt.map (· + 1))
      else none
  if cs = [] then none else go cs 0 none

def bytesSuffix (binary : Bool) (i : Nat) : String :=
  (if binary then ["B", "KiB", "MiB", "GiB", "TiB", "PiB"] else ["B", "KB", "MB", "GB", "TB", "PB"]).getD i "?"

def thrSuffix (kind : Nat) (binary : Bool) (i : Nat) : String :=
  match kind with
  | 0 => bytesSuffix binary i ++ "/s"
  | 1 => (["char/s", "Kchar/s", "Mchar/s", "Gchar/s", "Tchar/s", "Pchar/s"]).getD i "?"
  | 2 => (["Hz", "KHz", "MHz", "GHz", "THz", "PHz"]).getD i "?"
  | _ => (["item/s", "Kitem/s", "Mitem/s", "Gitem/s", "Titem/s", "Pitem/s"]).getD i "?"

/-- |a/10^sa − n/d| ≤ (n/d)·2⁻⁴⁸  (exact rational arithmetic) -/
def closeTo (a sa n d : Nat) : Bool :=
  -- |a·d − n·10^sa| · 2^48 ≤ n·10^sa
  let l := a * d; let r := n * 10 ^ sa
  (if l ≥ r then l - r else r - l) * 2 ^ 48 ≤ r

/-- trailing zeros removed (spec side, written independently of the model's `trailingZeros`) -/
def dropTZ' (l : List Char) : List Char := (l.reverse.dropWhile (· = '0')).reverse

/-- spec for one scaled value: the printed text is the truncation of `txt` to max(0, sig − d) places -/
def truncOf (txt : List Char) (sig : Nat) : List Char := formatDecimal txt sig

def scaledHandle (valTxt : List Char) (scaled : List (List Char)) (sig : Nat) (binary : Bool)
    (suffix : Nat → String) : Option (String × Nat) :=
  if valTxt = "inf".toList then some ("inf " ++ suffix 0, 0) else
  match parseDec valTxt with
  | none => none
  | some (num, sc) =>
    let i := scaleIdx num sc binary
    let t := scaled.getD i []
    some (String.ofList (formatDecimal t sig) ++ " " ++ suffix i, i)

def handle (verb : String) (args : List String) (obs : String) : Option Reply := do
  match verb, args with
  | "fd", [ps] =>
    let p ← ps.toNat?
    let m := hexS (fmt p).render
    let s := hexS (spec p).render
    let pr := fmt p
    some { model := m, verdict := check (obs.trimAscii.toString = s) "printed duration is not the truthful truncation",
           tag := if p = 0 then "trivial-zero" else s!"{pr.unit.suffix}-int{numDigits pr.ip}-frac{pr.frac.length}" }
  | "f64", [_bits, sigS] =>
    let sig ← sigS.toNat?
    let o := words obs
    let txt := asciiOfBytes (unhexBytes (o.getD 0 "-"))
    let res := formatDecimal txt sig
    let m := s!"{o.getD 0 "-"} {hexS (String.ofList res)}"
    -- spec: the output is a prefix-truncation of the decimal text: same integer part, fraction cut to
    -- max 0 (sig − d) digits, no trailing zeros, no exponent
    let outTxt := asciiOfBytes (unhexBytes (o.getD 1 "-"))
    let v := match idxOfDot txt with
      | none => check (outTxt = txt) "text without a point was changed"
      | some d =>
        let ip := txt.take d; let fr := txt.drop (d + 1)
        let k := sig - d
        let want := if k = 0 then ip else if fr.length < k then txt
                    else (let t := dropTZ' (fr.take k); if t = [] then ip else ip ++ '.' :: t)
        check (outTxt = want) "not the truncation to max(0, sig-d) places"
    some { model := m, verdict := v,
           tag := match idxOfDot txt with | none => "nopoint" | some d => s!"int{d}-sig{sig}" }
  | "bytes", [_bits, sigS, binS] =>
    let sig ← sigS.toNat?
    let binary := binS = "1"
    let o := words obs
    let txts := o.map fun h => asciiOfBytes (unhexBytes h)
    let valTxt := txts.getD 0 []
    let scaled := (txts.drop 1).take 6
    let (res, i) ← scaledHandle valTxt scaled sig binary (bytesSuffix binary)
    let m := " ".intercalate (o.take 7 ++ [hexS res])
    let v := match parseDec valTxt, parseDec (scaled.getD i []) with
      | some (n, sn), some (a, sa) =>
        checks [(o.getD 7 "" = hexS res, "printed size is not the truncation of the scaled value with its prefix"),
                (closeTo a sa n ((starts binary).getD i 1 * 10 ^ sn), "scaled value is not value/prefix up to double rounding"),
                (i = 0 ∨ n ≥ (starts binary).getD i 0 * 10 ^ sn, "prefix exceeds the value")]
      | _, _ => check (o.getD 7 "" = hexS res) "printed size differs"
    some { model := m, verdict := v, tag := s!"{if binary then "bin" else "dec"}-scale{i}" }
  | "thr", [kindS, countS, picosS, binS] =>
    let kind ← kindS.toNat?; let count ← countS.toNat?; let picos ← picosS.toNat?
    let binary := binS = "1" && kind = 0
    let o := words obs
    let txts := o.map fun h => asciiOfBytes (unhexBytes h)
    let valTxt := txts.getD 0 []
    let scaled := (txts.drop 1).take 6
    let (res, i) ← scaledHandle valTxt scaled 4 binary (thrSuffix kind binary)
    let m := " ".intercalate (o.take 7 ++ [hexS res])
    let v :=
      if count = 0 then check (o.getD 7 "" = hexS ("0 " ++ thrSuffix kind binary 0)) "zero count does not print as 0"
      else if picos = 0 then check (o.getD 7 "" = hexS ("inf " ++ thrSuffix kind binary 0)) "zero duration does not print as inf"
      else match parseDec valTxt, parseDec (scaled.getD i []) with
        | some (n, sn), some (a, sa) =>
          checks [(o.getD 7 "" = hexS res, "printed throughput is not the truncation of the scaled value"),
                  (closeTo n sn (count * 10 ^ 12) picos, "rate is not count*10^12/picos up to double rounding"),
                  (closeTo a sa n ((starts binary).getD i 1 * 10 ^ sn), "scaled value is not value/prefix up to double rounding")]
        | _, _ => bad "non-finite throughput for non-zero count and duration"
    some { model := m, verdict := v,
           tag := if count = 0 then "trivial-zero" else if picos = 0 then "inf" else s!"k{kind}-{if binary then "bin" else "dec"}-scale{i}" }
  | _, _ => none

end Driver.C18
