import DivanModel.Driver.Util
import DivanModel.Model.ArgName
/-! C16 lab handlers: `natcmp`, `natcmp3`, `argcmp`, `argsort`. Orderings travel as -1/0/1. -/
namespace Driver.C16
open Driver NatCmp ArgName

def ordStr : Ordering → String | .lt => "-1" | .eq => "0" | .gt => "1"
def ordOf? : String → Option Ordering | "-1" => some .lt | "0" => some .eq | "1" => some .gt | _ => none

def parseNames : List String → Option (List Name)
  | [] => some []
  | h :: f :: rest => do
    let fb ← if f = "n" then some none else f.toNat?.map some
    let r ← parseNames rest
    some (⟨unhexBytes h, fb⟩ :: r)
  | _ => none

/-- exact numeric value of a name as a rational key, for the spec: integers (u128 or i128 range) -/
def intVal? (n : Name) : Option Int :=
  match parseU128 n.bytes with
  | some v => some (v : Int)
  | none => parseI128 n.bytes

def isNan (b : Nat) : Bool := b / 2 ^ 52 % 2 ^ 11 == 2047 && b % 2 ^ 52 != 0
def fkey (b : Nat) : Int := if b ≥ 2 ^ 63 then -((b % 2 ^ 63 : Nat) : Int) else (b : Int)

/-- canonical rendering of an integer, as `ToString` of an integer argument produces it:
    optional `-`, no leading zeros, no `+`, not `-0` -/
def canonicalInt (n : Name) : Bool :=
  let body := match n.bytes with | 45 :: r => r | l => l
  (intVal? n).isSome && body != [] && body.all isDigit && (body.length == 1 || body.head? != some 48)
    && n.bytes != [45, 48]

/-- an integer rendering that `f64` represents exactly enough for distinct values to stay distinct -/
def smallInt (n : Name) : Bool := canonicalInt n && n.bytes.length ≤ 15

/-- what kind of list is it, in the property's words. Numeric classes contain canonical renderings
    only (`"-0"`, `"+5"`, `"007"` are strings that merely look numeric: class `mixed`). -/
def classify (names : List Name) : String :=
  if names.all canonicalInt then "ints"
  else if names.all (fun n => (match n.f with | some b => !isNan b | none => false) &&
                              ((intVal? n).isNone || smallInt n)) then "floats"
  else if names.all (fun n => n.f.isNone) then "text"
  else "mixed"

def isPerm (l : List Nat) (n : Nat) : Bool := l.length == n && (List.range n).all (fun i => l.contains i)

/-- is `l` (a list of indices) ascending w.r.t. `le` on consecutive… on all pairs -/
def sortedBy (le : Nat → Nat → Bool) : List Nat → Bool
  | [] => true
  | x :: xs => xs.all (le x) && sortedBy le xs

/-- the documented order of runtime arguments under `attr` (ascending): name order = numeric value for
    numeric lists / natural order for text, ties by declaration order; location = declaration order -/
def specLe (attr : Nat) (names : List Name) (cls : String) (i j : Nat) : Bool :=
  if attr = 2 then i ≤ j else
  match names[i]?, names[j]? with
  | some a, some b =>
    let o : Ordering :=
      if cls = "ints" then compare ((intVal? a).getD 0) ((intVal? b).getD 0)
      else if cls = "floats" then compare (fkey (a.f.getD 0)) (fkey (b.f.getD 0))
      else naturalCmp a.bytes b.bytes
    match o with | .lt => true | .gt => false | .eq => i ≤ j
  | _, _ => false

def handle (verb : String) (args : List String) (obs : String) : Option Reply := do
  match verb, args with
  | "natcmp", [a, b] =>
    let x := unhexBytes a; let y := unhexBytes b
    let m := naturalCmp x y
    some { model := ordStr m, verdict := check ((ordOf? obs.trimAscii.toString).isSome) "malformed observation",
           tag := if x = y then "trivial-equal" else
                  if (tokens x).length > 1 ∨ (tokens y).length > 1 then s!"multi-token-{ordStr m}" else s!"single-{ordStr m}" }
  | "natcmp3", [a, b, c] =>
    let s := [unhexBytes a, unhexBytes b, unhexBytes c]
    let m := " ".intercalate (s.flatMap fun x => s.map fun y => ordStr (naturalCmp x y))
    -- the order laws evaluated on the implementation's own answers
    let v := match (words obs).mapM ordOf? with
      | some o =>
        if o.length ≠ 9 then bad "malformed observation" else
        let c (i j : Nat) : Ordering := o.getD (3 * i + j) .eq
        let idx := [0, 1, 2]
        checks [
          (idx.all (fun i => c i i == .eq), "not reflexive"),
          (idx.all (fun i => idx.all fun j => c j i == (c i j).swap), "cmp(b,a) is not the reverse of cmp(a,b)"),
          (idx.all (fun i => idx.all fun j => idx.all fun k => !(c i j != .gt && c j k != .gt) || c i k != .gt), "not transitive")]
      | none => bad "malformed observation"
    some { model := m, verdict := v, tag := if s.eraseDups.length < 3 then "dup" else "distinct" }
  | "argcmp", at' :: is :: js :: rest =>
    let attr ← at'.toNat?; let i ← is.toNat?; let j ← js.toNat?
    let names ← parseNames rest
    let m := cmpArgs attr names i j
    let cls := classify names
    -- spec on a pair: for homogeneous lists the comparator must agree with the documented order
    let v := match ordOf? obs.trimAscii.toString with
      | none => bad "malformed observation"
      | some o =>
        if cls = "mixed" then "ok" else
        let want : Ordering := if i = j then .eq else if specLe attr names cls i j then .lt else .gt
        check (o = want) s!"argument names ({cls}) are not compared by the documented order"
    some { model := ordStr m, verdict := v, tag := if i = j then "trivial-same" else s!"{cls}-attr{attr}" }
  | "argsort", at' :: rv :: rest =>
    let attr ← at'.toNat?
    let rev := rv = "1"
    let names ← parseNames rest
    let cls := classify names
    let cons := consistent attr names
    let m := if cons then joinNats (sortArgs attr rev names) else "inconsistent-comparator"
    let v := match nats? (words obs) with
      | none => if obs.startsWith "panic" then
                  (if cons then bad "sorting panicked on a consistent comparator"
                   else bad "comparator is not a total order on this mixed list (F8): sorting panicked")
                else bad "malformed observation"
      | some l =>
        if ¬ isPerm l names.length then bad "sorting lost, duplicated or invented an argument" else
        if cls = "mixed" then (if cons then "ok" else bad "comparator is not a total order on this mixed list (F8)") else
        let asc := if rev then l.reverse else l
        check (sortedBy (specLe attr names cls) asc) s!"{cls} arguments are not in the documented order"
    some { model := m, verdict := v,
           tag := if names.length < 2 then "trivial-short" else s!"{cls}-attr{attr}-{if rev then "rev" else "fwd"}" }
  | _, _ => none

end Driver.C16
