import DivanModel.Driver.Util
import DivanModel.Model.Tsc
/-! C11 lab handlers: verbs `tsc`, `tsc3`, `tscshift`, `dur`, `prec`, `precs`. -/
namespace Driver.C11
open Driver Tsc

def P : Nat := 1000000000000

/-- spec: ⌊(b−a)·10¹²/f⌋ if a ≤ b else 0 (written independently of the model) -/
def specDur (a b f : Nat) : Nat := if b < a then 0 else (b - a) * P / f

def tagOf (a b f : Nat) : String :=
  if b < a then "neg" else if a = b then "trivial-zero"
  else if (b - a) * P ≥ 2 ^ 64 then (if f = 1 then "wide-f1" else "wide") else "narrow"

def handle (verb : String) (args : List String) (obs : String) : Option Reply := do
  let v ← nats? args
  let o := words obs
  match verb, v with
  | "tsc", [a, b, f] =>
    let m := durationSince b a f
    let ok := match o with
      | [d] => check (d.toNat? = some (specDur a b f)) "elapsed is not floor((b-a)*10^12/f)"
      | _ => bad "malformed observation"
    some { model := toString m, verdict := ok, tag := tagOf a b f }
  | "tsc3", [a, b, c, f] =>
    let m := [durationSince b a f, durationSince c b f, durationSince c a f]
    let ok := match nats? o with
      | some [dab, dbc, dac] =>
        checks [
          (dab = specDur a b f ∧ dbc = specDur b c f ∧ dac = specDur a c f, "elapsed is not floor((b-a)*10^12/f)"),
          (¬ (b ≤ c) ∨ dab ≤ dac, "not monotone in the later reading"),
          (¬ (a ≤ b ∧ b ≤ c) ∨ (dab + dbc ≤ dac ∧ dac ≤ dab + dbc + 1), "not additive within 1 ps")]
      | _ => bad "malformed observation"
    some { model := joinNats m, verdict := ok, tag := if a ≤ b ∧ b ≤ c then "sorted" else "unsorted" }
  | "tscshift", [a, b, k, f] =>
    let m := [durationSince b a f, durationSince (b + k) (a + k) f]
    let ok := match nats? o with
      | some [d1, d2] => checks [(d1 = specDur a b f, "elapsed is not floor((b-a)*10^12/f)"),
                                 (d1 = d2, "depends on the absolute counter value")]
      | _ => bad "malformed observation"
    some { model := joinNats m, verdict := ok, tag := if k = 0 then "trivial-k0" else tagOf a b f }
  | "dur", [s, ns] =>
    let m := match ofDuration s ns with | some p => toString p | none => "panic"
    let ok := check (obs.trimAscii.toString = toString ((s * 1000000000 + ns) * 1000)) "Duration is not nanos*1000"
    some { model := m, verdict := ok, tag := if s = 0 ∧ ns = 0 then "trivial-zero" else if s ≥ 2^63 then "huge" else "dur" }
  | "osdur", [s, ns, rev] =>
    -- the OS-timer arm: `Instant::duration_since` (saturating at zero) converted like any `Duration`
    let want := if rev = 1 then 0 else (s * 1000000000 + ns) * 1000
    let m := if obs.trimAscii.toString = "unrepresentable" then "unrepresentable" else toString want
    let ok := check (obs.trimAscii.toString = toString want ∨ obs.trimAscii.toString = "unrepresentable")
      "the difference of two OS timestamps is not the elapsed nanoseconds times 1000 (or not zero for an earlier one)"
    some { model := m, verdict := ok, tag := if s = 0 ∧ ns = 0 then "trivial-zero" else if rev = 1 then "os-reversed" else if s = 0 then "os-subsecond" else "os" }
  | "prec", [step, f] =>
    let sample := durationSince (step + step) step f
    let m := match precisionCount {} (List.replicate 10300 sample) 0 with
      | some (p, k) => s!"{p} {2 * k}"
      | none => "diverges"
    let ok := match nats? o with
      | some [p, _] => check (p = step * P / f) "precision of a uniform-step clock is not the step"
      | _ => bad "malformed observation"
    some { model := m, verdict := ok, tag := if sample = step then "unit-freq" else "scaled" }
  | "precs", f :: step :: pairs :: rs =>
    if rs.length ≠ 2 * pairs then none else
    let scripted := pairDurations f rs
    let last := rs.getLast?.getD 0
    let tail := durationSince (last + 2 * step) (last + step) f
    let stream := scripted ++ List.replicate 10300 tail
    let m := match precisionCount {} stream 0 with
      | some (p, k) => s!"{p} {2 * k}"
      | none => "diverges"
    -- spec: the result is the least non-zero sample among those observed before it returned
    let ok := match nats? o with
      | some [p, reads] =>
        let seen := stream.take (reads / 2)
        checks [(p ≠ 0, "zero precision"), (seen.contains p, "precision was never observed"),
                (seen.all (fun x => x = 0 ∨ p ≤ x), "a smaller non-zero sample was observed")]
      | _ => bad "malformed observation"
    some { model := m, verdict := ok,
           tag := if pairs = 0 then "trivial-noscript" else if scripted.any (· = 0) then "with-zero" else "scripted" }
  | _, _ => none

end Driver.C11
