import DivanModel.Driver.Util
import DivanModel.Model.Paint
/-! Painter lab handler (`paint`): replays the scripted `TreePainter` operations on the exact painter
    model, with the serialised cells the implementation side reports. -/
namespace Driver.PaintLab
open Driver _root_.Paint

def str (h : String) : String := String.fromUTF8! (ByteArray.mk ((unhexBytes h).map (·.toUInt8)).toArray)
def hexS (s : String) : String := hexBytes (s.toUTF8.toList.map (·.toNat))

def parseRow (s : String) : List String := (s.splitOn ",").map str

/-- one block: main / 4 counter rows / maxalloc (`-` or 2 rows) / 4 tallies (`-` or 2 rows each) -/
def parseBlock (s : String) : Option Cells := do
  let rows := s.splitOn "/"
  let main := parseRow (← rows[0]?)
  let counters := ((rows.drop 1).take 4).map parseRow
  -- the remaining tokens: each is "-" or a pair of rows
  let rec take2 (fuel : Nat) (l : List String) (acc : List (Option (List String × List String))) :
      List (Option (List String × List String)) :=
    match fuel, l with
    | 0, _ => acc.reverse
    | _, [] => acc.reverse
    | f + 1, "-" :: r => take2 f r (none :: acc)
    | f + 1, a :: b :: r => take2 f r (some (parseRow a, parseRow b) :: acc)
    | _, _ => acc.reverse
  let rest := take2 20 (rows.drop 5) []
  let names := ["alloc:", "dealloc:", "grow:", "shrink:"]
  some { main := main, counters := counters, maxAlloc := (rest.headD none),
         tallies := (List.range 4).map fun i => (names.getD i "", (rest.getD (i + 1) none)) }

def handle (args : List String) (obs : String) : Option Reply := do
  match args with
  | spanS :: wS :: ops =>
    let span ← spanS.toNat?
    let widths ← (wS.splitOn ":").mapM String.toNat?
    let o := words obs
    let cseg := ((o.find? (·.startsWith "C")).map fun w => (w.drop 1).toString).getD "-"
    let blocks ← if cseg = "-" then some [] else (cseg.splitOn ";").mapM parseBlock
    let mut p : P := { maxSpan := span, widths := widths }
    let mut bi := 0
    let mut nS := 0
    let mut depthMax := 0
    for t in ops do
      match t.splitOn ":" with
      | ["P", n, l] => p := p.startParent (str n) (l = "1"); depthMax := max depthMax p.depth
      | ["F"] => p := p.finishParent
      | ["I", n, l] => p := p.ignoreLeaf (str n) (l = "1")
      | ["L", n, l] => p := p.startLeaf (str n) (l = "1")
      | ["E"] => p := p.finishEmptyLeaf
      | "S" :: l :: _ =>
        p := p.finishLeaf (l = "1") (blocks.getD bi { main := [] })
        bi := bi + 1; nS := nS + 1
      | _ => none
    let model := s!"C{cseg} O{hexS p.out}"
    -- spec (C20): every statistics row splits on " │ " into exactly six cells that are the given ones
    let implOut := str (((o.find? (·.startsWith "O")).map fun w => (w.drop 1).toString).getD "-")
    -- continuation rows: every allocation section computed for a benchmark is printed (label row), nothing else
    let contLabels : List String := (implOut.splitOn "\n").filterMap fun l =>
      let cs := l.toList.dropWhile fun c => c = '│' || c = ' '
      let first := String.ofList (cs.takeWhile (· ≠ '│'))
      let lab := first.trimAscii.toString
      if (l.startsWith "│" ∨ l.startsWith " ") ∧ lab.endsWith ":" then some lab else none
    let wantLabels : List String := blocks.flatMap fun b =>
      (if b.maxAlloc.isSome then ["max alloc:"] else []) ++ b.tallies.filterMap fun (n, t) => if t.isSome then some n else none
    let kinds := ["max alloc:", "alloc:", "dealloc:", "grow:", "shrink:"]
    let badKind := kinds.find? fun k => contLabels.count k ≠ wantLabels.count k
    -- every cell computed for a benchmark (with the configured byte format) is printed as such
    let allCells : List String := blocks.flatMap fun b =>
      b.main ++ b.counters.flatten ++
      (match b.maxAlloc with | some (a, z) => a ++ z | none => []) ++
      b.tallies.flatMap fun (_, t) => match t with | some (a, z) => a ++ z | none => []
    let missing := (allCells.map fun c => c.trimAscii.toString).find? fun c =>
      c ≠ "" ∧ c ≠ "-" ∧ (implOut.splitOn c).length < 2
    let v := if implOut.isEmpty ∧ !ops.isEmpty then bad "nothing was printed"
      else match missing with
      | some c => bad s!"[C18][C20] a cell computed for a benchmark with the configured format is not what is printed under it (`{c}` does not occur in the output)"
      | none =>
      match badKind with
        | some k => bad s!"[C20] the allocation rows printed under the benchmarks are not the ones computed for them (`{k}` sections: printed {contLabels.count k}, computed {wantLabels.count k})"
        | none => "ok"
    some { model := model, verdict := v,
           tag := if ops.length ≤ 2 then "trivial-small" else s!"{if widths.all (· == 0) then "plain" else "cols"}-d{min depthMax 6}-s{min nS 5}" }
  | _ => none

end Driver.PaintLab
