import DivanModel.Driver.Util
import DivanModel.Model.PoolFull
/-! Pool lab handler (`pool`): maps the linearised event log of the real `ThreadPool` (run under the
    instrumented `std` drop-in) to actions of the pool protocol model and replays them through
    `PoolFull.stepFn` - the executable acceptor proved sound w.r.t. the transition relation the
    theorems of C06/C07 are about (`stepFn_sound`, `replay_inv`). Values read by the real atomics are
    compared with the model's `ref_count` on the way. -/
namespace Driver.Pool
open Driver PoolFull

inductive E
  | new (v : Nat) | load (v o : Nat) | fsub (v o : Nat) | recv | recvEnter | recvDisc | clone | unpark
  | park (spurious : Bool) | spawn (i : Nat) | user (a b : Nat) | other
  deriving Repr

def parseEv (s : String) : Option (Nat × E) :=
  match s.splitOn ":" with
  | [t, e] => do
    let tid ← t.toNat?
    let two (r : String) : Option (Nat × Nat) := match r.splitOn "." with
      | [a, b] => do some (← a.toNat?, ← b.toNat?)
      | _ => none
    match e.toList with
    | 'N' :: r => some (tid, .new (← (String.ofList r).toNat?))
    | 'L' :: r => do let (v, o) ← two (String.ofList r); some (tid, .load v o)
    | 'S' :: r => do let (v, o) ← two (String.ofList r); some (tid, .fsub v o)
    | ['R'] => some (tid, .recv)
    | ['E'] => some (tid, .recvEnter)
    | ['X'] => some (tid, .recvDisc)
    | ['C'] => some (tid, .clone)
    | ['U'] => some (tid, .unpark)
    | ['P', '0'] => some (tid, .park false)
    | ['P', '1'] => some (tid, .park true)
    | 'W' :: r => some (tid, .spawn (← (String.ofList r).toNat?))
    | 'u' :: r => do let (a, b) ← two (String.ofList r); some (tid, .user a b)
    | _ => some (tid, .other)
  | _ => none

structure RS where
  s : Sys
  fresh : List Nat := []          -- spawned workers whose first (blocking) `recv` has not been entered yet
  steps : Nat := 0
  spurious : Nat := 0
  err : Option String := none
  -- several calling threads, one after the other (driver-level bookkeeping outside the model, whose
  -- `tok` is the token of the *current* caller): the parked token of the other caller, and for every
  -- worker the caller of the task it received last (whom its unpark is addressed to)
  callers : Nat := 1
  caller : Nat := 0
  savedMain : Bool := false
  taskCaller : List (Nat × Nat) := []

def apply (r : RS) (a : Act) (what : String) : RS :=
  match stepFn r.s a with
  | some s' => { r with s := s', steps := r.steps + 1 }
  | none => { r with err := some s!"{what} is not enabled in the model after {r.steps} steps" }

/-- one logged event of thread `t` -/
def stepEv (r : RS) (t : Nat) (e : E) : RS :=
  if r.err.isSome then r else
  match e with
  | .new v =>
    if r.s.todo.head? ≠ some v then { r with err := some s!"task block initialised with ref_count {v}, the history says {r.s.todo.head?}" }
    else
      -- odd-numbered broadcasts of a two-caller history come from a fresh thread (token unset)
      let newCaller := if r.callers > 1 then r.s.done % 2 else 0
      let r := if newCaller = r.caller then r
        else if newCaller = 1 then { r with savedMain := r.s.tok, s := { r.s with tok := false }, caller := 1 }
        else { r with s := { r.s with tok := r.savedMain }, caller := 0 }
      apply r .begin "begin"
  | .spawn i => { r with fresh := i :: r.fresh }
  | .recv =>
    let r := { r with taskCaller := (t, r.caller) :: r.taskCaller.filter (·.1 ≠ t) }
    apply r .send s!"send to worker {t}"
  | .user 1 0 => apply r .sendDone "caller starts its own call"
  | .user 2 0 => apply r .crun "caller's own call ends"
  | .user 1 _ => r
  | .user 2 k => apply r (.worker (k - 1)) s!"call end on worker {k}"
  | .user 9 _ => apply r .dropPool "drop of the pool"
  | .user _ _ => r
  | .clone => apply r (.worker (t - 1)) s!"handle clone on worker {t}"
  | .fsub v _ =>
    if v ≠ r.s.rc then { r with err := some s!"fetch_sub read {v}, the model's ref_count is {r.s.rc}" }
    else apply r (.worker (t - 1)) s!"decrement on worker {t}"
  | .unpark =>
    let target := ((r.taskCaller.find? (·.1 = t)).map (·.2)).getD r.caller
    let r' := apply r (.worker (t - 1)) s!"unpark by worker {t}"
    if target = r.caller ∨ r'.err.isSome then r'
    else
      -- a stale unpark addressed to the other calling thread: the current caller's token is untouched
      let r' := { r' with s := { r'.s with tok := r.s.tok } }
      if target = 0 then { r' with savedMain := true } else r'
  | .recvEnter =>
    if r.fresh.contains t then { r with fresh := r.fresh.erase t } else apply r (.worker (t - 1)) s!"worker {t} back in recv"
  | .recvDisc => apply r (.wexit (t - 1)) s!"exit of worker {t}"
  | .load v _ =>
    if v ≠ r.s.rc then { r with err := some s!"load read {v}, the model's ref_count is {r.s.rc}" }
    else
      let r' := apply r .check "load of ref_count"
      -- on return (count read as zero): every index ran exactly once and is visible to the caller
      if r'.err.isNone ∧ v = 0 then
        let n := r.s.n
        if !(List.range n).all (fun j => r.s.runs j == 1) then { r' with err := some "a worker index did not run the task exactly once" }
        else if !(List.range n).all (fun j => r'.s.seen j) then
          { r' with err := some "the end of a call does not happen-before the return (orderings too weak)" }
        else r'
      else r'
  | .park false => apply r .park "park return"
  | .park true =>
    -- spurious wake-up: the step `StepS.spurious` of Props/C07Spurious (invariant, no lost wake-up and
    -- no deadlock are proved for the relation that includes it):
    -- the caller simply re-checks the counter
    match spuriousFn r.s with
    | some s' => { r with s := s', spurious := r.spurious + 1 }
    | none => { r with err := some "spurious park return while the caller is not parked" }
  | .other => r

def isFinal (s : Sys) : Bool :=
  s.c = .idle ∧ s.todo = [] ∧ s.dropped ∧ (List.range s.m).all fun j => s.w j == .exited

instance : BEq WPc := ⟨fun a b => decide (a = b)⟩

def handle (args : List String) (obs : String) : Option Reply := do
  let kv := args.filterMap fun t => match t.splitOn "=" with | [k, v] => some (k, v) | _ => none
  let get (k : String) := (kv.find? (·.1 = k)).map (·.2)
  let hist ← (((get "h").getD "").splitOn ":" |>.filter (· ≠ "")).mapM String.toNat?
  let segs := obs.splitOn " | "
  let left := segs.getD 0 ""
  let flags := segs.getD 1 ""
  if left.startsWith "crash" then
    return { model := "terminates", verdict := bad s!"[C06][C07] the pool crashed or let a panic escape ({left}) during this broadcast history: a call that panics must leave an empty entry, and nothing may touch a broadcast's state after it returned", tag := "crash" }
  if left.startsWith "hang" then
    return { model := "terminates", verdict := bad "[C07] the broadcast history did not run to completion (deadlock or lost wake-up)", tag := "hang" }
  let lw := words left
  let tok0 := lw.headD "T0" = "T1"
  let evs ← (((lw.getD 1 "-").splitOn ",").filter (fun s => s ≠ "" ∧ s ≠ "-")).mapM parseEv
  let relOk := evs.all fun (_, e) => match e with | .fsub _ o => o == 1 || o == 3 || o == 4 | _ => true
  let acqOk := evs.all fun (_, e) => match e with | .load _ o => o == 2 || o == 4 | _ => true
  let callers := ((get "callers").bind String.toNat?).getD 1
  let r := evs.foldl (fun r (t, e) => stepEv r t e) { s := init hist tok0 relOk acqOk, callers := callers }
  let result :=
    match r.err with
    | some e => s!"reject:{e}"
    | none => if isFinal r.s then "R1 O1 D1 V1 E1" else "reject:the run ended in a state that is not final (all broadcasts done, pool dropped, every worker exited)"
  -- C06, on the events alone: once a worker has decremented the counter the caller may resume and the
  -- stack-resident task block may be gone; the only thing it may still do for this task is unpark the
  -- caller through a handle it cloned *before* the decrement
  let tids := (evs.map (·.1)).eraseDups
  let touchesAfter := tids.any fun t =>
    let mine := (evs.filter (·.1 = t)).map (·.2)
    (mine.foldl (fun (st : Bool × Bool × Bool) e =>
      let (cloned, dec, bad) := st
      match e with
      | .recv => (false, false, bad)
      | .clone => (true, dec, bad)
      | .fsub _ _ => (cloned, true, bad)
      | .unpark => (cloned, dec, bad || (dec && !cloned))
      | _ => st) (false, false, false)).2.2
  let v : List String :=
    (if touchesAfter then ["[C06] a worker unparked the caller after its decrement through a handle it had not cloned before: it read the broadcast's shared state when the caller may already have returned"] else []) ++
    (if (flags.splitOn " ").contains "R0" then ["[C06] per-index results are wrong (order, or empty entries not exactly for the panicking calls)"] else []) ++
    (if (flags.splitOn " ").contains "O0" then ["[C06] the task was not called exactly once for each index"] else []) ++
    (if (flags.splitOn " ").contains "D0" then ["[C06] index 0 did not run on the caller or the other indices not on distinct pooled threads"] else []) ++
    (if (flags.splitOn " ").contains "V0" then ["[C06] what a call wrote was not visible to the caller after the broadcast returned"] else []) ++
    (if (flags.splitOn " ").contains "E0" then ["[C07] worker threads did not exit after the pool was dropped"] else []) ++
    (if !relOk ∨ !acqOk then ["[C06] the decrement is not a Release RMW or the caller's load not an Acquire load: the return does not happen-after the calls"] else [])
  some { model := s!"{left} | {result}", verdict := if v.isEmpty then "ok" else "bad:" ++ " ;; ".intercalate v,
         tag := if hist.isEmpty then "trivial-empty" else
                s!"b{hist.length}-max{hist.foldl max 0}" ++ (if tok0 then "-staletoken" else "") ++
                (if r.spurious > 0 then "-spurious" else "") ++ (if callers > 1 then "-2callers" else "") ++ (if (get "panic").getD "-" ≠ "-" then "-panic" else "") }

end Driver.Pool
