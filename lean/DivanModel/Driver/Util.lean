/-! Line-protocol helpers shared by all lab handlers (core only, no Mathlib). -/
namespace Driver

structure Reply where
  model   : String            -- the model's observation, canonical text
  verdict : String := "ok"    -- spec checker on the *implementation's* observation: "ok" | "bad:<why>"
  tag     : String := "t"     -- branch tag of the model on this input ("trivial…" = default branch)

def bad (why : String) : String := "bad:" ++ why

def nats? (l : List String) : Option (List Nat) := l.mapM String.toNat?

def joinNats (l : List Nat) : String := " ".intercalate (l.map toString)

def words (s : String) : List String :=
  (s.trimAscii.toString.splitOn " ").filter (· ≠ "")

def hexVal (c : Char) : Nat :=
  if '0' ≤ c ∧ c ≤ '9' then c.toNat - '0'.toNat
  else if 'a' ≤ c ∧ c ≤ 'f' then c.toNat - 'a'.toNat + 10 else 0

/-- hex string (or "-" for empty) to bytes -/
def unhexBytes (s : String) : List Nat :=
  if s = "-" then [] else
  let rec go : List Char → List Nat
    | a :: b :: rest => (hexVal a * 16 + hexVal b) :: go rest
    | _ => []
  go s.toList

def hexDigit (n : Nat) : Char :=
  if n < 10 then Char.ofNat (n + '0'.toNat) else Char.ofNat (n - 10 + 'a'.toNat)

def hexBytes (bs : List Nat) : String :=
  if bs = [] then "-" else String.ofList (bs.flatMap fun b => [hexDigit (b / 16), hexDigit (b % 16)])

def ofBool (b : Bool) : String := if b then "1" else "0"

def check (b : Bool) (why : String) : String := if b then "ok" else bad why

/-- first failing check wins -/
def checks : List (Bool × String) → String
  | [] => "ok"
  | (b, why) :: rest => if b then checks rest else bad why

end Driver
