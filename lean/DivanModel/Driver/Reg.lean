import DivanModel.Model.LineCodec
import DivanModel.Model.EntryList
import DivanModel.Driver.Util
import DivanModel.Model.Prog
import DivanModel.Model.TreeOrder
/-! Registry lab handler (`reg`): parses an abstract benchmark program + run configuration, runs the
    front-end model (`Prog.run`) and evaluates the executable specifications of C12-C17 on what the
    implementation did. Spec functions here are written from the property texts and work on the
    *abstract program* (items as the user wrote them), not on the entry tree. -/
namespace Driver.Reg
open Driver Prog

def str (h : String) : String := String.fromUTF8! (ByteArray.mk ((unhexBytes h).map (·.toUInt8)).toArray)
def hexS (s : String) : String := hexBytes (bytesOf s)

def parseOpts (s : String) : Option (Option Opts) :=
  if s = "-" then some none else do
  let mut o : Opts := {}
  for kv in (s.splitOn ",").filter (· ≠ "") do
    match kv.splitOn "=" with
    | [k, v] =>
      match k with
      | "sc" => o := { o with sc := ← v.toNat? }
      | "ss" => o := { o with ss := ← v.toNat? }
      | "th" => o := { o with th := some (← ((v.splitOn ":").filter (· ≠ "")).mapM String.toNat?) }
      | "ig" => o := { o with ig := some (v = "1") }
      | "maxt" => o := { o with maxt := ← v.toNat? }
      | "mint" => o := { o with mint := ← v.toNat? }
      | "sk" => o := { o with sk := some (v = "1") }
      | "bytes" => o := { o with bytes := ← v.toNat? }
      | "chars" => o := { o with chars := ← v.toNat? }
      | "cycles" => o := { o with cycles := ← v.toNat? }
      | "items" => o := { o with items := ← v.toNat? }
      | _ => none
    | _ => none
  some (some o)

/-- `hex~fbits,hex~fbits` → names and the table name ↦ bits of `parse::<f64>()` -/
def parseArgs (s : String) : Option (Option (List String) × List (String × Option Nat)) :=
  if s = "-" then some (none, []) else if s = "=" then some (some [], []) else do
  let parts := s.splitOn ","
  let ps ← parts.mapM fun p => match p.splitOn "~" with
    | [h, f] => do
      let fb ← if f = "n" then some none else f.toNat?.map some
      some (str h, fb)
    | _ => none
  some (some (ps.map (·.1)), ps)

def parseMeta (t : List String) : Option Meta :=
  match t with
  | [m, raw, disp, file, line, col, opts] => do
    some { modPath := (str m).splitOn "::", raw := str raw, disp := str disp,
           loc := ⟨str file, ← line.toNat?, ← col.toNat?⟩, opts := ← parseOpts opts }
  | _ => none

/-- an item as the user wrote it -/
inductive Item
  | bench (m : Meta) (slot : Nat) (args : Option (List String))
  | group (m : Meta)                                           -- `#[bench_group] mod raw`
  | generic (m : Meta) (insts : List Bench) (hasTypes hasConsts : Bool)   -- generic `#[bench]` fn
  deriving Inhabited

structure Parsed where
  items : List Item
  fb : List (String × Option Nat)
  slots : Nat

def parseConsts (s : String) : Option (List Const) :=
  match s.splitOn ":" with
  | kind :: vals =>
    (vals.filter (· ≠ "")).mapM fun v => match kind with
      | "i" => (if v.startsWith "-" then (v.drop 1).toString.toNat?.map (fun n => Const.int (-(n : Int)))
                else v.toNat?.map (fun n => Const.int n))
      | "s" => some (.str (str v))
      | _ => ((str v).toList.head?).map (fun c => Const.chr c.toNat)
  | [] => none

def parseItems (groups : List (List String)) : Option Parsed := do
  let mut items : List Item := []
  let mut fb : List (String × Option Nat) := []
  let mut slot := 0
  for it in groups do
    match it with
    | "B" :: rest =>
      let m ← parseMeta (rest.take 7)
      let (args, f) ← parseArgs (rest.getD 7 "-")
      fb := fb ++ f
      items := items ++ [.bench m slot args]
      slot := slot + 1
    | "G" :: rest =>
      let m ← parseMeta (rest.take 7)
      let types := rest.getD 7 "-"; let consts := rest.getD 8 "-"; let argsS := rest.getD 9 "-"
      if types = "-" ∧ consts = "-" then items := items ++ [.group m] else
      let (args, f) ← parseArgs argsS
      fb := fb ++ f
      let tys : List (Option String) ← if types = "-" then some [none] else
        ((types.splitOn ":").filter (· ≠ "")).mapM fun t => match t.splitOn "~" with
          | [_, raw] => some (some (str raw))
          | _ => none
      let cs : List (Option Const) ← if consts = "-" then some [none] else (parseConsts consts).map (·.map some)
      let mut insts : List Bench := []
      for t in tys do
        for c in cs do
          insts := insts ++ [{ slot := slot, gmeta := m, generic := true, ty := t, const := c, args := args }]
          slot := slot + 1
      items := items ++ [.generic m insts (types ≠ "-") (consts ≠ "-")]
    | _ => none
  some ⟨items, fb, slot⟩

/-- registered entries in iteration order: `push` prepends, so `iter()` is the reverse push order -/
def toProgram (items : List Item) (order : List Nat) : Program :=
  let pushed := order.filterMap fun i => items[i]?
  let benches := (pushed.filterMap fun it => match it with
    | .bench m slot args => some ({ slot := slot, gmeta := m, generic := false, ty := none, const := none, args := args } : Bench)
    | _ => none).reverse
  let groupsPushed := pushed.filterMap fun it => match it with
    | .group m => some (m, ([] : List Bench))
    | .generic m insts _ _ => some (m, insts)
    | _ => none
  let n := groupsPushed.length
  let groups := ((List.range n).map fun i =>
    let (m, insts) := groupsPushed.getD i default
    ({ gid := i, gmeta := m, benches := insts } : Group)).reverse
  ⟨benches, groups⟩

structure Parse where
  cfg : Cfg
  act : String
  cfgAct : String := "test"
  sortName : String := "kind"
  ignName : String := "no"
  items : List Item
  order : List Nat
  fb : List (String × Option Nat)
  slots : Nat
  pos : List FilterSpec
  neg : List FilterSpec

def splitBar (l : List String) : List (List String) :=
  let rec go (cur : List String) (acc : List (List String)) : List String → List (List String)
    | [] => (cur.reverse :: acc).reverse
    | "|" :: r => go [] (cur.reverse :: acc) r
    | x :: r => go (x :: cur) acc r
  go [] [] l

def parse (args : List String) : Option Parse := do
  let gs := splitBar args
  let cfgToks := gs.headD []
  let kv := cfgToks.filterMap fun t => match t.splitOn "=" with
    | k :: v => some (k, "=".intercalate v)
    | _ => none
  let get (k : String) : Option String := (kv.find? (·.1 = k)).map (·.2)
  let all (k : String) : List String := (kv.filter (·.1 = k)).map (·.2)
  let act := (get "act").getD "test"
  let via := (get "via").getD "cli"
  let exact := get "exact" = some "1"
  let p ← parseItems (gs.drop 1)
  let order ← match get "order" with
    | some o => ((o.splitOn ":").filter (· ≠ "")).mapM String.toNat?
    | none => some (List.range p.items.length)
  let mut rt : Opts := {}
  for (k, v) in kv do
    match k with
    | "o.sc" => rt := { rt with sc := ← v.toNat? }
    | "o.ss" => rt := { rt with ss := ← v.toNat? }
    | "o.th" => rt := { rt with th := some (← ((v.splitOn ":").filter (· ≠ "")).mapM String.toNat?) }
    | "o.maxt" => rt := { rt with maxt := ← v.toNat? }
    | "o.mint" => rt := { rt with mint := ← v.toNat? }
    | "o.sk" => rt := { rt with sk := some (v = "1") }
    | "o.bytes" => rt := { rt with bytes := ← v.toNat? }
    | "o.chars" => rt := { rt with chars := ← v.toNat? }
    | "o.cycles" => rt := { rt with cycles := ← v.toNat? }
    | "o.items" => rt := { rt with items := ← v.toNat? }
    | _ => pure ()
  -- the CLI sorts and dedups `--threads` itself
  -- both the command line and `Divan::threads` sort and dedup the list
  rt := { rt with th := rt.th.map fun l => dedupAdj (l.mergeSort (· ≤ ·)) }
  let pos := (all "f").map fun h => (⟨exact, str h⟩ : FilterSpec)
  let neg := (all "s").map fun h => (⟨exact, str h⟩ : FilterSpec)
  -- call order: builder skips first (the child applies them before `config_with_args`), else the CLI's
  -- positional filters then its `--skip`s
  let filters := if via = "builder" then neg.map (·, false) else pos.map (·, true) ++ neg.map (·, false)
  let action : Action := match act with
    | "bench" | "benchapi" => .bench
    | "list" => .list
    | "terse" => .terse
    | "listapi" => .list
    | _ => .test
  let cfg : Cfg := {
    action, attr := match get "sort" with | some "name" => 1 | some "location" => 2 | _ => 0,
    rev := get "rev" = some "1" && (get "sort").isSome && get "sort" ≠ some "-",
    runIgnored := match get "ign" with | some "inc" => 1 | some "only" => 2 | _ => 0,
    runtime := rt, filters, parallelism := ((get "par").bind String.toNat?).getD 1 }
  -- `config_with_args`: `--list` (terse under nextest), else `--test` or no `--bench` flag => test, else bench
  let cfgAct := match act with
    | "bench" => "bench" | "list" => "list" | "terse" => "terse" | _ => "test"
  some { cfg := cfg, act := act, cfgAct := cfgAct,
         sortName := (match get "sort" with | some "name" => "name" | some "location" => "location" | _ => "kind"),
         ignName := (match get "ign" with | some "inc" => "inc" | some "only" => "only" | _ => "no"),
         items := p.items, order := order, fb := p.fb, slots := p.slots,
         pos := if via = "builder" then [] else pos, neg := neg }

/-! ### executable specification on the abstract program -/

structure Case where
  slot : Nat
  arg : Option String
  path : String
  chain : List (Option Opts)       -- benchmark first, then enclosing groups innermost first
  rawComps : List String := []     -- the node's identity: raw module / function names, then type / const / argument
  hasArg : Bool := false
  fnLevel : Nat := 0               -- a plain benchmark's own node is a leaf (distinct from a module of the same name)
  deriving Inhabited

/-- the `bench_group` on module `path` (= parent path ++ [raw]), if any -/
def groupOf (items : List Item) (parent : List String) (raw : String) : Option Meta :=
  items.findSome? fun it => match it with
    | .group m => if m.modPath = parent ∧ m.raw = raw then some m else none
    | _ => none

/-- display components and group option chain (innermost first) of a module path -/
def modChain (items : List Item) : List String → List String × List (Option Opts)
  | path =>
    let n := path.length
    let comps := (List.range n).map fun i =>
      let parent := path.take i
      let raw := path.getD i ""
      match groupOf items parent raw with
      | some m => (m.disp, m.opts)
      | none => (stripRaw raw, none)
    (comps.map (·.1), (comps.map (·.2)).reverse)

def specCases (items : List Item) : List Case :=
  items.flatMap fun it => match it with
    | .group _ => []
    | .bench m slot args =>
      let (comps, chain) := modChain items m.modPath
      let base := "::".intercalate (comps ++ [m.disp])
      let raw := m.modPath ++ [m.raw]
      match args with
      | none => [⟨slot, none, base, m.opts :: chain, raw, false, raw.length⟩]
      | some as => as.map fun a => ⟨slot, some a, base ++ "::" ++ a, m.opts :: chain, raw ++ [a], true, raw.length⟩
    | .generic m insts _ _ =>
      let (comps, chain) := modChain items m.modPath
      insts.flatMap fun b =>
        let tail := (match b.ty with | some t => [typeDisplay t] | none => []) ++
                    (match b.const with | some c => [c.name] | none => [])
        let base := "::".intercalate (comps ++ [m.disp] ++ tail)
        let raw := m.modPath ++ [m.raw] ++ tail
        match b.args with
        | none => [⟨b.slot, none, base, m.opts :: chain, raw, false, 0⟩]
        | some as => as.map fun a => ⟨b.slot, some a, base ++ "::" ++ a, m.opts :: chain, raw ++ [a], true, 0⟩

/-- C13: selected iff no skip filter matches and (there are no positive filters or one matches) -/
def specSelected (pos neg : List FilterSpec) (p : String) : Bool :=
  !(neg.any (·.matches p)) && (pos.isEmpty || pos.any (·.matches p))

/-- C15: first level that sets the field, run time first -/
def resolve {α} (f : Opts → Option α) (rt : Opts) (chain : List (Option Opts)) : Option α :=
  (f rt).or (chain.findSome? fun o => o.bind f)

def specShouldRun (flag : Nat) (ign : Bool) : Bool :=
  match flag with
  | 0 => !ign          -- default: skip ignored
  | 1 => true          -- --include-ignored
  | _ => ign           -- --ignored: exactly the ignored ones

def specThreads (th : Option (List Nat)) (par : Nat) : List Nat :=
  let l := ((th.getD []).map fun n => if n = 0 then par else n)
  let l := (l.mergeSort (· ≤ ·)).eraseDups
  if l.isEmpty then [1] else l

def msEq [BEq α] (a b : List α) : Bool :=
  a.length == b.length && a.all (fun x => a.count x == b.count x)

def lineAt (out : String) (k : Nat) : String := (out.splitOn "\n").getD k ""

/-- the name printed on a tree line: drop box-drawing prefix, cut at the first double space
    (`LineCodec.cutLabel`: the cutter the theorems of `Props/C20Codec` are about) -/
def labelOf (line : String) : String :=
  let cs := line.toList.dropWhile fun c => c = '│' || c = ' ' || c = '├' || c = '╰' || c = '─'
  String.ofList (LineCodec.cutLabel cs)

/-- is every sibling set of the (filtered, sorted) tree well-formed in the sense of `Prog.sibOk`, the
    hypothesis of the order theorems in `Props/C16Order.lean`? -/
partial def levelsOk (ts : List Tree) : Bool :=
  sibOk ts && ts.all fun t => match t with
    | .parent _ _ ch => levelsOk ch
    | .leaf .. => true

/-- `("│  " | "   ")* ("├─ " | "╰─ ")` split off a line; rows without a branch glyph have no prefix
    (`LineCodec.splitPrefix`; the prefix text is the part of the line it consumed) -/
def treePrefix (line : String) : String × String :=
  match LineCodec.splitPrefix line.toList with
  | some (p, _, r) => (String.ofList (line.toList.take (3 * (p.length + 1))), String.ofList r)
  | none => ("", line)

structure TLine where
  depth : Nat
  last : Bool
  bars : List Bool       -- one per enclosing level below the top: is a continuation bar drawn?
  label : String
  deriving Repr, Inhabited

/-- a row that opens a node: depth, corner/branch, bars, label; `none` for continuation rows.
    This is `LineCodec.parseRow`, the decoder `Props/C20Codec.line_reads_back` proves to invert the
    painter's rendering of a row. -/
def parseTLine (line : String) : Option TLine :=
  (LineCodec.parseRow line.toList).map fun r => ⟨r.depth, r.last, r.bars, String.ofList r.label⟩

/-- C20 on the printed text alone: every row's glyphs show its true position - corner exactly on the
    last child of its parent, a continuation bar under exactly those ancestors that have later siblings,
    depth growing by at most one. Returns the first offending row. -/
def treeGlyphsOk (out : String) : Option String :=
  let rows := (out.splitOn "\n").filterMap parseTLine
  let arr := rows.toArray
  let n := arr.size
  (List.range n).findSome? fun i =>
    let r := arr[i]!
    if r.depth = 0 then none else
    -- the rows after `i` up to the first one that is shallower than `r`
    let later := ((List.range (n - i - 1)).map fun k => arr[i + 1 + k]!).takeWhile fun x => x.depth ≥ r.depth
    let hasLaterSibling := later.any fun x => x.depth = r.depth
    let prevDepth := if i = 0 then 0 else (arr[i - 1]!).depth
    -- ancestors: the most recent earlier row of each smaller depth
    let anc (d : Nat) : Option TLine := ((List.range i).reverse.map fun k => arr[k]!).find? fun x => x.depth ≤ d
    let barsOk := (List.range (r.depth - 1)).all fun j =>
      match anc (j + 1) with
      | some a => a.depth = j + 1 ∧ r.bars.getD j false = !a.last
      | none => false
    if r.depth > prevDepth + 1 ∨ i = 0 then some s!"row {i} ({r.label}) is deeper than a child of the row above"
    else if r.last = hasLaterSibling then some s!"row {i} ({r.label}) has {if r.last then "a corner but later siblings" else "a branch but no later sibling"}"
    else if !barsOk then some s!"row {i} ({r.label}) has continuation bars that do not match its ancestors' positions"
    else none

/-- does some module hold a `bench_group` module and a generic benchmark function of the same name? (F7) -/
def nameClash (items : List Item) : Bool :=
  items.any fun a => match a with
    | .generic m _ _ _ => items.any fun b => match b with
      | .group g => g.modPath = m.modPath ∧ g.raw = m.raw
      -- anything inside `mod raw` (at any depth) next to the generic `fn raw`
      | .bench b _ _ => (m.modPath ++ [m.raw]).isPrefixOf b.modPath
      | .generic g _ _ _ => (m.modPath ++ [m.raw]).isPrefixOf g.modPath
    | _ => false

def showExecs (es : List Exec) : String :=
  if es.isEmpty then "-" else
  ",".intercalate (es.map fun e => s!"R:{e.slot}:{match e.arg with | some a => hexS a | none => "~"}:{e.calls}:{e.threads}")

def parseExecs (s : String) : Option (List Exec) :=
  if s = "-" then some [] else
  (s.splitOn ",").mapM fun r => match r.splitOn ":" with
    | ["R", slot, arg, calls, th] => do
      some ⟨← slot.toNat?, if arg = "~" then none else some (str arg), ← calls.toNat?, ← th.toNat?⟩
    | _ => none

def showOpts (o : Opts) : String :=
  let s (v : Option Nat) : String := match v with | some n => toString n | none => "-"
  let b (v : Option Bool) : String := match v with | some true => "1" | some false => "0" | none => "-"
  let th := match o.th with | some l => "[" ++ ":".intercalate (l.map toString) ++ "]" | none => "-"
  s!"{s o.sc} {s o.ss} {th} {b o.ig} {s o.maxt} {s o.mint} {b o.sk} {s o.bytes} {s o.chars} {s o.cycles} {s o.items}"

/-- `ovw a b`: `a.overwrite(b)`; the spec says: per field, `a`'s value if set, else `b`'s -/
def handleOvw (args : List String) (obs : String) : Option Reply := do
  match args with
  | [a, b] =>
    let oa := (← parseOpts (if a = "+" then "" else a)).getD {}
    let ob := (← parseOpts (if b = "+" then "" else b)).getD {}
    let m := showOpts (oa.overwrite ob)
    let pick {α} (x y : Option α) : Option α := match x with | some v => some v | none => y
    let want : Opts := { sc := pick oa.sc ob.sc, ss := pick oa.ss ob.ss, th := pick oa.th ob.th, ig := pick oa.ig ob.ig,
                         maxt := pick oa.maxt ob.maxt, mint := pick oa.mint ob.mint, sk := pick oa.sk ob.sk,
                         bytes := pick oa.bytes ob.bytes, chars := pick oa.chars ob.chars,
                         cycles := pick oa.cycles ob.cycles, items := pick oa.items ob.items }
    some { model := m, verdict := check (obs.trimAscii.toString = showOpts want) "[C15] overwrite is not field-by-field",
           tag := if a = "+" ∨ b = "+" then "trivial-one-empty" else "both" }
  | _ => none

/-- one entry as the macros registered it (macro lab, `N` segment of the observation) -/
structure RegEntry where
  kind : String          -- "B" benchmark, "g" bench_group module, "G" generic benchmark
  modPath : String
  raw : String
  disp : String
  file : String
  line : Nat
  col : Nat
  opts : String
  shape : String
  deriving Repr, Inhabited

def parseRegEntries (seg : String) : List RegEntry :=
  if seg = "-" ∨ seg = "" then [] else
  (seg.splitOn ";").filterMap fun e => match e.splitOn "/" with
    | [k, m, r, d, f, l, c, o, sh] => some ⟨k, str m, str r, str d, str f, l.toNat?.getD 0, c.toNat?.getD 0, o, sh⟩
    | _ => none

def itemMeta : Item → Meta
  | .bench m _ _ => m
  | .group m => m
  | .generic m _ _ _ => m

def itemKind : Item → String
  | .bench _ _ _ => "B"
  | .group _ => "g"
  | .generic _ _ _ _ => "G"

def withMeta (it : Item) (m : Meta) : Item :=
  match it with
  | .bench _ s a => .bench m s a
  | .group _ => .group m
  | .generic _ insts t c => .generic m (insts.map fun b => { b with gmeta := m }) t c

/-- the shape of `GroupEntry::generic_benches` the macro is documented to build: one inner slice per
    type holding the consts, or a single slice of types / of consts (from the item's raw tokens) -/
def wantShape (toks : List String) : String :=
  match toks with
  | "G" :: rest =>
    let types := rest.getD 7 "-"; let consts := rest.getD 8 "-"
    if types = "-" ∧ consts = "-" then "-" else
    let nt := ((types.splitOn ":").filter (· ≠ "")).length
    let nc := (((consts.splitOn ":").drop 1).filter (· ≠ "")).length
    if types ≠ "-" ∧ consts ≠ "-" then "[" ++ "+".intercalate ((List.replicate nt nc).map toString) ++ "]"
    else if types ≠ "-" then s!"[{nt}]" else s!"[{nc}]"
  | _ => "-"

def handleCore (mac : Bool) (args : List String) (obs : String) : Option Reply := do
  let ps0 ← parse args
  -- macro lab: what the macros registered (metadata, location, constructor order) comes from the child
  let o0 := words obs
  let seg0 (c : Char) : String := ((o0.find? fun w => w.front = c).map fun w => (w.drop 1).toString).getD ""
  let regd := if mac then parseRegEntries (seg0 'N') else []
  let srcLines : List (Nat × Nat) := if mac then ((seg0 'S').splitOn ":").filterMap fun p => match p.splitOn "-" with
    | [a, b] => some (a.toNat?.getD 0, b.toNat?.getD 0)
    | _ => none else []
  let cfgKV := (splitBar args).headD [] |>.filterMap fun t => match t.splitOn "=" with
    | k :: v => some (k, "=".intercalate v)
    | _ => none
  let nbSlots : List Nat := ((cfgKV.find? (·.1 = "nb")).map fun kv => (kv.2.splitOn ":").filterMap String.toNat?).getD []
  let rootName := ((cfgKV.find? (·.1 = "root")).map (·.2)).getD "p0"
  let findReg (it : Item) : List RegEntry :=
    let m := itemMeta it
    regd.filter fun e => e.kind = itemKind it ∧ e.modPath = "::".intercalate m.modPath ∧ e.raw = m.raw
  -- items with the registered location; push order = reverse iteration order, per list
  let itemsL : List Item := if !mac then ps0.items else
    ps0.items.map fun it => match findReg it with
      | e :: _ => withMeta it { itemMeta it with loc := ⟨e.file, e.line, e.col⟩ }
      | [] => it
  let idxOfEntry (e : RegEntry) : Option Nat :=
    (List.range ps0.items.length).find? fun i =>
      let it := ps0.items.getD i default
      let m := itemMeta it
      e.kind = itemKind it ∧ e.modPath = "::".intercalate m.modPath ∧ e.raw = m.raw
  let orderL : List Nat := if !mac then ps0.order else
    ((regd.filter (·.kind = "B")).filterMap idxOfEntry).reverse ++ ((regd.filter (·.kind ≠ "B")).filterMap idxOfEntry).reverse
  let ps : Parse := { ps0 with items := itemsL, order := orderL }
  -- C12 on the registration itself
  let rawGroups := (splitBar args).drop 1
  let regErrs : List String := if !mac then [] else
    let perItem := (List.range ps0.items.length).flatMap fun i =>
      let it := ps0.items.getD i default
      let m := itemMeta it
      let nm := "::".intercalate (m.modPath ++ [m.raw])
      match findReg it with
      | [] => [s!"{nm} was not registered"]
      | [e] =>
        let wantOpts := match m.opts with | some o => (showOpts o).replace " " "," | none => "-"
        let (a, b) := srcLines.getD i (0, 0)
        (if e.disp ≠ m.disp then [s!"{nm}: display name {e.disp} instead of {m.disp}"] else []) ++
        (if e.opts ≠ wantOpts then [s!"{nm}: options {e.opts} instead of {wantOpts}"] else []) ++
        (if e.shape ≠ wantShape (rawGroups.getD i []) then [s!"{nm}: instantiations {e.shape} instead of {wantShape (rawGroups.getD i [])}"] else []) ++
        (if e.file ≠ s!"src/bin/{rootName}.rs" ∨ e.line < a ∨ e.line > b then [s!"{nm}: location {e.file}:{e.line} outside the item's lines {a}-{b}"] else [])
      | _ => [s!"{nm} was registered more than once"]
    let extra := regd.filter fun e => (idxOfEntry e).isNone
    perItem ++ extra.map fun e => s!"{e.modPath}::{e.raw} is registered but not an item of the program"
  let pr := toProgram ps.items ps.order
  let fbits (s : String) : Option Nat := ((ps.fb.find? (·.1 = s)).map (·.2)).join
  let cfgKV0 : List (String × String) := (splitBar args).headD [] |>.filterMap fun t => match t.splitOn "=" with
    | k :: v => some (k, "=".intercalate v)
    | _ => none
  let r := run pr ps.cfg fbits
  -- argument lists are evaluated once per registered benchmark with `args`
  -- (the macros share one argument list among the instantiations of a generic benchmark: one
  -- evaluation, counted on its first slot; the synthetic registration has a list per instance)
  let evals := (List.range ps.slots).map fun k =>
    if ps.items.any (fun it => match it with
      | .bench _ s a => s = k ∧ a.isSome
      | .generic _ insts _ _ =>
        if mac then (match insts.head? with | some b => b.slot = k ∧ b.args.isSome | none => false)
        else insts.any fun b => b.slot = k ∧ b.args.isSome
      | _ => false) then 1 else 0
  let evalsT := (evals.reverse.dropWhile (· = 0)).reverse
  let evalsS := if evalsT.isEmpty then "0" else ":".intercalate (evalsT.map toString)
  -- bench output is compared after collapsing runs of spaces (measured values are class tokens)
  let canon (t : String) : String :=
    "".intercalate ((t.splitOn "\n").dropLast.map fun l =>
      let (pre, rest) := treePrefix l
      pre ++ " ".intercalate ((rest.splitOn " ").filter (· ≠ "")) ++ "\n")
  let outTxt := if ps.cfg.action = .bench then canon r.out else r.out
  -- the run-time configuration as resolved from builder / command line / environment
  let actName := match ps.act with
    | "bench" => "bench" | "test" => "test" | "list" => "list" | "terse" => "terse"
    | _ => "bench"          -- the api forms call `config_with_args` without an action flag: the default is `bench`... see below
  let cfgDump := s!"act={ps.cfgAct};timer={((cfgKV0.find? (·.1 = "tm")).map (·.2)).getD "os"};sort={ps.sortName};rev={if ps.cfg.rev then 1 else 0};ign={ps.ignName};bytes={((cfgKV0.find? (·.1 = "bf")).map (·.2)).getD "decimal"};opts={(showOpts ps.cfg.runtime).replace " " ","}"
  let _ := actName
  -- benchmarks whose function takes no `Bencher` cannot tell runs apart: total calls per case
  let isNb (slot : Nat) : Bool := nbSlots.contains slot
  let execsB := r.execs.filter fun e => !isNb e.slot
  let labelsB := ((r.execs.zip r.labels).filter fun (e, _) => !isNb e.slot).map (·.2)
  let aggK : List (Nat × Option String × Nat) := (r.execs.filter fun e => isNb e.slot).foldl (fun acc e =>
    if acc.any (fun (s, a, _) => s = e.slot ∧ a = e.arg) then
      acc.map fun (s, a, n) => if s = e.slot ∧ a = e.arg then (s, a, n + e.calls) else (s, a, n)
    else acc ++ [(e.slot, e.arg, e.calls)]) []
  let aggK := aggK.filter fun (_, _, n) => n ≠ 0
  let showK := if aggK.isEmpty then "-" else
    ",".intercalate (aggK.map fun (s, a, n) => s!"C:{s}:{match a with | some a => hexS a | none => "~"}:{n}")
  let model := if mac then s!"N{seg0 'N'} S{seg0 'S'} V{seg0 'V'} K{showK} X0 G{cfgDump} O{hexS outTxt} L{showExecs execsB} E{evalsS}"
    else s!"X0 G{cfgDump} O{hexS outTxt} L{showExecs r.execs} E{evalsS}"
  -- ---- spec on the implementation's observation
  let o := words obs
  let seg (c : Char) : String := ((o.find? fun w => w.front = c).map fun w => (w.drop 1).toString).getD ""
  let implOut := str (seg 'O')
  let implExecs := parseExecs (seg 'L')
  let implK : List (Nat × Option String × Nat) := if seg 'K' = "-" ∨ seg 'K' = "" then [] else
    ((seg 'K').splitOn ",").filterMap fun r => match r.splitOn ":" with
      | ["C", slot, arg, n] => some (slot.toNat?.getD 0, (if arg = "~" then none else some (str arg)), n.toNat?.getD 0)
      | _ => none
  let casesAll := specCases ps0.items
  let cases := casesAll.filter fun c => !isNb c.slot
  let selected := cases.filter fun c => specSelected ps.pos ps.neg c.path
  let runs := selected.filter fun c =>
    specShouldRun ps.cfg.runIgnored ((resolve (·.ig) ps.cfg.runtime c.chain).getD false)
  let clash := nameClash ps.items
  let listing := ps.act = "list" ∨ ps.act = "terse" ∨ ps.act = "listapi"
  let execAct : Action := if ps.act = "bench" ∨ ps.act = "benchapi" then .bench else .test
  let sel := if ps.pos.isEmpty ∧ ps.neg.isEmpty then "[C12][C13]" else "[C13]"
  -- the hypothesis of the C16 order theorems, evaluated on this very tree
  let sortedTree := sortList ps.cfg.attr ps.cfg.rev fbits
    (retainList (isSelected (filterSet ps.cfg.filters)) "" (buildTree pr))
  let sibAll := levelsOk sortedTree
  let nbRuns := ((casesAll.filter fun c => isNb c.slot).filter fun c => specSelected ps.pos ps.neg c.path).filter fun c =>
    specShouldRun ps.cfg.runIgnored ((resolve (·.ig) ps.cfg.runtime c.chain).getD false)
  let v : List String :=
    (if obs.startsWith "compile-error" then ["[C12][C17] the program did not compile: " ++ str ((obs.splitOn ":").getD 1 "")] else []) ++
    (if regErrs.isEmpty then [] else ["[C12] what the macros registered differs from the items as written: " ++ "; ".intercalate (regErrs.take 3)]) ++
    -- C15: the options an attribute carries are the benchmark / group level of the resolution
    (let optErrs := regErrs.filter fun e => (e.splitOn ": options ").length > 1
     if optErrs.isEmpty then [] else ["[C15] the options registered for an item are not the ones its attribute states: " ++ "; ".intercalate (optErrs.take 3)]) ++
    -- functions without a `Bencher`: total calls of every selected, not-ignored case; nothing else called
    (if mac ∧ !listing ∧ (seg 'X') = "0" then
       let bad := nbRuns.find? fun c =>
         let eo : Opts := { sc := resolve (·.sc) ps.cfg.runtime c.chain, ss := resolve (·.ss) ps.cfg.runtime c.chain,
                            maxt := resolve (·.maxt) ps.cfg.runtime c.chain }
         let ts := specThreads (resolve (·.th) ps.cfg.runtime c.chain) ps.cfg.parallelism
         let want := ((ts.map fun t => (callsOf execAct eo t).1).foldl (· + ·) 0) * (nbRuns.filter fun d => (d.slot, d.arg) == (c.slot, c.arg)).length
         let got := ((implK.filter fun (s, a, _) => s = c.slot ∧ a = c.arg).map fun (_, _, n) => n).foldl (· + ·) 0
         want ≠ got
       let extra := implK.find? fun (s, a, n) => n ≠ 0 ∧ !(nbRuns.any fun c => c.slot = s ∧ c.arg = a)
       (match bad with
        | some c => [s!"[C12][C13][C15][C17][C03] a benchmark function without a Bencher was not called the resolved number of times (case {c.path})"]
        | none => []) ++
       (match extra with
        | some (s, _, _) => [s!"[C12][C13][C17] a benchmark function without a Bencher was called although its case is not selected (slot {s})"]
        | none => [])
     else if mac ∧ listing ∧ !implK.isEmpty then ["[C14] listing invoked benchmarked functions"] else []) ++
    -- C02/C01: a function without a Bencher that returns a value with a destructor: the runner keeps the
    -- outputs of a sample until its calls are over, so at the last call of a sample of size s the s-1
    -- earlier outputs are alive (judged for cases that run on one thread only)
    (if mac ∧ !listing ∧ (seg 'X') = "0" then
       let roSlots : List Nat := ((cfgKV.find? (·.1 = "ro")).map fun kv => (kv.2.splitOn ":").filterMap String.toNat?).getD []
       let liveOf (slot : Nat) : Option Nat := ((seg0 'V').splitOn ",").findSome? fun e => match e.splitOn ":" with
         | [k, m] => if k.toNat? = some slot then m.toNat? else none
         | _ => none
       let szOf (d : Case) : Nat := if execAct = .bench then (resolve (·.ss) ps.cfg.runtime d.chain).getD 0 else 1
       let oneThread (d : Case) : Bool := specThreads (resolve (·.th) ps.cfg.runtime d.chain) ps.cfg.parallelism == [1]
       let bad := nbRuns.find? fun c =>
         let sz := szOf c
         -- every case of this slot runs on one thread and with this sample size
         let mine := nbRuns.filter fun d => d.slot == c.slot
         roSlots.contains c.slot && oneThread c && decide (sz ≥ 1) &&
         (mine.all fun d => oneThread d && szOf d == sz) &&
         (match liveOf c.slot with
          | some m => m != sz - 1
          | none => false)
       match bad with
       | some c => [s!"[C02][C01] the outputs of a benchmark function were not kept until the sample's calls were over: they were dropped between the calls, inside the timed section (case {c.path})"]
       | none => []
     else []) ++
    -- C17: the argument list of a benchmark is evaluated once per process (and shared by its instantiations)
    (let counts := ((seg 'E').splitOn ":").filterMap String.toNat?
     let bad := (List.range counts.length).find? fun k => counts.getD k 0 > 1
     match bad with
     | some k => [s!"[C17] the argument list of a benchmark was evaluated {counts.getD k 0} times (slot {k}) instead of once"]
     | none =>
       if (seg 'X') = "0" ∧ (seg 'E') ≠ evalsS ∧ (seg 'E') ≠ "" then
         ["[C17][C12] argument lists were not evaluated exactly once per registered benchmark with args (got " ++ seg 'E' ++ ", want " ++ evalsS ++ ")"]
       else []) ++
    -- C17: rows of a generic benchmark with args are run by the instantiation and argument they name
    (match implExecs with
     | some ex =>
       if listing ∨ clash then [] else
       let bad := ps.items.any fun it => match it with
         | .generic _ insts _ _ =>
           insts.any (fun b => b.args.isSome ∧ !isNb b.slot) ∧
           (let slots := insts.map (·.slot)
            let mine := (ex.filter fun e => slots.contains e.slot).map fun e => (e.slot, e.arg)
            let want := (runs.filter fun c => slots.contains c.slot).flatMap fun c =>
              List.replicate (specThreads (resolve (·.th) ps.cfg.runtime c.chain) ps.cfg.parallelism).length (c.slot, c.arg)
            !msEq mine want)
         | _ => false
       if bad then ["[C17] the rows of a generic benchmark with args were not run by the instantiation (type / const) and argument they name"] else []
     | none => []) ++
    (if (seg 'X') = "0" ∧ seg 'G' ≠ cfgDump then
       ["[C15][C14][C16][C04][C03] the runner's run-time configuration differs from what was given on the command line / DIVAN_* environment / builder (got " ++ seg 'G' ++ ")"] else []) ++
    (if (seg 'X') ≠ "0" then ["[C12][C13][C14][C15][C16][C17][C20][C04][C03] run did not finish cleanly (exit " ++ seg 'X' ++ ")"] else []) ++
    (match implExecs with
     | none => ["[C12][C13][C14][C15][C17] malformed invocation log"]
     | some ex =>
       (if listing ∧ !ex.isEmpty then ["[C14] listing invoked benchmarked functions"] else []) ++
       (if ps.act = "terse" then
          let want := (runs ++ nbRuns).map fun c => c.path ++ ": benchmark"
          let got := (implOut.splitOn "\n").filter (· ≠ "")
          if msEq want got then [] else
          [(if clash then "[C12][C14] terse listing differs from the cases a run executes (F7 name clash)"
            else "[C14] terse listing differs from the cases a test run would execute")]
        else []) ++
       (if !listing then
          -- which cases ran: every selected, not-ignored case once per thread count, nothing else
          let key (c : Case) := (c.slot, c.arg)
          let tsOf (c : Case) := specThreads (resolve (·.th) ps.cfg.runtime c.chain) ps.cfg.parallelism
          let wrong := runs.find? fun c =>
            (ex.filter fun e => (e.slot, e.arg) == key c).length ≠ (runs.filter fun d => key d == key c).length * (tsOf c).length
          let extra := ex.find? fun e => !(runs.any fun c => key c == (e.slot, e.arg))
          (match wrong, extra with
           | none, none => []
           | some c, _ => [(if clash then "[C12][C15] executed cases differ from the registered, selected, not-ignored ones (F7 name clash)"
              else sel ++ "[C15][C14] executed cases differ from the registered, selected, not-ignored ones") ++ s!" (case {c.path})"]
           | none, some e => [(if clash then "[C12][C15] executed cases differ from the registered, selected, not-ignored ones (F7 name clash)"
              else sel ++ "[C15][C14] executed cases differ from the registered, selected, not-ignored ones") ++ s!" (unexpected slot {e.slot})"]) ++
          -- calls and thread counts per case under the per-field resolved options
          (let badCalls := runs.find? fun c =>
              let eo : Opts := { sc := resolve (·.sc) ps.cfg.runtime c.chain, ss := resolve (·.ss) ps.cfg.runtime c.chain,
                                 maxt := resolve (·.maxt) ps.cfg.runtime c.chain }
              let ts := tsOf c
              let mine := ex.filter fun e => (e.slot, e.arg) == key c
              !((List.range mine.length).all fun i =>
                  let t := ts.getD (i % ts.length) 1
                  let e := mine.getD i default
                  let (calls, _, _) := callsOf execAct eo t
                  e.calls = calls ∧ e.threads = (if calls = 0 then 0 else t))
            match badCalls with
            | some c => if clash then [s!"[C15] calls / thread counts differ from the per-field resolved options (F7 name clash) (case {c.path})"]
                        else [s!"[C15][C03] calls / thread counts differ from the per-field resolved options (case {c.path})"]
            | none => [])
        else []) ++
       -- C03: the samples / iters figures of every statistics row
       (if execAct = .bench ∧ !listing ∧ !clash ∧ nbRuns.isEmpty then
          let rows := (implOut.splitOn "\n").filterMap fun l =>
            let cells := (LineCodec.splitCells l.toList).map String.ofList   -- Props/C20Codec.cells_read_back
            if cells.length ≥ 6 then
              match (cells.getD (cells.length - 2) "").trimAscii.toString.toNat?, (cells.getD (cells.length - 1) "").trimAscii.toString.toNat? with
              | some a, some b => some (a, b)
              | _, _ => none
            else none
          let want := ex.filterMap fun e =>
            (runs.find? fun c => (c.slot, c.arg) == (e.slot, e.arg)).map fun c =>
              let n := (resolve (·.sc) ps.cfg.runtime c.chain).getD 100
              let sz := (resolve (·.ss) ps.cfg.runtime c.chain).getD 1
              let t := max e.threads 1
              if e.calls = 0 then (0, 0) else (t * ((n + t - 1) / t), sz * (t * ((n + t - 1) / t)))
          if rows ≠ want then ["[C03] the samples / iters figures of a row are not T*ceil(n/T) and that times the sample size"] else []
        else []) ++
       -- C16: under --sort location the instantiations and the arguments of one benchmark keep their
       -- declaration order (exactly reversed under --sortr)
       (if !listing ∧ ps.cfg.attr = 2 ∧ !clash then
          let mono (l : List Nat) : Bool :=
            let l := if ps.cfg.rev then l.reverse else l
            (l.zip (l.drop 1)).all fun (a, b) => a ≤ b
          let badInst := ps.items.any fun it => match it with
            | .generic _ insts hasT hasC =>
              -- a types x consts benchmark has an intermediate type level without a position of its own
              -- (name order there): declaration order is required among the consts of each type
              let groups : List (List Nat) :=
                if hasT ∧ hasC then (insts.map (·.ty)).eraseDups.map fun t => (insts.filter (·.ty == t)).map (·.slot)
                else [insts.map (·.slot)]
              groups.any fun slots => !mono ((ex.map (·.slot)).eraseDups.filter slots.contains)
            | _ => false
          let badArgs := ps.items.any fun it =>
            let chk (slot : Nat) (args : Option (List String)) : Bool := match args with
              | some names =>
                if names.eraseDups.length ≠ names.length then false else
                let got := ((ex.filter (·.slot = slot)).filterMap (·.arg)).eraseDups
                !mono (got.filterMap fun a => names.idxOf? a)
              | none => false
            match it with
            | .bench _ slot args => chk slot args
            | .generic _ insts _ _ => insts.any fun b => chk b.slot b.args
            | _ => false
          (if badInst then ["[C16] under --sort location the generic instantiations of one benchmark are not in declaration order"] else []) ++
          (if badArgs then ["[C16] under --sort location the arguments of one benchmark are not in declaration order"] else [])
        else []) ++
       -- C20: every selected argument case is part of the printed tree, also when only listing
       (if (ps.act = "list" ∨ ps.act = "listapi") ∧ runs.any (·.arg.isSome) ∧
           !(runs.filter (·.arg.isSome)).all (fun c => (implOut.splitOn "\n").any fun l => labelOf l == c.arg.getD "") then
          ["[C20] --list prints a benchmark with args as a bare leaf: its argument cases are missing from the tree (F9)"] else []) ++
       -- C12/C20: every module, group and benchmark node above a shown case is printed exactly once
       (if ps.act ≠ "terse" ∧ (seg 'X') = "0" ∧ !clash then
          let rows := ((implOut.splitOn "\n").filterMap parseTLine).toArray
          let isT (l : String) : Bool := l.startsWith "t=" ∧ ((l.drop 2).toString.toNat?).isSome
          let printed : List Nat := (List.range rows.size).filterMap fun i =>
            let r := rows[i]!
            let kids := ((List.range (rows.size - i - 1)).map fun k => rows[i + 1 + k]!).takeWhile fun x => x.depth > r.depth
            let direct := kids.filter fun x => x.depth = r.depth + 1
            if direct.isEmpty ∨ direct.all (fun x => isT x.label) then none else some r.depth
          let shown := selected ++ ((casesAll.filter fun c => isNb c.slot).filter fun c => specSelected ps.pos ps.neg c.path)
          let isRun (c : Case) : Bool := specShouldRun ps.cfg.runIgnored ((resolve (·.ig) ps.cfg.runtime c.chain).getD false)
          let nodes : List (List String) := (shown.flatMap fun c =>
            let comps := if c.hasArg ∧ (listing ∨ !isRun c) then c.rawComps.dropLast else c.rawComps
            (List.range (comps.length - 1)).map fun k => comps.take (k + 1) ++ (if k + 1 = c.fnLevel then ["\x00fn"] else [])).eraseDups
          let want := nodes.map fun n => (n.filter (· ≠ "\x00fn")).length - 1
          if msEq printed want then [] else
          [s!"[C12][C20] the modules, groups and benchmarks above the shown cases are not printed exactly once each (parent rows per depth: printed {(List.range 8).map fun d => printed.count d}, written {(List.range 8).map fun d => want.count d})"]
        else []) ++
       -- C16/C20: the same rows in another order. Where no two siblings compare `Equal` and every sibling
       -- set is well-formed, the ascending order is unique (Props/C16Order: siblings_ascending,
       -- C16.sorted_unique), so the model's sequence *is* the documented sorted depth-first order
       (if ps.act ≠ "terse" ∧ (seg 'X') = "0" ∧ !clash ∧ !r.ambiguous ∧ sibAll then
          let rowsOf (t : String) : List (Nat × String) := ((t.splitOn "\n").filterMap parseTLine).map fun x => (x.depth, x.label)
          let mine := rowsOf implOut
          let want := rowsOf outTxt
          if mine ≠ want ∧ msEq mine want then
            let i := ((List.range mine.length).find? fun k => mine.getD k (0, "") ≠ want.getD k (0, "")).getD 0
            [s!"[C16][C20] the rows are not in the documented sorted depth-first order (row {i}: `{(mine.getD i (0, "")).2}` is printed where `{(want.getD i (0, "")).2}` belongs)"]
          else []
        else []) ++
       -- C20/C15: no thread-count branch twice under one case (duplicate counts collapse)
       (if ps.act ≠ "terse" ∧ (seg 'X') = "0" then
          let rows := ((implOut.splitOn "\n").filterMap parseTLine).toArray
          let isT (l : String) : Bool := l.startsWith "t=" ∧ ((l.drop 2).toString.toNat?).isSome
          let dup := (List.range rows.size).find? fun i =>
            let r := rows[i]!
            isT r.label ∧ i + 1 < rows.size ∧
              (let kids := ((List.range (rows.size - i - 1)).map fun k => rows[i + 1 + k]!).takeWhile fun x => x.depth ≥ r.depth
               kids.any fun x => x.depth = r.depth ∧ x.label = r.label)
          match dup with
          | some i => [s!"[C20][C15] the thread-count branch `{(rows[i]!).label}` is printed (and run) more than once under one benchmark"]
          | none => []
        else []) ++
       -- C20: the statistics columns and their heading row belong to bench runs, whichever way the action
       -- was chosen (`--bench`, `run_benches()` on a runner configured otherwise), and to nothing else
       (if ps.act ≠ "terse" ∧ (seg 'X') = "0" ∧ !implOut.isEmpty then
          let heading := "fastest │ slowest │ median │ mean │ samples │ iters"
          let squash (l : String) : String := " ".intercalate ((l.splitOn " ").filter (· ≠ ""))
          let lines := (implOut.splitOn "\n").map squash
          let has := lines.any fun l => (l.splitOn heading).length > 1
          if execAct = .bench ∧ !listing ∧ !has then
            ["[C20] the table of a bench run has no heading row (fastest │ slowest │ median │ mean │ samples │ iters): the columns do not follow the action that runs"]
          else if (execAct ≠ .bench ∨ listing) ∧ has then
            ["[C20] a test run / listing prints the statistics heading row and columns of a bench run: the columns do not follow the action that runs"]
          else []
        else []) ++
       -- C20: glyphs of the printed tree, judged on the text alone
       (if ps.act ≠ "terse" ∧ (seg 'X') = "0" then
          match treeGlyphsOk implOut with
          | some why => ["[C20] the printed tree's glyphs do not show the true position of a row: " ++ why]
          | none => []
        else []) ++
       -- C17: the label printed for each executed argument case is the value the function received
       (if !listing then
          let bad := (List.range ex.length).any fun i =>
            match (ex.getD i default).arg with
            | some a => !a.isEmpty && labelOf (lineAt implOut (labelsB.getD i 0)) ≠ a
            | none => false
          -- (line indices are the model's: only meaningful when the two texts agree)
          if bad ∧ !clash ∧ hexS outTxt = seg 'O' then ["[C17] a case was run with an argument other than the one its label names"] else []
        else []))
  let verdict := if v.isEmpty then "ok" else "bad:" ++ " ;; ".intercalate v
  let tag :=
    if ps.items.isEmpty then "trivial-empty" else
    s!"{ps.act}-{if ps.pos.isEmpty ∧ ps.neg.isEmpty then "nofilter" else "filter"}-ign{ps.cfg.runIgnored}" ++
      (if r.ambiguous then "-ambiguous" else "") ++ (if clash then "-clash" else "") ++ (if sibAll then "" else "-nosibok") ++
      (if (cfgKV0.any (·.1 = "conc")) then "-conc" else "")
  some { model := model, verdict := verdict, tag := (if mac then "mac-" else "") ++ tag }

/-- `elist threads per rounds`: entries pushed into one `EntryList` from several threads at once. The lab
    reports what a reader walking from the head sees (`H` = the head's own entry, then newest first).
    Thread `t` pushes the entries `t*per .. t*per+per-1` in that order. The order of the reported list is a
    linearisation of the pushes: the model (`Model/EntryList`) is run on exactly that schedule (oldest
    entry first, each push uncontended: load, store, exchange) and must end with the same list. -/
def handleElist (args : List String) (obs : String) : Option Reply := do
  match args.mapM String.toNat? with
  | some [threads, per, _rounds] =>
    let total := threads * per
    let toks := (obs.trimAscii.toString.splitOn ",").filter (· ≠ "")
    let body := (toks.drop 1).filterMap String.toNat?
    let wellFormed := toks.head? = some "H" ∧ body.length + 1 = toks.length
    let work : Nat → List Nat := fun t => if t < threads then (List.range per).map (t * per + ·) else []
    -- the schedule the reported order stands for
    let sched : List (Nat × Bool) := body.reverse.flatMap fun v =>
      let t := if per = 0 then 0 else v / per
      [(t, false), (t, false), (t, false)]
    let fin := EList.run (EList.init work) sched
    let seen := EList.walk fin.next (total + 1) fin.head
    let model := ",".intercalate ("H" :: seen.map toString)
    let missing := (List.range total).filter fun v => !body.contains v
    let dups := body.length - body.eraseDups.length
    some { model := model,
           verdict :=
             if !wellFormed then "bad:[C12] the registration list does not start with its head entry or holds something that was never pushed"
             else if !missing.isEmpty then
               s!"bad:[C12] entries pushed into the registration list at the same time were lost ({missing.length} of {total} missing, e.g. entry {missing.headD 0})"
             else if dups > 0 ∨ body.length ≠ total then
               s!"bad:[C12] an entry is in the registration list more than once ({body.length} entries walked, {total} pushed)"
             else "ok",
           tag := if threads ≤ 1 then "trivial-one-thread" else s!"t{min threads 8}" }
  | _ => none

def handle (args : List String) (obs : String) : Option Reply := handleCore false args obs
def handleMac (args : List String) (obs : String) : Option Reply := handleCore true args obs

end Driver.Reg
